#!/venv/bin/python
"""Break-the-property validation.

For every seeded change under /verif/seeded/<id>/ (patch.diff + meta.json) and every own mutant under
/verif/selftest/mutants/*.diff (first line "# property: Cxx [, Cyy]"): copy /repo to a scratch directory outside /repo and
/verif, apply the patch, run the named quick checks with HYPERCORN_SRC pointing at the copy (evidence redirected), and
record whether a VIOLATION that is not a known finding was reported.  The copy is removed afterwards.

  selftest/run_mutants.py [--tier quick] [name ...]
"""
import json
import os
import re
import shutil
import subprocess
import sys
import tempfile

VERIF = os.path.dirname(os.path.dirname(os.path.abspath(__file__)))


def collect(names):
    out = []
    sd = os.path.join(VERIF, "seeded")
    for d in sorted(os.listdir(sd)) if os.path.isdir(sd) else []:
        pd = os.path.join(sd, d, "patch.diff")
        if os.path.exists(pd):
            meta = json.load(open(os.path.join(sd, d, "meta.json")))
            if meta.get("superseded"):
                continue  # no longer a valid seeded change for the tree as repaired since (see its meta.json)
            out.append(("seeded/" + d, pd, meta.get("checks") or [meta["property"]]))
    md = os.path.join(VERIF, "selftest", "mutants")
    for f in sorted(os.listdir(md)):
        if f.endswith(".diff"):
            first = open(os.path.join(md, f)).readline()
            props = re.findall(r"C\d\d", first)
            out.append(("mutants/" + f, os.path.join(md, f), props))
    if names:
        out = [o for o in out if any(n in o[0] for n in names)]
    return out


def main():
    args = [a for a in sys.argv[1:] if not a.startswith("--")]
    tier = "quick"
    if "--tier" in sys.argv:
        tier = sys.argv[sys.argv.index("--tier") + 1]
        args = [a for a in args if a != tier]
    rp = os.path.join(VERIF, "selftest", "results.json")
    results = json.load(open(rp)) if os.path.exists(rp) and args else {}
    for name, patch, props in collect(args):
        tmp = tempfile.mkdtemp(prefix="hv-mut-")
        try:
            shutil.copytree("/repo/src", os.path.join(tmp, "src"))
            body = "".join(l for l in open(patch) if not l.startswith("# "))
            r = subprocess.run(["patch", "-p1", "-s", "-d", tmp], input=body, text=True, capture_output=True)
            if r.returncode != 0:
                results[name] = {"error": "patch does not apply: " + (r.stdout + r.stderr)[-300:]}
                print(name, "PATCH-FAILED")
                continue
            env = dict(os.environ, HYPERCORN_SRC=os.path.join(tmp, "src"), HV_EVIDENCE_DIR=os.path.join(tmp, "evidence"))
            # the change must keep the repository's own suite green (193 pass, the two known failures)
            tr = subprocess.run(["/venv/bin/python", "-m", "pytest", "-q", "-p", "no:cacheprovider", "--timeout=300", "-x", "--deselect",
                                 "tests/asyncio/test_sanity.py::test_http2_websocket", "--deselect", "tests/trio/test_sanity.py::test_http2_websocket"],
                                cwd="/repo", env=dict(os.environ, PYTHONPATH=os.path.join(tmp, "src")), capture_output=True, text=True)
            suite_ok = tr.returncode == 0 and "193 passed" in tr.stdout
            if not suite_ok:
                results[name] = {"suite": "FAILS", "tail": tr.stdout[-300:]}
                print(name, "SUITE-FAILS (discard)", tr.stdout.strip().splitlines()[-1][:100] if tr.stdout.strip() else "")
                continue
            res = {}
            for p in props:
                pr = subprocess.run([os.path.join(VERIF, "bin", "check"), p, "--tier", tier], env=env, capture_output=True, text=True, cwd=VERIF)
                sigs = sorted(set(re.findall(r"sig=(\S+)", pr.stdout)))
                res[p] = {"exit": pr.returncode, "sigs": sigs[:6]}
            caught = [p for p, v in res.items() if v["exit"] == 1]
            results[name] = {"checks": res, "caught_by": caught}
            print(name, "CAUGHT by " + ",".join(caught) if caught else "MISSED", {p: v["sigs"][:2] for p, v in res.items()})
        finally:
            shutil.rmtree(tmp, ignore_errors=True)
    with open(os.path.join(VERIF, "selftest", "results.json"), "w") as f:
        json.dump(results, f, indent=1, sort_keys=True)
    return 0


if __name__ == "__main__":
    sys.exit(main())
