"""Tier B: the public serve() of each worker on real loopback sockets, in a background thread with its own event
loop; the calling thread plays the clients with blocking sockets.  Verdicts built on this are causal (order of
recorded events, "had not returned while X was held"), never chronometric."""
from __future__ import annotations

import socket
import threading
import time
import traceback

from ..apps.script import ScriptedApps
from ..probes.sanitizers import ListHandler
from ..probes.trace import Trace

_accept_lock = threading.Lock()
_accept_hooks = {}  # listening port -> trace
_patched = [False]


def _patch_accept():
    if _patched[0]:
        return
    import _socket

    def _accept(self):
        r = _socket.socket._accept(self)
        try:
            port = self.getsockname()[1] if self.family in (socket.AF_INET, socket.AF_INET6) else self.getsockname()
            tr = _accept_hooks.get(port)
            if tr is not None:
                tr.ev("net", "accept", port=port)
        except Exception:
            pass
        return r

    socket.socket._accept = _accept
    _patched[0] = True


class ServeHarness:
    def __init__(self, backend, config_kv, apps, max_requests=None, wsgi=None, config=None):
        from hypercorn.config import Config

        self.backend = backend
        self.t0 = time.monotonic()
        self.trace = Trace(lambda: time.monotonic() - self.t0)
        self.apps = ScriptedApps(self.trace, apps)
        self.apps.polling = True
        # `config`: an existing Config object to serve with again (a replacement worker started in-process from the same configuration)
        self.config = config if config is not None else Config()
        for k, v in config_kv.items():
            setattr(self.config, k, v)
        import logging

        class _San:
            def report(self, *a):
                pass

        self.err = logging.Logger("hv.real.error", logging.DEBUG)
        self.errh = ListHandler(self.trace, "error", _San())
        self.err.addHandler(self.errh)
        self.config.errorlog = self.err
        self.config.accesslog = None
        self.stop = threading.Event()
        self.result = None  # "returned" | ("raised", text)
        self.done = threading.Event()
        self.thread = None
        self.sockets = None
        self.port = None
        self.tcp_servers = 0

    # ---- server side ----------------------------------------------------------------------------
    def start(self, host="127.0.0.1", precreate=True):
        _patch_accept()
        self.config.bind = ["%s:0" % host]
        self.sockets = self.config.create_sockets()
        sock = (self.sockets.secure_sockets or self.sockets.insecure_sockets)[0]
        self.listen_sock = sock
        self.port = sock.getsockname()[1]
        self.host = host
        _accept_hooks[self.port] = self.trace
        self._wrap_tcpserver()
        self.thread = threading.Thread(target=self._run, daemon=True)
        self.thread.start()

    def _wrap_tcpserver(self):
        # class-level __init__ wrapper: records the construction of every per-connection server
        if self.backend == "asyncio":
            import hypercorn.asyncio.tcp_server as m
        else:
            import hypercorn.trio.tcp_server as m
        cls = m.TCPServer
        if getattr(cls, "_hv_wrapped", False):
            cls._hv_harness = self
            return
        orig = cls.__init__

        def __init__(this, *a, **kw):
            h = getattr(cls, "_hv_harness", None)
            if h is not None:
                h.tcp_servers += 1
                h.trace.ev("srv", "tcpserver")
            orig(this, *a, **kw)

        cls.__init__ = __init__
        cls._hv_wrapped = True
        cls._hv_harness = self

    async def _trigger(self):
        import sniffio

        lib = sniffio.current_async_library()
        if lib == "trio":
            import trio

            while not self.stop.is_set():
                await trio.sleep(0.003)
        else:
            import asyncio

            while not self.stop.is_set():
                await asyncio.sleep(0.003)
        self.trace.ev("srv", "trigger-fired")

    def _run(self):
        from hypercorn.utils import wrap_app

        inner = self.apps
        mw = getattr(self, "middleware", None)
        if mw == "proxyfix":
            from hypercorn.middleware import ProxyFixMiddleware

            inner = ProxyFixMiddleware(inner, mode="legacy", trusted_hops=1)
        elif mw == "http_to_https":
            # (requests carry X-Forwarded-Proto-less plain http: the redirect middleware answers them itself unless the scheme is https;
            #  here it sits under ProxyFix-less plain http, so lifespan is what is watched - requests are redirected)
            from hypercorn.middleware import HTTPToHTTPSRedirectMiddleware

            inner = HTTPToHTTPSRedirectMiddleware(inner, host=None)
        app = wrap_app(inner, self.config.wsgi_max_body_size, "asgi")
        try:
            if self.backend == "asyncio":
                import asyncio

                from hypercorn.asyncio.run import worker_serve

                async def main():
                    asyncio.get_event_loop().set_exception_handler(
                        lambda loop, ctx: self.trace.ev("srv", "loop-exception", text=str(ctx.get("message"))[:200]))
                    await worker_serve(app, self.config, sockets=self.sockets, shutdown_trigger=self._trigger)

                asyncio.run(main())
            else:
                import trio

                from hypercorn.trio.run import worker_serve

                for s in self.sockets.insecure_sockets + self.sockets.secure_sockets:
                    s.listen(self.config.backlog)

                async def main():
                    # (no_trigger: serve() as the public API starts it by default, with nothing but its own reasons to stop)
                    await worker_serve(app, self.config, sockets=self.sockets, shutdown_trigger=None if getattr(self, "no_trigger", False) else self._trigger)

                trio.run(main)
            self.result = "returned"
            self.trace.ev("srv", "serve-returned")
        except BaseException as e:
            self.result = ("raised", "".join(traceback.format_exception(e))[-1500:])
            self.trace.ev("srv", "serve-raised", exc=type(e).__name__, text=str(e)[:200])
        finally:
            self.done.set()

    def wait_ready(self, timeout=5.0):
        """Wait until the server logged 'Running on ...' (listeners are accepting) or serve() ended."""
        end = time.monotonic() + timeout
        while time.monotonic() < end and not self.done.is_set():
            if any(e[2] == "log" and "Running on" in str(e[4].get("text", "")) for e in self.trace.events):
                return True
            time.sleep(0.005)
        return False

    def trigger_shutdown(self):
        self.trace.ev("client", "trigger-shutdown")
        self.stop.set()

    def wait_done(self, timeout):
        return self.done.wait(timeout)

    def close(self):
        _accept_hooks.pop(self.port, None)
        self.stop.set()
        self.done.wait(3.0)
        for s in ((self.sockets.insecure_sockets + self.sockets.secure_sockets) if self.sockets else []):
            try:
                s.close()
            except Exception:
                pass

    # ---- client side ----------------------------------------------------------------------------
    def connect(self, timeout=1.0):
        s = socket.socket(socket.AF_INET, socket.SOCK_STREAM)
        s.settimeout(timeout)
        try:
            s.connect((self.host, self.port))
        except OSError as e:
            s.close()
            self.trace.ev("client", "connect-failed", err=type(e).__name__)
            return None
        self.trace.ev("client", "connected")
        return s

    def wait_event(self, pred, timeout):
        """Poll the trace until pred(event) holds for some event; returns it or None."""
        end = time.monotonic() + timeout
        seen = 0
        while time.monotonic() < end:
            evs = self.trace.events
            for e in evs[seen:]:
                if pred(e):
                    return e
            seen = len(evs)
            time.sleep(0.003)
        return None


def recv_until(sock, marker=b"\r\n\r\n", timeout=2.0, limit=1 << 20):
    sock.settimeout(timeout)
    buf = bytearray()
    try:
        while marker not in buf and len(buf) < limit:
            d = sock.recv(65536)
            if not d:
                break
            buf += d
    except (socket.timeout, OSError):
        pass
    return bytes(buf)


def recv_all(sock, timeout=2.0, limit=1 << 22):
    sock.settimeout(timeout)
    buf = bytearray()
    eof = False
    try:
        while len(buf) < limit:
            d = sock.recv(65536)
            if not d:
                eof = True
                break
            buf += d
    except socket.timeout:
        pass
    except OSError:
        eof = True
    return bytes(buf), eof
