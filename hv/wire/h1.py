"""HTTP/1 request serialiser (hand-written so every spelling is under control) and a strict
response parser that knows the request methods."""
from __future__ import annotations


def build_request(method, target, headers, version="1.1", body=b"", framing=None, chunks=None,
                  chunk_ext=b"", trailers=None):
    """headers: list of (name, value[, raw_line_override]) bytes.  framing: None|'cl'|'chunked'.
    Returns the full request bytes.  The framing header is appended by this function."""
    out = bytearray()
    out += method + b" " + target + b" HTTP/" + version.encode() + b"\r\n"
    for h in headers:
        out += h[0] + b": " + h[1] + b"\r\n" if len(h) == 2 else h[2]
    if framing == "cl":
        out += b"content-length: %d\r\n" % len(body)
        out += b"\r\n" + body
    elif framing == "chunked":
        out += b"transfer-encoding: chunked\r\n\r\n"
        off = 0
        for n in (chunks or [len(body)]):
            if n <= 0:
                continue
            piece = body[off:off + n]
            off += n
            if not piece:
                break
            out += b"%x" % len(piece) + chunk_ext + b"\r\n" + piece + b"\r\n"
        if off < len(body):
            piece = body[off:]
            out += b"%x\r\n" % len(piece) + piece + b"\r\n"
        out += b"0\r\n"
        for n, v in (trailers or []):
            out += n + b": " + v + b"\r\n"
        out += b"\r\n"
    else:
        out += b"\r\n"
    return bytes(out)


class Malformed(Exception):
    pass


class Resp:
    __slots__ = ("version", "status", "reason", "headers", "body", "complete", "framing",
                 "start", "end", "informational", "truncated_reason")

    def __init__(self):
        self.version = None
        self.status = None
        self.reason = b""
        self.headers = []
        self.body = b""
        self.complete = False
        self.framing = None
        self.start = 0
        self.end = None
        self.informational = []
        self.truncated_reason = None

    def header(self, name):
        return [v for n, v in self.headers if n.lower() == name]

    def as_dict(self):
        return {"status": self.status, "headers": self.headers, "body": self.body,
                "complete": self.complete, "framing": self.framing, "info": self.informational}


_TCHAR = set(b"!#$%&'*+-.^_`|~0123456789abcdefghijklmnopqrstuvwxyzABCDEFGHIJKLMNOPQRSTUVWXYZ")


def _parse_head(data, pos):
    """Parse a status line + fields starting at pos.  Returns (resp_partial, newpos) or None when
    the head is incomplete.  Raises Malformed."""
    end = data.find(b"\r\n\r\n", pos)
    if end < 0:
        # an incomplete head must still look like a head prefix
        return None
    head = data[pos:end]
    lines = head.split(b"\r\n")
    sl = lines[0]
    if not sl.startswith(b"HTTP/1."):
        raise Malformed("bad status line %r" % sl[:60])
    parts = sl.split(b" ", 2)
    if len(parts) < 2 or len(parts[0]) != 8 or parts[0][7:8] not in (b"0", b"1"):
        raise Malformed("bad status line %r" % sl[:60])
    if len(parts[1]) != 3 or not parts[1].isdigit():
        raise Malformed("bad status code %r" % sl[:60])
    reason = parts[2] if len(parts) > 2 else b""
    for c in reason:
        if c < 0x20 and c != 0x09 or c == 0x7F:
            raise Malformed("control byte in reason phrase")
    headers = []
    for ln in lines[1:]:
        if b"\r" in ln or b"\n" in ln or b"\x00" in ln:
            raise Malformed("bare CR/LF/NUL in field line %r" % ln[:80])
        name, sep, value = ln.partition(b":")
        if not sep or not name or any(c not in _TCHAR for c in name):
            raise Malformed("bad field line %r" % ln[:80])
        headers.append((name, value.strip(b" \t")))
    return parts[0][5:].decode(), int(parts[1]), reason, headers, end + 4


def parse_responses(data, requests, closed):
    """data: all server bytes.  requests: list of (method:str, version:str) in order sent.
    closed: whether the server closed/EOF'd its side (needed for close-delimited bodies).
    Returns (responses, leftover_offset).  Raises Malformed on grammar violations."""
    out = []
    pos = 0
    ri = 0
    while pos < len(data):
        r = Resp()
        r.start = pos
        # informational responses
        while True:
            h = _parse_head(data, pos)
            if h is None:
                # incomplete head: must be a prefix of something head-like
                frag = data[pos:pos + 7]
                if not b"HTTP/1.".startswith(frag[:7]) and not frag.startswith(b"HTTP/1."):
                    raise Malformed("garbage after response: %r" % data[pos:pos + 40])
                r.truncated_reason = "head"
                out.append(r)
                return out, pos
            version, status, reason, headers, pos2 = h
            if 100 <= status < 200 and status != 101:
                r.informational.append((status, headers))
                pos = pos2
                if pos >= len(data):
                    r.truncated_reason = "after-informational"
                    out.append(r)
                    return out, pos
                continue
            break
        r.version, r.status, r.reason, r.headers = version, status, reason, headers
        pos = pos2
        method = requests[ri][0] if ri < len(requests) else "GET"
        ri += 1
        te = [v.lower() for v in r.header(b"transfer-encoding")]
        cl = r.header(b"content-length")
        if status == 101:
            # protocol switch: everything after belongs to the new protocol
            r.framing = "upgrade"
            r.complete = True
            r.end = pos
            r.body = b""
            out.append(r)
            return out, pos
        if method == "HEAD" or status in (204, 304) or 100 <= status < 200:
            r.framing = "none"
            r.complete = True
            r.end = pos
        elif te and te[-1].split(b",")[-1].strip() == b"chunked":
            r.framing = "chunked"
            body = bytearray()
            while True:
                eol = data.find(b"\r\n", pos)
                if eol < 0:
                    r.truncated_reason = "chunk-size"
                    break
                size_s = data[pos:eol].split(b";")[0].strip()
                try:
                    size = int(size_s, 16)
                except ValueError:
                    raise Malformed("bad chunk size %r" % data[pos:eol][:40])
                if size == 0:
                    # optional trailer fields, then a blank line
                    if data[eol + 2:eol + 4] == b"\r\n":
                        pos = eol + 4
                        r.complete = True
                        r.end = pos
                    else:
                        tend = data.find(b"\r\n\r\n", eol + 2)
                        if tend >= 0:
                            for ln in data[eol + 2:tend].split(b"\r\n"):
                                if b":" not in ln or b"\x00" in ln or b"\r" in ln or b"\n" in ln:
                                    raise Malformed("bad trailer line %r" % ln[:60])
                            pos = tend + 4
                            r.complete = True
                            r.end = pos
                        else:
                            r.truncated_reason = "trailers"
                    break
                if eol + 2 + size + 2 > len(data):
                    body += data[eol + 2:eol + 2 + size]
                    r.truncated_reason = "chunk-data"
                    pos = len(data)
                    break
                body += data[eol + 2:eol + 2 + size]
                if data[eol + 2 + size:eol + 4 + size] != b"\r\n":
                    raise Malformed("chunk not terminated by CRLF")
                pos = eol + 4 + size
            r.body = bytes(body)
        elif cl:
            vals = set(v.strip() for c in cl for v in c.split(b","))
            if len(vals) != 1 or not next(iter(vals)).isdigit():
                raise Malformed("bad content-length %r" % cl)
            n = int(next(iter(vals)))
            r.framing = "cl"
            r.body = data[pos:pos + n]
            if len(r.body) == n:
                r.complete = True
                pos += n
                r.end = pos
            else:
                r.truncated_reason = "content-length short %d/%d" % (len(r.body), n)
                pos = len(data)
        else:
            r.framing = "close"
            r.body = data[pos:]
            pos = len(data)
            r.complete = bool(closed)
            r.end = pos
            if not closed:
                r.truncated_reason = "close-delimited, still open"
        out.append(r)
        if not r.complete:
            return out, pos
    return out, pos
