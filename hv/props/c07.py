"""C07 — idle connections time out, busy ones do not, dead ones are released."""
from __future__ import annotations

import time

from ..wire import h1, ws
from ..wire.h2raw import FrameBuilder, client_preface

ID = "C07"
LEVEL = "fault_enumeration"
BUDGET = {"quick": 40, "thorough": 600}
TECHNIQUE = ("virtual-time closed world + idle-timer reference model driven by wire-level facts (head-complete and "
             "response-end instants), exact deadline comparison; release oracle = handler result, task census and "
             "transport state at permanent quiescence after peer loss injected at every quiescent point")
LEVEL_TEXT = ("Session histories (requests with application delays, pipelined pairs, partial heads, server-generated error "
              "responses, HTTP/2 prefaces/streams/PINGs, WebSocket sessions) with pauses of 0.5/1/1+eps/3 x keep_alive_timeout "
              "inserted at every position, for several timeout values, plus EOF/reset/write-failure/terminate at every "
              "quiescent point; verdicts are on exact virtual instants, on both workers.")
LEVEL_NOTE = "Trusted: virtual clocks (VirtualLoop / trio MockClock), in-memory transport; time passes only in client pauses and application sleeps."
RULE = ("history = 1-5 segments from {request(app delay), pipelined pair, partial head, completion of partial head, "
        "invalid-server-name 404, invalid-websocket 400, malformed, websocket session, h2 preface, h2 stream, h2 ping} "
        "x pause durations x timeout values x peer loss/terminate positions; non-trivial = the idle model made at "
        "least one deadline or busy decision; distinct = distinct case hash")
ASSUMPTIONS = ["partial head bytes do not restart the timer; HTTP/2 PING/SETTINGS are not activity (statement)",
               "closing earlier than the deadline is not judged here (C06 judges refused reuse)"]
MIN_DECISIVE = {"deadline": 50, "busy": 50, "release": 20, "real-census": 2}
N_CASES = {"quick": 8000, "thorough": 150000}
EPS = 1e-6


def _req(tag, host=b"h.example", extra=b""):
    return b"GET /t%d HTTP/1.1\r\nHost: %s\r\n%s\r\n" % (tag, host, extra)


def _app_delay(d, tag):
    sc = [["recv_until_end"]]
    if d:
        sc.append(["sleep", d])
    sc.append(["respond", 200, [(b"content-length", b"2")], b"ok"])
    return sc


def _gen_h1(rng, n, tier):
    T = rng.choice([0.01, 1, 5, 75])
    config = {"keep_alive_timeout": T, "server_names": ["h.example", "ws.example"]}
    t = 0.0
    client, marks, by_tag = [], [], {}
    nseg = rng.choice([1, 2, 3, 4, 5])
    partial_rest = None
    ws_open = False
    ended = False
    for i in range(nseg):
        if ended:
            break
        kind = rng.choice(["req", "req", "req", "pipe2", "partial", "sn404", "ws400", "malformed", "ws", "req_slow"])
        if partial_rest is not None:
            kind = rng.choice(["rest", "rest", "pause_only"])
        tag = n * 10 + i
        if kind in ("req", "req_slow"):
            d = 0 if kind == "req" else rng.choice([0.5 * T, 2 * T, 3.5 * T])
            by_tag[str(tag)] = _app_delay(d, tag)
            client.append(["feed", _req(tag)])
            marks.append({"kind": "req", "t": t, "delay": d, "tag": tag})
        elif kind == "pipe2":
            d1, d2 = rng.choice([0, 0.5 * T, 2 * T]), rng.choice([0, 2 * T])
            by_tag[str(tag)] = _app_delay(d1, tag)
            by_tag[str(tag + 5)] = _app_delay(d2, tag + 5)
            client.append(["feed", _req(tag) + _req(tag + 5)])
            marks.append({"kind": "req", "t": t, "delay": d1, "tag": tag})
            marks.append({"kind": "req", "t": None, "delay": d2, "tag": tag + 5, "after_prev": True})
        elif kind == "partial":
            data = _req(tag)
            k = rng.randrange(1, len(data) - 1)
            by_tag[str(tag)] = _app_delay(0, tag)
            client.append(["feed", data[:k]])
            partial_rest = (data[k:], tag)
        elif kind == "rest":
            data, ptag = partial_rest
            partial_rest = None
            client.append(["feed", data])
            marks.append({"kind": "req", "t": t, "delay": 0, "tag": ptag})
        elif kind == "pause_only":
            pass
        elif kind == "sn404":
            client.append(["feed", _req(tag, host=b"other.example")])
            marks.append({"kind": "error", "t": t, "status": 404, "tag": tag})
        elif kind == "ws400":
            client.append(["feed", ws.handshake(path=b"/t%d" % tag, version=b"12")])
            marks.append({"kind": "error", "t": t, "status": 400, "tag": tag})
        elif kind == "malformed":
            client.append(["feed", rng.choice([b"GET / HTTP/1.1\r\nbad header\r\n\r\n", b"\x00\x01\x02\r\n\r\n", b"GET /\r\n\r\n"])])
            marks.append({"kind": "malformed", "t": t})
            ended = True
        elif kind == "ws":
            client.append(["feed", ws.handshake(path=b"/t%d" % tag)])
            marks.append({"kind": "ws", "t": t, "tag": tag})
            ws_open = True
            if rng.random() < 0.4:
                # the server keeps the WebSocket alive with pings of its own: a task that must not outlive the connection either
                config["websocket_ping_interval"] = rng.choice([0.7 * T, 10 * T, 1000.0])
            # long silence on an open websocket, then maybe a client close
            d = rng.choice([0.5 * T, 3 * T])
            client.append(["advance", d])
            t += d
            if rng.random() < 0.5:
                client.append(["feed", ws.close_frame(1000)])
                marks.append({"kind": "ws_close", "t": t})
            ended = True
            break
        d = rng.choice([0.5, 0.5, 1.0, 1.0 + 1e-3, 3.0]) * T
        client.append(["advance", d])
        t += d
    return T, config, client, marks, by_tag, t


def _gen_h2(rng, n, tier):
    T = rng.choice([0.01, 1, 5, 75])
    config = {"keep_alive_timeout": T}
    fb = FrameBuilder()
    t = 0.0
    client, marks, by_tag = [], [], {}
    first = rng.choice(["preface", "preface", "late_preface", "h2c", "h2c_refused"])
    # responses are 2 bytes: a client that never sends WINDOW_UPDATE is just as legal, and says nothing after its last request
    rspec = {"kind": "h2", "credit": rng.choice(["auto", "none"])}
    if first == "late_preface":
        d = rng.choice([0.5, 1.0 + 1e-3]) * T
        client.append(["advance", d])
        t += d
    if first == "h2c_refused":
        # the upgraded request itself is answered by the server (Host not in server_names -> 404 on stream 1)
        config["server_names"] = ["h.example"]
        rspec["skip_h1_101"] = True
        client.append(["feed_nosettle", b"GET /t%d HTTP/1.1\r\nHost: other.example\r\nConnection: Upgrade, HTTP2-Settings\r\nUpgrade: h2c\r\nHTTP2-Settings: \r\n\r\n" % (n * 10)])
        client.append(["quiesce"])
        client.append(["feed", client_preface(fb, {})])
        marks.append({"kind": "stream", "t": t, "sid": 1, "delay": 0, "error": True})
        sid = 3
    elif first == "h2c":
        tag = n * 10
        by_tag[str(tag)] = _app_delay(rng.choice([0, 2 * T]), tag)
        rspec["skip_h1_101"] = True
        client.append(["feed_nosettle", b"GET /t%d HTTP/1.1\r\nHost: h.example\r\nConnection: Upgrade, HTTP2-Settings\r\nUpgrade: h2c\r\nHTTP2-Settings: \r\n\r\n" % tag])
        client.append(["quiesce"])
        client.append(["feed", client_preface(fb, {})])
        marks.append({"kind": "stream", "t": t, "sid": 1, "delay": by_tag[str(tag)][1][1] if len(by_tag[str(tag)]) > 2 else 0})
        sid = 3
    else:
        client.append(["feed", client_preface(fb, {})])
        marks.append({"kind": "preface", "t": t})
        sid = 1
    if first in ("preface", "late_preface") and rng.random() < 0.15:
        # a WebSocket the application has closed and whose close the client never answers: the stream lingers in the server's tables.
        # Whether such a half-closed WebSocket still counts as "open" is not judged (no deadline clause for these histories); what is:
        # requests that come later are requests in progress like any other, whatever state the tables are in
        tag = n * 10 + sid
        by_tag[str(tag)] = [["recv"], ["send", {"type": "websocket.accept"}], ["send", {"type": "websocket.close", "code": 1000}], ["recv_until_disconnect"]]
        client.append(["feed", fb.headers(sid, [(b":method", b"CONNECT"), (b":protocol", b"websocket"), (b":scheme", b"http"), (b":path", b"/t%d" % tag),
                                                (b":authority", b"h.example"), (b"sec-websocket-version", b"13")], end_stream=False)])
        marks.append({"kind": "ws_zombie", "t": t, "sid": sid})
        sid += 2
    for i in range(rng.choice([0, 1, 2, 3])):
        d = rng.choice([0.5, 1.0, 1.0 + 1e-3, 3.0]) * T
        client.append(["advance", d])
        t += d
        kind = rng.choice(["stream", "stream", "ping", "settings", "two_streams", "sn404", "stream_rst"])
        if kind == "sn404" and first in ("h2c", "h2c_refused"):
            kind = "stream"
        if kind == "stream_rst":
            # a request the client gives up on: from its RST_STREAM on the stream no longer keeps the connection busy
            tag = n * 10 + sid
            # (the abandoned application finishes later: sometimes inside the idle period that its reset started)
            delay = rng.choice([1.2 * T, 1.2 * T, 4 * T, 6 * T])
            by_tag[str(tag)] = _app_delay(delay, tag)
            client.append(["feed", fb.headers(sid, [(b":method", b"GET"), (b":scheme", b"http"), (b":path", b"/t%d" % tag),
                                                    (b":authority", b"h.example")], end_stream=True)])
            d2 = rng.choice([0.25, 0.5]) * T
            client.append(["advance", d2])
            t_rst = t + d2
            client.append(["feed", fb.rst(sid, 8)])
            marks.append({"kind": "stream", "t": t, "sid": sid, "delay": delay, "rst_at": t_rst})
            t = t_rst
            sid += 2
            continue
        if kind in ("stream", "two_streams"):
            for _ in range(2 if kind == "two_streams" else 1):
                tag = n * 10 + sid
                delay = rng.choice([0, 0.5 * T, 2 * T])
                by_tag[str(tag)] = _app_delay(delay, tag)
                client.append(["feed", fb.headers(sid, [(b":method", b"GET"), (b":scheme", b"http"), (b":path", b"/t%d" % tag),
                                                        (b":authority", b"h.example")], end_stream=True)])
                marks.append({"kind": "stream", "t": t, "sid": sid, "delay": delay})
                sid += 2
        elif kind == "sn404":
            # request for a host that is not in server_names: the server answers 404 by itself
            config["server_names"] = ["h.example"]
            client.append(["feed", fb.headers(sid, [(b":method", b"GET"), (b":scheme", b"http"), (b":path", b"/t%d" % (n * 10 + sid)),
                                                    (b":authority", b"other.example")], end_stream=True)])
            marks.append({"kind": "stream", "t": t, "sid": sid, "delay": 0, "error": True})
            sid += 2
        elif kind == "ping":
            client.append(["feed", fb.ping(b"12345678")])
        else:
            client.append(["feed", fb.settings({3: 50})])
    d = rng.choice([0.5, 1.0 + 1e-3, 3.0]) * T
    client.append(["advance", d])
    t += d
    return T, config, client, marks, by_tag, t, rspec


def _gen_parked(rng, tier):
    """Pipelined requests in one read; a write of the first response fails; the first application then finishes in every way an
    application can (completes, returns with the response unfinished, raises, only after a while)."""
    for i in range(160 if tier == "quick" else 4000):
        T = rng.choice([1, 5])
        base = 9000000 + i * 10
        nreq = rng.choice([2, 3])
        ending = rng.choice(["complete", "unfinished", "unfinished", "raise", "unfinished_later"])
        sc = [["recv_until_end"], ["send", {"type": "http.response.start", "status": 200, "headers": []}],
              ["send", {"type": "http.response.body", "body": b"part1", "more_body": True}]]
        if ending == "complete":
            sc.append(["send", {"type": "http.response.body", "body": b"part2", "more_body": False}])
        elif ending == "raise":
            sc.append(["raise", "Exception"])
        elif ending == "unfinished_later":
            sc.append(["sleep", 0.5 * T])
        by_tag = {str(base): sc}
        for k in range(1, nreq):
            by_tag[str(base + k)] = _app_delay(0, base + k)
        blob = b"".join(_req(base + k) for k in range(nreq))
        client = [["mark", "fault"], ["fail_write_at", rng.choice([1, 2, 3])], ["feed", blob], ["settle"], ["advance", 3 * T], ["settle"]]
        yield {"family": "h1.parked.fail_write." + ending, "backends": ["asyncio", "trio"],
               "config": {"keep_alive_timeout": T, "server_names": ["h.example"]}, "conn": {},
               "apps": {"default": _app_delay(0, 0), "by_tag": by_tag}, "client": client,
               "truth": {"T": T, "marks": [], "fault": "fail_write", "h2": False, "parked": ending},
               "sched": {"seed": rng.randrange(1 << 30)}, "horizon": 10 * T + 50}


def _real_census(case, tally):
    """Real serve() on loopback, a population of clients that die in every way a client can (reset at any phase, half-close and vanish, go
    silent, leave mid-handshake); monitors: the process's own descriptor table (/proc/self/fd) and the number of per-connection handlers
    constructed vs. finished.  Once every client socket is gone and the keep-alive timeout (0.4 s here) has had its turn, the descriptor
    count has to come back to where it was before the first client: a connection the server still holds then is never released.
    Decided on the census after the trace has been still for 4 s, never on how quickly it got there."""
    import os
    import random as _random
    import socket as _socket
    import struct as _struct

    from ..world.realnet import ServeHarness

    findings = []
    be, n = case["backend"], case["count"]
    rnd = _random.Random(case["tag"])
    apps = {"default": [["recv_until_end"], ["respond", 200, [(b"content-length", b"2")], b"ok"]],
            "websocket": [["recv"], ["send", {"type": "websocket.accept"}], ["recv_until_disconnect"]],
            "by_path": {"/slow": [["recv_until_end"], ["sleep", 0.3], ["respond", 200, [(b"content-length", b"4")], b"slow"]],
                        "/big": [["recv_until_end"], ["send", {"type": "http.response.start", "status": 200, "headers": []}]] +
                                [["send", {"type": "http.response.body", "body": b"z" * 65536, "more_body": True}]] * 64 +
                                [["send", {"type": "http.response.body", "body": b"", "more_body": False}]]}}
    h = ServeHarness(be, {"keep_alive_timeout": 0.4, "graceful_timeout": 0.5, "read_timeout": None}, apps)

    def fds():
        return len(os.listdir("/proc/self/fd"))

    kinds_used = []
    try:
        h.start()
        h.wait_ready()
        warm = h.connect()
        warm.sendall(b"GET /warm HTTP/1.1\r\nHost: h\r\nConnection: close\r\n\r\n")
        try:
            warm.settimeout(2.0)
            while warm.recv(65536):
                pass
        except OSError:
            pass
        warm.close()
        time.sleep(0.3)
        base = fds()
        socks = []
        for i in range(n):
            kind = rnd.choice(["reset_idle", "reset_mid_head", "reset_mid_body", "reset_during_response", "halfclose_vanish", "silent", "ws_then_reset",
                               "h2_preface_then_reset", "h2_open_stream_then_reset", "big_unread_then_reset", "garbage", "served_keepalive_then_reset"])
            kinds_used.append(kind)
            c = h.connect()
            if c is None:
                continue
            try:
                if kind == "reset_mid_head":
                    c.sendall(b"GET /x HTTP/1.1\r\nHo")
                elif kind == "reset_mid_body":
                    c.sendall(b"POST /x HTTP/1.1\r\nHost: h\r\nContent-Length: 100\r\n\r\nabc")
                elif kind == "reset_during_response":
                    c.sendall(b"GET /slow HTTP/1.1\r\nHost: h\r\n\r\n")
                elif kind == "halfclose_vanish":
                    c.sendall(b"GET /slow HTTP/1.1\r\nHost: h\r\n\r\n")
                    c.shutdown(_socket.SHUT_WR)
                elif kind == "ws_then_reset":
                    c.sendall(ws.handshake(path=b"/ws"))
                elif kind == "h2_preface_then_reset":
                    c.sendall(client_preface(FrameBuilder(), {}))
                elif kind == "h2_open_stream_then_reset":
                    fb = FrameBuilder()
                    c.sendall(client_preface(fb, {}) + fb.headers(1, [(b":method", b"POST"), (b":scheme", b"http"), (b":path", b"/slow"), (b":authority", b"h")],
                                                                   end_stream=False))
                elif kind == "big_unread_then_reset":
                    c.setsockopt(_socket.SOL_SOCKET, _socket.SO_RCVBUF, 4096)
                    c.sendall(b"GET /big HTTP/1.1\r\nHost: h\r\n\r\n")
                elif kind == "garbage":
                    c.sendall(b"\x16\x03\x01\x02\x00\x01\x00\x01\xfc\x03\x03" + bytes(rnd.randrange(256) for _ in range(40)))
                elif kind == "served_keepalive_then_reset":
                    c.sendall(b"GET /k HTTP/1.1\r\nHost: h\r\n\r\n")
            except OSError:
                pass
            socks.append((kind, c))
            if rnd.random() < 0.3:
                time.sleep(0.01)
        time.sleep(0.15)
        for kind, c in socks:
            try:
                if kind in ("silent", "halfclose_vanish") and rnd.random() < 0.5:
                    c.close()  # an orderly FIN
                else:
                    c.setsockopt(_socket.SOL_SOCKET, _socket.SO_LINGER, _struct.pack("ii", 1, 0))
                    c.close()  # RST
            except OSError:
                pass
        # wait for the census to come to rest
        last, since = None, time.monotonic()
        end = time.monotonic() + 40.0
        now = fds()
        while time.monotonic() < end:
            now = fds()
            if now <= base:
                break
            if now != last:
                last, since = now, time.monotonic()
            elif time.monotonic() - since > 4.0:
                break
            time.sleep(0.05)
        tally.clause("real-census")
        tally.events["real.connections-made"] += len(socks)
        tally.events["real.fds-over-baseline-at-rest"] += max(0, now - base)
        if now > base:
            findings.append({"clause": "release", "sig": "C07.real/descriptors-not-released/%s" % be, "backend": be,
                             "detail": "%d connections (%s) have all been reset or closed by their clients, the keep-alive timeout is 0.4 s, and after 4 s "
                                       "without any change the server process still holds %d descriptors more than before the first of them" % (
                                           len(socks), ", ".join(sorted(set(kinds_used))), now - base)})
    finally:
        h.trigger_shutdown()
        h.wait_done(5.0)
        h.close()
    return findings, [None]


def run_one(case, tally):
    if case.get("tierb"):
        return _real_census(case, tally)
    import sys

    from ..runner import default_run_one

    return default_run_one(sys.modules[__name__], case, tally)


def _gen_nonreading(rng, tier):
    """A keep-alive client that stops reading: the response is complete as far as the application is concerned, part of it is still in the
    server's write buffer.  The idle timeout applies all the same, and a close the server has decided on is not held up for ever by a
    client that takes nothing: the transport is closed (and the handler gone) within a few keep_alive_timeouts."""
    for i in range(20 if tier == "quick" else 400):
        T = rng.choice([1, 5])
        tag = 4400000 + i
        size = rng.choice([10, 3000, 40000])  # (fits the write buffer: the application is done, the connection idle)
        by_tag = {str(tag): [["recv_until_end"], ["respond", 200, [(b"x-tag", b"%d" % tag)], b"z" * size]]}
        how = rng.choice(["pause_before_request", "pause_after_response", "takes_a_little_then_stalls"])
        req = _req(tag)
        if how == "pause_before_request":
            client = [["pause"], ["feed", req], ["settle"], ["advance", 6 * T], ["settle"]]
        elif how == "takes_a_little_then_stalls":
            # ... takes a few bytes while the server is waiting for it to take the rest (the close began at T), and then nothing more
            size = max(size, 3000)
            by_tag = {str(tag): [["recv_until_end"], ["respond", 200, [(b"x-tag", b"%d" % tag)], b"z" * size]]}
            client = [["pause"], ["feed", req], ["settle"], ["advance", 1.5 * T], ["take", rng.choice([1, 100])], ["advance", 8 * T], ["settle"]]
        else:
            client = [["feed", req], ["settle"], ["pause"], ["feed", _req(tag)], ["settle"], ["advance", 6 * T], ["settle"]]
        yield {"family": "nonreading." + how, "backends": ["asyncio", "trio"] if how != "takes_a_little_then_stalls" else ["asyncio"], "config": {"keep_alive_timeout": T, "server_names": ["h.example", "ws.example"]},
               "conn": {"write_buffer": 65536},
               "apps": {"default": _app_delay(0, 0), "by_tag": by_tag}, "client": client,
               "truth": {"T": T, "marks": [], "fault": None, "h2": False, "nonreading": True}, "sched": {"seed": rng.randrange(1 << 30)}, "horizon": 400.0}


def _gen_slow_write(rng, tier):
    """A client that takes its response slowly: the write of the response (its last DATA frame, its last chunk) is held up for several
    keep_alive_timeouts.  The request is in progress until its response has *ended*: the idle timer has no business with the connection
    before that, and when the client takes the bytes the response is complete."""
    for i in range(16 if tier == "quick" else 300):
        T = rng.choice([1, 5])
        tag = 4500000 + i
        size = rng.choice([3000, 20000])
        by_tag = {str(tag): [["recv_until_end"], ["respond", 200, [(b"x-tag", b"%d" % tag)], b"y" * size]]}
        h2 = rng.random() < 0.6
        if h2:
            fb = FrameBuilder()
            blob = client_preface(fb, {}) + fb.headers(1, [(b":method", b"GET"), (b":scheme", b"http"), (b":path", b"/t%d" % tag), (b":authority", b"h.example")], end_stream=True)
            rspec = {"kind": "h2", "credit": "auto"}
        else:
            blob, rspec = _req(tag), None
        case = {"family": "slow-write." + ("h2" if h2 else "h1"), "backends": ["asyncio", "trio"], "config": {"keep_alive_timeout": T},
                "conn": {"write_buffer": rng.choice([64, 512])},
                "apps": {"default": _app_delay(0, 0), "by_tag": by_tag},
                "client": [["pause"], ["feed", blob], ["settle"], ["advance", rng.choice([2.5, 6]) * T], ["settle"], ["mark", "resume"], ["resume"], ["settle"]],
                "truth": {"T": T, "marks": [], "fault": None, "h2": h2, "slow_write": True, "size": size, "tag": tag},
                "sched": {"seed": rng.randrange(1 << 30)}, "horizon": 400.0}
        if rspec:
            case["reactor"] = rspec
        yield case


def _check_slow_write(case, obs, tally):
    out = []
    t = case["truth"]
    tally.clause("busy")
    if obs.handler == "exception":
        return [{"clause": "busy", "sig": "C07.handler-crashed/slow-write", "detail": (obs.handler_exc or "")[-400:]}]
    if t["h2"]:
        s = obs.reactor.streams.get(1)
        complete = s is not None and s.status == 200 and len(s.data) == t["size"] and s.ended == 1
        got = None if s is None else (s.status, len(s.data), s.ended, s.rst)
    else:
        try:
            resps, _ = h1.parse_responses(obs.outbytes, [("GET", "1.1")], obs.closed_at is not None)
        except h1.Malformed as e:
            resps = []
        complete = bool(resps) and resps[0].complete and len(resps[0].body) == t["size"]
        got = [(r.status, len(r.body), r.complete) for r in resps]
    t_resume = obs.marks.get("resume", {}).get("t")
    if not complete or (obs.closed_at is not None and t_resume is not None and obs.closed_at < t_resume - EPS):
        out.append({"clause": "busy", "sig": "C07.closed-while-busy/%s/slow-write" % ("h2" if t["h2"] else "h1"),
                    "detail": "the client took nothing for several keep_alive_timeouts (%s s) while its response was being written, then read on: closed_at %r "
                              "(client resumed at %r), response as received %r (expected %d body bytes and its end)" % (t["T"], obs.closed_at, t_resume, got, t["size"])})
    return out


def _gen_failed_then_idle(rng, tier):
    """HTTP/2: an application fails with part of its body still buffered while the client is (for a moment) not reading - the RST_STREAM
    has to wait to be written.  The client reads on and then says nothing more: the stream is over, the connection is idle from there on
    and is closed keep_alive_timeout later."""
    for i in range(12 if tier == "quick" else 200):
        T = rng.choice([1, 5])
        tag = 4600000 + i
        fb = FrameBuilder()
        kind = rng.choice(["raise", "return"])
        by_tag = {str(tag): [["recv_until_end"], ["wait", "go"], ["send", {"type": "http.response.start", "status": 200, "headers": []}],
                             ["send", {"type": "http.response.body", "body": b"z" * rng.choice([10, 3000]), "more_body": True}],
                             ["raise", "Exception"] if kind == "raise" else ["return"]]}
        blob = client_preface(fb, {}) + fb.headers(1, [(b":method", b"GET"), (b":scheme", b"http"), (b":path", b"/t%d" % tag), (b":authority", b"h.example")], end_stream=True)
        paused = rng.random() < 0.7
        client = [["feed", blob], ["settle"]] + ([["pause"]] if paused else []) + [["trigger", "go"], ["settle"]] + ([["mark", "resume"], ["resume"], ["settle"]] if paused else [["mark", "resume"]]) + \
                 [["advance", 3.5 * T], ["settle"]]
        yield {"family": "h2.failed-then-idle." + kind, "backends": ["asyncio", "trio"], "config": {"keep_alive_timeout": T},
               "conn": {"write_buffer": rng.choice([16, 64])} if paused else {},
               "apps": {"default": _app_delay(0, 0), "by_tag": by_tag}, "client": client, "reactor": {"kind": "h2", "credit": "auto"},
               "truth": {"T": T, "marks": [], "fault": None, "h2": True, "failed_then_idle": True, "tag": tag},
               "sched": {"seed": rng.randrange(1 << 30)}, "horizon": 400.0}


def _check_failed_then_idle(case, obs, tally):
    t = case["truth"]
    tally.clause("deadline")
    if obs.handler == "exception":
        tally.inconclusive["handler-crashed(C04)"] += 1
        return []
    t_resume = obs.marks.get("resume", {}).get("t")
    s = obs.reactor.streams.get(1)
    if s is None or (s.rst is None and not s.ended) or t_resume is None:
        tally.inconclusive["failed-stream-not-terminated(C05)"] += 1
        return []
    # the last thing that happened on the connection: the client read on / the stream was reset
    last = max(t_resume, s.end_t or 0.0)
    if obs.closed_at is None or obs.closed_at > last + t["T"] + EPS:
        return [{"clause": "deadline", "sig": "C07.idle-not-closed/h2/after-failed-stream",
                 "detail": "the only stream of the connection was reset at %r (its application failed; the client read on at %r) and nothing followed: "
                           "closed_at %r, expected by %r (keep_alive_timeout %s)" % (s.end_t, t_resume, obs.closed_at, last + t["T"], t["T"])}]
    return []


def gen(rng, tier):
    yield from _gen_nonreading(rng, tier)
    yield from _gen_failed_then_idle(rng, tier)
    yield from _gen_slow_write(rng, tier)
    for rep in range(2 if tier == "quick" else 10):
        for be in ("asyncio", "trio"):
            yield {"family": "real-census", "tierb": True, "backend": be, "count": 60 if tier == "quick" else 200, "tag": 660000 + rng.randrange(100000), "rep": rep}
    yield from _gen_parked(rng, tier)
    for i in range(N_CASES[tier]):
        h2 = rng.random() < 0.35
        if h2:
            T, config, client, marks, by_tag, t_end, rspec = _gen_h2(rng, i, tier)
        else:
            T, config, client, marks, by_tag, t_end = _gen_h1(rng, i, tier)
            rspec = None
        # fault / terminate injection at a random quiescent point (position in the client script)
        fault = rng.choice([None, None, "eof", "reset", "fail_write", "terminate"])
        fpos = None
        if fault:
            fpos = rng.randint(0, len(client))
            # (a write fails with whatever errno the network has for it: a reset, but also a time-out or "no route to host")
            step = {"eof": ["eof"], "reset": ["reset"], "fail_write": ["fail_write_at", 1, rng.choice([None, None, "timeout", "unreach"])], "terminate": ["terminate"]}[fault]
            client = client[:fpos] + [["mark", "fault"], step] + client[fpos:]
        case = {
            "family": ("h2" if h2 else "h1") + (".%s" % fault if fault else ""), "backends": ["asyncio", "trio"],
            "config": config, "conn": {},
            "apps": {"default": _app_delay(0, 0), "by_tag": by_tag,
                     "websocket": [["recv"], ["send", {"type": "websocket.accept"}], ["recv_until_disconnect"]]},
            "client": client, "truth": {"T": T, "marks": marks, "fault": fault, "h2": h2},
            "sched": {"seed": rng.randrange(1 << 30)}, "horizon": 10 * max(T, 1) + 400,
        }
        if rspec:
            case["reactor"] = rspec
        yield case


def nontrivial(case, obs):
    return True  # (obs is None for the real-socket census)


def _resp_end_times_h1(obs):
    """(time each complete HTTP/1 response finished on the wire, status) in order."""
    data = obs.outbytes
    try:
        resps, _ = h1.parse_responses(data, [("GET", "1.1")] * 50, obs.closed_at is not None)
    except h1.Malformed:
        return None
    ends = []
    cum = []
    off = 0
    for t, d in obs.out:
        off += len(d)
        cum.append((off, t))
    for r in resps:
        if not r.complete or r.end is None:
            break
        tt = next((t for o, t in cum if o >= r.end), None)
        ends.append((tt, r.status))
        if r.status == 101:
            break
    return ends


def _check_nonreading(case, obs, tally):
    out = []
    T = case["truth"]["T"]
    tally.clause("release")
    if obs.handler == "exception":
        out.append({"clause": "release", "sig": "C07.handler-crashed/nonreading", "detail": (obs.handler_exc or "")[-400:]})
    elif obs.handler != "ok" or obs.closed_at is None:
        out.append({"clause": "release", "sig": "C07.not-released/h1/client-not-reading", "detail":
                    "the client stopped reading and went silent; %d keep_alive_timeouts (%s s) later the connection handler is %s, the transport %s, "
                    "tasks left %r" % (6, T, obs.handler, "closed" if obs.closed_at is not None else "still open", obs.tasks_left)})
    return out


def check(case, obs, tally):
    if case["truth"].get("nonreading"):
        return _check_nonreading(case, obs, tally)
    if case["truth"].get("slow_write"):
        return _check_slow_write(case, obs, tally)
    if case["truth"].get("failed_then_idle"):
        return _check_failed_then_idle(case, obs, tally)
    out = []
    tr = case["truth"]
    T = tr["T"]
    if obs.handler == "exception" and tr.get("fault") == "fail_write":
        # "once the peer is gone (... a failed write) ... the connection's handler finishes": finishing is not crashing
        tally.clause("release")
        return [{"clause": "release", "sig": "C07.handler-crashed/after-failed-write/%s" % ((obs.handler_exc or "?").strip().splitlines()[-1].split(":")[0][:40]),
                 "detail": "a write to the client failed and the connection handler raised: %s" % (obs.handler_exc or "")[-600:]}]
    if obs.handler == "exception":
        tally.inconclusive["handler-crashed(C04)"] += 1
        return out
    closed_at = obs.closed_at
    fault = tr["fault"]
    ft = obs.marks.get("fault", {}).get("t") if fault else None
    lost = fault in ("eof", "reset")
    if fault == "fail_write":
        we = [e for e in obs.trace.events if e[2] == "net" and e[3] == "write_error"]
        lost = bool(we)
        ft = we[0][1] if we else None
    # ---- build busy intervals from wire facts ------------------------------------------------
    busy = []  # (start, end or None, expected_end)
    idle_starts = [0.0]
    proto = "h2" if tr["h2"] else "h1"
    ws_accept_t = None
    if not tr["h2"]:
        ends = _resp_end_times_h1(obs)
        if ends is None:
            tally.inconclusive["unparseable-output"] += 1
            return out
        k = 0
        prev_end = 0.0
        for m in tr["marks"]:
            if m["kind"] in ("req", "error", "ws"):
                th = m["t"] if m.get("t") is not None else prev_end
                if m.get("after_prev"):
                    th = prev_end
                if closed_at is not None and th > closed_at - EPS and not (m.get("after_prev")):
                    break  # fed after the server had closed: never reached the server
                end = ends[k][0] if k < len(ends) else None
                status = ends[k][1] if k < len(ends) else None
                k += 1
                exp = th + m.get("delay", 0)
                kind_eff = m["kind"]
                if m["kind"] == "ws" and status is not None and status != 101:
                    kind_eff = "error"  # the server itself refused the handshake
                busy.append((th, end, exp, kind_eff))
                if m["kind"] == "ws" and status == 101:
                    ws_accept_t = end
                    break
                if end is None:
                    break
                if kind_eff == "error":
                    break  # a server-generated error response announces "connection: close": nothing behind it is taken up
                prev_end = end
    else:
        rx = obs.reactor
        for m in tr["marks"]:
            if m["kind"] == "stream":
                if closed_at is not None and m["t"] > closed_at - EPS:
                    break
                s = rx.streams.get(m["sid"])
                end = s.end_t if s is not None and (s.ended or s.rst is not None) else None
                if m.get("rst_at") is not None and (closed_at is None or m["rst_at"] < closed_at - EPS):
                    end = m["rst_at"] if end is None else min(end, m["rst_at"])
                busy.append((m["t"], end, m["t"] + m.get("delay", 0), "error" if m.get("error") else "stream"))
    # ---- idle periods = complement of busy intervals ---------------------------------------
    # sweep: count of open busy intervals over time
    points = []
    for (b, e, x, k) in busy:
        points.append((b, 1))
        if e is not None:
            points.append((e, -1))
    points.sort(key=lambda p: (p[0], -p[1]))
    idle_periods = []
    depth = 0
    idle_from = 0.0
    for tt, dlt in points:
        if depth == 0 and dlt == 1:
            idle_periods.append((idle_from, tt))
        depth += dlt
        if depth == 0:
            idle_from = tt
    if depth == 0:
        idle_periods.append((idle_from, None))
    never_ended = depth > 0
    # ---- deadline clause -------------------------------------------------------------------
    term_t = ft if fault == "terminate" else None
    lost_t = ft if lost else None
    ws_open = ws_accept_t is not None
    zombie = any(m["kind"] == "ws_zombie" for m in tr["marks"])
    for (s, e) in idle_periods:
        if zombie:
            break
        if ws_open and s >= ws_accept_t - EPS:
            break
        limit = s + T
        if term_t is not None and (e is None or term_t < e):
            # shutdown began inside this idle period, or earlier while a request was still in progress: closed at once
            limit = min(limit, max(term_t, s))
        if lost_t is not None and lost_t <= limit + EPS:
            break  # the peer went away first: the release clause judges that
        if e is not None and e <= limit + EPS:
            continue  # a new request head completed before the deadline (or exactly at it: racy, not judged)
        tally.clause("deadline")
        if closed_at is None or closed_at > limit + EPS:
            what = _idle_what(tr, s, busy, proto)
            out.append({"clause": "deadline", "sig": "C07.no-timeout/%s/%s" % (proto, what),
                        "detail": "idle since %.6f (after %s), keep_alive_timeout %s%s: expected close by %.6f, closed_at=%r (end of history %.3f)" % (
                            s, what, T, " terminate at %.3f" % term_t if term_t is not None else "", limit, closed_at, obs.vtime_end)})
        break  # after the first binding deadline the connection is gone
    # ---- busy clause: never closed while a request is in progress / websocket open --------
    if closed_at is not None and lost_t is None or (closed_at is not None and lost_t is not None and closed_at < lost_t - EPS):
        for (b, e, x, k) in busy:
            tally.clause("busy")
            if k == "ws" and ws_open:
                continue
            hi = e if e is not None else x
            if b - EPS <= closed_at < min(hi, x) - EPS and (term_t is None or closed_at < term_t - EPS):
                out.append({"clause": "busy", "sig": "C07.closed-while-busy/%s/%s" % (proto, k),
                            "detail": "server closed at %.6f inside a request in progress [%.6f, expected end %.6f]" % (closed_at, b, x)})
        if ws_open:
            tally.clause("busy")
            ws_closed_by_client = any(m["kind"] == "ws_close" for m in tr["marks"])
            if not ws_closed_by_client and (term_t is None):
                out.append({"clause": "busy", "sig": "C07.closed-while-websocket-open",
                            "detail": "server closed at %.6f while a WebSocket was open (accepted at %.6f)" % (closed_at, ws_accept_t)})
    # ---- release clause ---------------------------------------------------------------------
    gone = lost or closed_at is not None
    exits = obs.exits()
    all_returned = set(exits) == set(obs.instances())
    if gone:
        tally.clause("release")
        if all_returned and (obs.handler != "ok" or obs.tasks_left or not getattr(obs, "transport_closing", True)):
            why = "peer-%s" % fault if lost else "server-closed"
            blocked = obs.blocked_puts()
            out.append({"clause": "release", "sig": "C07.not-released/%s/%s" % (proto, why),
                        "detail": "handler=%s tasks_left=%d transport_closing=%r at permanent quiescence although every application returned "
                                  "(closed_at=%r, fault=%r at %r) tasks=%r blocked_puts=%r" % (
                                      obs.handler, obs.tasks_left, getattr(obs, "transport_closing", None), closed_at, fault, ft,
                                      getattr(obs, "tasks_left_names", None), blocked)})
        elif not all_returned:
            tally.notes["release-not-judged:application-still-running"] += 1
        elif lost and ft is not None:
            # promptness: once the peer is gone the transport is closed as soon as the applications have returned
            tally.clause("release-prompt")
            last_exit = max([e[1] for e in obs.app_events(kind="exit")] + [ft])
            done_at = obs.eof_at if obs.backend == "asyncio" and obs.eof_at is not None else closed_at
            if obs.backend == "asyncio" and fault != "eof":
                done_at = None  # reset / write failure: the transport is already gone, nothing to observe
            hd = getattr(obs, "handler_done_at", None)
            if obs.handler == "ok" and hd is not None and hd > last_exit + EPS and (done_at is None or done_at <= last_exit + EPS):
                out.append({"clause": "release", "sig": "C07.release-delayed/%s/handler-after-peer-%s" % (proto, fault),
                            "detail": "peer gone at %.6f, last application returned at %.6f, but the connection handler finished only at %.6f "
                                      "(keep_alive_timeout %s)" % (ft, last_exit, hd, T)})
            if done_at is not None and done_at > last_exit + EPS:
                out.append({"clause": "release", "sig": "C07.release-delayed/%s/peer-%s" % (proto, fault),
                            "detail": "peer gone at %.6f, last application returned at %.6f, but the server closed its side only at %.6f "
                                      "(keep_alive_timeout %s)" % (ft, last_exit, done_at, T)})
    return out


def _idle_what(tr, s, busy, proto):
    """Names the situation the idle period started from (mechanism part of the signature)."""
    if any(e is not None and abs(e - s) < EPS and k == "error" for (b, e, x, k) in busy):
        return "after-server-error-response"
    if proto == "h2" and any(e is not None and e <= s + EPS and k == "error" for (b, e, x, k) in busy):
        # the refused stream is never removed from the connection's stream table, so the connection never counts as idle again
        return "after-server-error-response"
    for (b, e, x, k) in busy:
        if e is not None and abs(e - s) < EPS:
            return {"req": "after-response", "error": "after-server-error-response", "stream": "after-last-stream", "ws": "after-websocket-handshake"}.get(k, k)
    if s == 0.0:
        kinds = [m["kind"] for m in tr["marks"]]
        if proto == "h2":
            return "before-first-stream" + ("/prior-knowledge" if "preface" in kinds else "")
        return "before-first-request"
    for (b, e, x, k) in busy:
        if e is not None and abs(e - s) < EPS:
            return {"req": "after-response", "error": "after-server-error-response", "stream": "after-last-stream", "ws": "after-websocket-handshake"}.get(k, k)
    return "?"
