"""C13 — protocol selection and upgrades lose no bytes and ignore segmentation."""
from __future__ import annotations

import base64

from ..wire import h1, ws
from ..wire.h2raw import FrameBuilder, client_preface
from ..world.driver import run_case

ID = "C13"
LEVEL = "exploration"
BUDGET = {"quick": 45, "thorough": 600}
TECHNIQUE = ("classification function from the statement + metamorphic oracle: the normalised observation (application "
             "histories and parsed client events) of every read segmentation must equal that of the unsegmented run")
LEVEL_TEXT = ("Openings {ALPN h2 / http/1.1 / none, cleartext preface, h2c upgrade with several settings payloads, h2c upgrade "
              "with body, websocket upgrade, plain} each followed by further traffic in the same bytes, split at every byte "
              "offset of the opening (exhaustive in thorough, strided in quick) and at random 3-way splits, on both workers.")
LEVEL_NOTE = "Trusted: hv/wire parsers; the ALPN result is injected through the documented ssl_object / SSLStream accessor."
RULE = ("opening kind x trailing traffic x split offsets; an evaluation is one (segmentation, worker) execution; non-trivial = "
        "the split fell inside the opening or the protocol switch carried trailing bytes; distinct = distinct (case, offset)")
ASSUMPTIONS = ["in the connection tier the ALPN result is injected through the ssl_object / SSLStream accessors; the tls.alpn family grounds it with real TLS on loopback"]
MIN_DECISIVE = {"classification": 20, "metamorphic": 200, "answered-once": 20, "tls-alpn": 8}


def _tag_app(tag):
    return [["recv_until_end"], ["respond", 200, [(b"x-tag", b"%d" % tag)], b"body-%d" % tag]]


def _h1_req(tag, extra=b"", body=b"", absolute=False):
    cl = b"content-length: %d\r\n" % len(body) if body else b""
    # absolute-form (RFC 7230 5.3.2) names the same resource: whichever protocol serves it, the application sees the path
    return b"GET %s/t%d HTTP/1.1\r\nHost: h.example\r\n%s%s\r\n%s" % (b"http://h.example" if absolute else b"", tag, extra, cl, body)


def _h2_req(fb, sid, tag, body=b""):
    out = fb.headers(sid, [(b":method", b"POST" if body else b"GET"), (b":scheme", b"http"), (b":path", b"/t%d" % tag),
                           (b":authority", b"h.example")], end_stream=not body)
    if body:
        out += fb.data(sid, body, end_stream=True)
    return out


def gen(rng, tier):
    # real TLS on loopback (tier B): the ALPN result comes from the ssl module / trio.SSLStream, not from a stub
    for be in ("asyncio", "trio"):
        for offer in (["h2"], ["http/1.1"], ["h2", "http/1.1"], ["http/1.1", "h2"], None, ["spdy/3"]):
            yield {"family": "tls.alpn", "kind": "tls", "backend": be, "offer": offer, "backends": [be]}
    n = 0
    kinds = ["alpn_h2", "alpn_h11", "tls_noalpn", "prior", "h2c", "h2c_settings", "h2c_body", "websocket", "plain", "plain_pipelined",
             "not_get_with_ws_fields", "h2c_http10", "websocket_early_frame", "pri_http11", "h2c_refused_host"]
    reps = 4 if tier == "quick" else 12
    for rep in range(reps):
        for kind in kinds:
            n += 1
            base = n * 100
            fb = FrameBuilder()
            by_tag = {}
            conn = {}
            reactor = None
            truth = {"kind": kind}
            tags = [base + 1, base + 2, base + 3]
            for tg in tags:
                by_tag[str(tg)] = _tag_app(tg)
            body = b"payload-%d" % base if rng.random() < 0.5 else b""
            if kind in ("alpn_h2", "prior"):
                conn = {"tls": kind == "alpn_h2", "alpn": "h2" if kind == "alpn_h2" else None}
                opening = client_preface(fb, {})
                trailing = _h2_req(fb, 1, tags[0], body) + _h2_req(fb, 3, tags[1])
                reactor = {"kind": "h2", "credit": "auto"}
                truth.update(proto="h2", version="2", expect={tags[0]: 1, tags[1]: 3})
            elif kind in ("alpn_h11", "tls_noalpn", "plain", "plain_pipelined"):
                conn = {"tls": kind in ("alpn_h11", "tls_noalpn"), "alpn": "http/1.1" if kind == "alpn_h11" else None}
                opening = _h1_req(tags[0], body=body, absolute=rng.random() < 0.15)
                trailing = _h1_req(tags[1], absolute=rng.random() < 0.15) + (_h1_req(tags[2]) if kind == "plain_pipelined" else b"")
                truth.update(proto="h1", version="1.1", expect=[tags[0], tags[1]] + ([tags[2]] if kind == "plain_pipelined" else []))
            elif kind in ("h2c", "h2c_settings"):
                # (small: HTTP2-Settings leaves stream 1 a window of a few bytes; the SETTINGS frame of the client's preface - often in a later
                #  read than the request - raises it, and that growth is all the credit stream 1 ever gets)
                small = kind == "h2c_settings" and rng.random() < 0.4
                st = b"" if kind == "h2c" else fb.settings({3: 100, 4: rng.choice([1, 3, 7]) if small else 65535 + rng.randrange(1000)})[9:]
                # (header names repeated on several lines: every line is a client byte that has to make it across the switch)
                opening = _h1_req(tags[0], extra=b"X-Dup: one\r\nCookie: a=1\r\nConnection: Upgrade, HTTP2-Settings\r\nUpgrade: h2c\r\nX-Dup: two\r\nHTTP2-Settings: %s\r\nCookie: b=2\r\n" %
                                  base64.urlsafe_b64encode(st).rstrip(b"="), absolute=rng.random() < 0.3)
                truth["h2c_headers"] = [(b"x-dup", b"one"), (b"cookie", b"a=1"), (b"x-dup", b"two"), (b"cookie", b"b=2")]
                trailing = client_preface(fb, {"initial_window": 70000} if small else {}) + _h2_req(fb, 3, tags[1], body)
                reactor = {"kind": "h2", "credit": "none" if small else "auto", "skip_h1_101": True}
                truth.update(proto="h2c", version="2", expect={tags[0]: 1, tags[1]: 3})
            elif kind == "not_get_with_ws_fields":
                # only a GET opens a WebSocket: the same fields on another method are an ordinary HTTP/1.1 request (body and all)
                m_ = rng.choice([b"POST", b"PUT", b"DELETE", b"OPTIONS"])
                full = rng.random() < 0.6
                opening = (m_ + b" /t%d HTTP/1.1\r\nHost: h.example\r\nConnection: Upgrade\r\nUpgrade: websocket\r\n" % tags[0] +
                           (b"Sec-WebSocket-Key: dGhlIHNhbXBsZSBub25jZQ==\r\nSec-WebSocket-Version: 13\r\n" if full else b"") +
                           (b"content-length: %d\r\n\r\n%s" % (len(body), body) if body else b"\r\n"))
                trailing = _h1_req(tags[1])
                truth.update(proto="h1", version="1.1", expect=[tags[0], tags[1]])
            elif kind == "h2c_http10":
                # "an HTTP/1.1 request with Upgrade: h2c": an HTTP/1.0 client cannot be sent a 101 (RFC 7230 6.7) - it stays HTTP/1.x
                opening = b"GET /t%d HTTP/1.0\r\nHost: h.example\r\nConnection: Upgrade, HTTP2-Settings\r\nUpgrade: h2c\r\nHTTP2-Settings: \r\n\r\n" % tags[0]
                trailing = b""
                truth.update(proto="h1", version="1.0", expect=[tags[0]])
            elif kind == "h2c_body":
                if rng.random() < 0.5:
                    opening = _h1_req(tags[0], extra=b"Connection: Upgrade, HTTP2-Settings\r\nUpgrade: h2c\r\nHTTP2-Settings: \r\n", body=b"has-a-body")
                else:
                    # the body is announced by Transfer-Encoding instead of Content-Length
                    opening = (b"POST /t%d HTTP/1.1\r\nHost: h.example\r\nConnection: Upgrade, HTTP2-Settings\r\nUpgrade: h2c\r\nHTTP2-Settings: \r\n"
                               b"Transfer-Encoding: chunked\r\n\r\n5\r\nhas-a\r\n5\r\n-body\r\n0\r\n\r\n" % tags[0])
                trailing = _h1_req(tags[1])
                truth.update(proto="h1", version="1.1", expect=[tags[0], tags[1]])
            elif kind == "pri_http11":
                # only the HTTP/2 preface selects HTTP/2: "PRI * HTTP/1.1" is an HTTP/1.1 request with an unusual method, like any other
                opening = b"PRI * HTTP/1.1\r\nHost: h.example\r\n\r\n"
                trailing = _h1_req(tags[1])
                truth.update(proto="h1", version="1.1", expect=[tags[1]], pri=True)
            elif kind == "h2c_refused_host":
                # an h2c upgrade of a request the server answers itself (Host not among server_names): stream 1 carries that answer,
                # whole, and the connection goes on as HTTP/2
                opening = b"GET /t%d HTTP/1.1\r\nHost: other.example\r\nConnection: Upgrade, HTTP2-Settings\r\nUpgrade: h2c\r\nHTTP2-Settings: \r\n\r\n" % tags[0]
                trailing = client_preface(fb, {}) + _h2_req(fb, 3, tags[1], body)
                reactor = {"kind": "h2", "credit": "auto", "skip_h1_101": True}
                truth.update(proto="h2c", version="2", expect={tags[1]: 3}, refused=True, server_names=["h.example"])
            elif kind == "websocket_early_frame":
                # a client that does not wait for the 101: its first frame follows the opening at once.  The application decides late (after
                # everything has arrived), so whatever the server makes of the early frame it makes of it for every segmentation - and if it
                # accepts the connection after all, the frame was a client byte like any other: it has to be delivered
                by_tag[str(tags[0])] = [["recv"], ["wait", "go"], ["send", {"type": "websocket.accept"}], ["ws_echo"]]
                opening = ws.handshake(path=b"/t%d" % tags[0])
                trailing = ws.message_frames(ws.OP_TEXT, b"early-%d" % base)
                truth.update(proto="ws", version="1.1", frames=[], early=b"early-%d" % base, trigger="go")
                reactor = {"kind": "ws", "echo_close": False}
            else:  # websocket
                by_tag.pop(str(tags[0]))
                # the tokens of Connection / Upgrade are a list: order, case and optional whitespace do not matter
                # ... and a header repeated on several lines is the same list (RFC 7230 3.2.2)
                conn_hdr = rng.choice([b"Upgrade", b"keep-alive, Upgrade", b"keep-alive ,\tUpgrade ", b"upgrade,keep-alive", b"Upgrade\r\nConnection: keep-alive",
                                   b"keep-alive\r\nConnection: Upgrade"])
                opening = ws.handshake(path=b"/t%d" % tags[0], connection=conn_hdr, upgrade=rng.choice([b"websocket", b"WebSocket"]))
                trailing = b""
                # frames only after acceptance: fed as a second step
                truth.update(proto="ws", version="1.1", frames=[ws.message_frames(ws.OP_TEXT, b"hello-%d" % base), ws.close_frame(1000)])
                reactor = {"kind": "ws", "echo_close": False}
            data = opening + trailing
            L = len(data)
            lim = len(opening) + min(len(trailing), 40)
            if tier == "thorough" or rep == 0:
                offsets = list(range(1, min(L, lim + 1)))  # every 2-way split of the opening (+40 bytes beyond)
            else:
                stride = rng.choice([3, 5, 7])
                offsets = sorted(set(list(range(1, min(L, lim + 1), stride)) + [len(opening) - 1, len(opening), len(opening) + 1, len(opening) + 9]))
                offsets = [o for o in offsets if 0 < o < L]
            three = []
            for _ in range(3 if tier == "quick" else 10):
                if L > 3:
                    a, b = sorted(rng.sample(range(1, L), 2))
                    three.append([a, b - a])
            yield {
                "family": kind, "backends": ["asyncio", "trio"],
                "config": dict({"keep_alive_timeout": 5000}, **({"server_names": truth["server_names"]} if truth.get("server_names") else {})), "conn": conn,
                "apps": {"default": [["recv_until_end"], ["respond", 200, [], b"default"]], "by_tag": by_tag,
                         "websocket": [["recv"], ["send", {"type": "websocket.accept"}], ["ws_echo"]]},
                "data": data, "opening_len": len(opening), "offsets": offsets, "three": three,
                "reactor": reactor, "truth": truth, "sched": {"seed": rng.randrange(1 << 30)}, "horizon": 20.0,
            }


def _mk(case, sizes):
    c = {k: v for k, v in case.items() if k not in ("data", "offsets", "three", "opening_len")}
    client = [["feed_split", case["data"], sizes], ["settle"]]
    if case["truth"].get("trigger"):
        client += [["trigger", case["truth"]["trigger"]], ["settle"]]
    if case["truth"]["proto"] == "ws":
        for fr in case["truth"]["frames"]:
            client += [["feed", fr], ["settle"]]
    c["client"] = client
    if case.get("reactor") is None:
        c.pop("reactor", None)
    return c


def _normalise(case, obs):
    t = case["truth"]
    apps = []
    for e in obs.app_events(kind="start"):
        sc = e[4]["scope"]
        inst = e[4]["inst"]
        msgs = [(m.get("type"), bytes(m.get("body", b"")) if m.get("type") == "http.request" else (m.get("text") or m.get("bytes") or m.get("code")),
                 m.get("more_body")) for m in obs.apps.recvs[inst]]
        body = b"".join(x[1] for x in msgs if x[0] == "http.request")
        kinds = [x[0] for x in msgs if x[0] != "http.request"] + (["http.request-final"] if any(x[0] == "http.request" and not x[2] for x in msgs) else [])
        apps.append((sc.get("type"), sc.get("http_version"), sc.get("method"), sc.get("path"), body, tuple(kinds)))
    apps.sort(key=repr)
    client = None
    if t["proto"] in ("h2", "h2c"):
        rx = obs.reactor
        client = sorted((sid, s.status, bytes(s.data), s.ended, s.rst) for sid, s in rx.streams.items())
        client = ("h2", rx.upgrade_head[:12] if rx.upgrade_head else None, client, rx.goaway is not None)
    elif t["proto"] == "h1":
        try:
            resps, _ = h1.parse_responses(obs.outbytes, [("GET", "1.1")] * 5, obs.closed_at is not None)
            client = ("h1", [(r.status, tuple(r.header(b"x-tag")), r.body, r.complete) for r in resps])
        except h1.Malformed as e:
            client = ("h1-malformed", str(e))
    else:
        rx = obs.reactor
        client = ("ws", rx.status, tuple(rx.parser.messages) if rx.parser else None, rx.parser.close if rx.parser else None)
    return (apps, client, obs.handler, obs.closed_at is not None)


def _ws_texts(obs):
    return [m.get("text") for inst in obs.apps.recvs for m in obs.apps.recvs[inst] if m.get("type") == "websocket.receive"]


def _tls_case(case, tally):
    import os
    import socket
    import ssl
    import time

    from ..wire.h2raw import FrameReader
    from ..world.realnet import ServeHarness, recv_all, recv_until

    findings = []
    be = case["backend"]
    assets = os.path.join(os.environ.get("HYPERCORN_SRC", "/repo/src"), "..", "tests", "assets")
    if not os.path.exists(os.path.join(assets, "cert.pem")):
        assets = "/repo/tests/assets"
    apps = {"lifespan": [["recv"], ["send", {"type": "lifespan.startup.complete"}], ["recv"], ["send", {"type": "lifespan.shutdown.complete"}]],
            "default": [["recv_until_end"], ["respond", 200, [(b"content-length", b"2")], b"ok"]]}
    h = ServeHarness(be, {"certfile": os.path.join(assets, "cert.pem"), "keyfile": os.path.join(assets, "key.pem"),
                          "graceful_timeout": 0.5, "shutdown_timeout": 0.5, "keep_alive_timeout": 5.0}, apps)
    negotiated, version, answered = None, None, False
    try:
        h.start()
        h.wait_event(lambda e: e[2] == "app" and e[3] == "send.", 3.0)
        h.wait_ready()
        ctx = ssl.SSLContext(ssl.PROTOCOL_TLS_CLIENT)
        ctx.check_hostname = False
        ctx.verify_mode = ssl.CERT_NONE
        if case["offer"]:
            ctx.set_alpn_protocols(case["offer"])
        raw = socket.create_connection((h.host, h.port), timeout=2.0)
        try:
            tls = ctx.wrap_socket(raw, server_hostname="localhost")
        except (ssl.SSLError, OSError) as e:
            raw.close()
            tally.notes["tls-handshake-refused:%s" % (case["offer"],)] += 1
            h.trigger_shutdown()
            h.wait_done(4.0)
            return findings, [None]
        negotiated = tls.selected_alpn_protocol()
        tls.settimeout(2.0)
        if negotiated == "h2":
            fb = FrameBuilder()
            tls.sendall(client_preface(fb, {}) + _h2_req(fb, 1, 4242))
            rd = FrameReader()
            end = time.monotonic() + 2.0
            evs = []
            while time.monotonic() < end and not any(e["t"] == "data" and e["end"] for e in evs):
                try:
                    d = tls.recv(65536)
                except (socket.timeout, OSError):
                    break
                if not d:
                    break
                evs += rd.feed(d)
            answered = any(e["t"] == "headers" and dict(e["headers"] or []).get(b":status") == b"200" for e in evs)
        else:
            tls.sendall(_h1_req(4242))
            d = recv_until(tls, b"ok", timeout=2.0)
            answered = d.startswith(b"HTTP/1.1 200")
        try:
            tls.close()
        except OSError:
            pass
        h.trigger_shutdown()
        h.wait_done(4.0)
    finally:
        h.close()
    for e in h.trace.events:
        tally.events[e[2] + "." + e[3]] += 1
    starts = [e for e in h.trace.events if e[2] == "app" and e[3] == "start" and e[4]["scope"].get("type") == "http"]
    tally.clause("tls-alpn")
    want = "2" if negotiated == "h2" else "1.1"
    offer = case["offer"] or []
    if "h2" in offer and negotiated != "h2" and offer[0] == "h2":
        findings.append({"clause": "tls-alpn", "sig": "C13.tls/h2-not-negotiated/%s" % be, "backend": be,
                         "detail": "client offered %r, server negotiated %r" % (offer, negotiated)})
    if not starts or not answered:
        findings.append({"clause": "tls-alpn", "sig": "C13.tls/not-served/%s" % be, "backend": be,
                         "detail": "ALPN offer %r negotiated %r: request not served (starts=%d answered=%r)" % (offer, negotiated, len(starts), answered)})
    else:
        sc = starts[0][4]["scope"]
        if sc.get("http_version") != want or sc.get("scheme") != "https":
            findings.append({"clause": "tls-alpn", "sig": "C13.tls/version/%s" % be, "backend": be,
                             "detail": "negotiated %r but the scope reports http_version %r scheme %r" % (negotiated, sc.get("http_version"), sc.get("scheme"))})
    return findings, [None]


def run_one(case, tally):
    if case.get("kind") == "tls":
        return _tls_case(case, tally)
    findings = []
    obs_all = []
    t = case["truth"]
    L = len(case["data"])
    for be in case["backends"]:
        base_case = _mk(case, [L])
        ob0 = run_case(base_case, be)
        obs_all.append(ob0)
        if ob0.harness_error:
            tally.inconclusive["harness:" + ob0.harness_error.strip().splitlines()[-1][:80]] += 1
            continue
        for e in ob0.trace.events:
            tally.events[e[2] + "." + e[3]] += 1
        n0 = _normalise(case, ob0)
        # ---- classification + answered exactly once (on the unsegmented run) ------------------
        tally.clause("classification")
        if ob0.handler == "exception":
            findings.append({"clause": "classification", "sig": "C13.crash/%s" % case["family"], "backend": be,
                             "detail": "opening %s crashed the connection handler: %s" % (case["family"], (ob0.handler_exc or "")[-500:])})
            continue
        apps = n0[0]
        vers = {a[1] for a in apps}
        if t["proto"] == "ws":
            if not apps or apps[0][0] != "websocket":
                findings.append({"clause": "classification", "sig": "C13.class/websocket-not-websocket", "backend": be,
                                 "detail": "GET with Upgrade: websocket started %r" % (apps,)})
        elif vers != {t["version"]}:
            findings.append({"clause": "classification", "sig": "C13.class/%s/version" % case["family"], "backend": be,
                             "detail": "opening %s: scopes report http_version %r, expected %r" % (case["family"], sorted(vers), t["version"])})
        tally.clause("answered-once")
        if t["proto"] in ("h2", "h2c"):
            rx = ob0.reactor
            if t["proto"] == "h2c" and (rx.upgrade_head is None or not rx.upgrade_head.startswith(b"HTTP/1.1 101")):
                findings.append({"clause": "answered-once", "sig": "C13.h2c/no-101", "backend": be,
                                 "detail": "h2c upgrade without body not answered 101: %r" % (rx.upgrade_head or ob0.outbytes[:60])})
            if t.get("h2c_headers"):
                sc1 = [e[4]["scope"] for e in ob0.app_events(kind="start") if e[4]["scope"].get("path") == "/t%d" % min(t["expect"])]
                got_h = [(bytes(a), bytes(b)) for a, b in (sc1[0].get("headers") or []) if bytes(a) in (b"x-dup", b"cookie")] if sc1 else None
                if got_h != t["h2c_headers"]:
                    findings.append({"clause": "answered-once", "sig": "C13.lost-or-duplicated/%s/request-headers" % case["family"], "backend": be,
                                     "detail": "the upgraded request reached its application with the header lines %r, the client sent %r" % (got_h, t["h2c_headers"])})
            if t.get("refused"):
                s1 = rx.streams.get(1)
                if s1 is None or s1.status != 404 or s1.ended != 1:
                    findings.append({"clause": "answered-once", "sig": "C13.lost-or-duplicated/%s/stream-1" % case["family"], "backend": be,
                                     "detail": "the upgraded request (Host not served here) on stream 1: %r, expected a complete 404" % (
                                         None if s1 is None else (s1.status, s1.ended, s1.rst),)})
            for tag, sid in t["expect"].items():
                s = rx.streams.get(sid)
                if s is None or s.status != 200 or bytes(s.data) != b"body-%d" % tag or s.ended != 1:
                    findings.append({"clause": "answered-once", "sig": "C13.lost-or-duplicated/%s/stream-%d" % (case["family"], sid), "backend": be,
                                     "detail": "request tag %d on stream %d: %r" % (tag, sid, None if s is None else (s.status, bytes(s.data)[:20], s.ended, s.rst))})
            extra = [sid for sid in rx.streams if sid not in t["expect"].values() and rx.streams[sid].heads and not (t.get("refused") and sid == 1)]
            if extra:
                findings.append({"clause": "answered-once", "sig": "C13.duplicated/%s" % case["family"], "backend": be,
                                 "detail": "responses on unexpected streams %r" % extra})
        elif t["proto"] == "h1":
            got = n0[1]
            exp = ([(200, (), b"default", True)] if t.get("pri") else []) + [(200, (b"%d" % tg,), b"body-%d" % tg, True) for tg in t["expect"]]
            if got != ("h1", exp):
                findings.append({"clause": "answered-once", "sig": "C13.lost-or-duplicated/%s" % case["family"], "backend": be,
                                 "detail": "responses %r expected %r" % (got, exp)})
        elif t.get("early"):
            rx = ob0.reactor
            got = [k for a in apps for k in a[5]]
            if rx.status == 101 and not any(a[0] == "websocket" and t["early"].decode() in [str(x) for x in _ws_texts(ob0)] for a in apps):
                findings.append({"clause": "answered-once", "sig": "C13.lost-bytes/websocket-early-frame", "backend": be,
                                 "detail": "the opening was accepted (101) but the frame that followed it in the client's bytes never reached the application: %r" % (apps,)})
        else:
            rx = ob0.reactor
            if rx.status != 101:
                findings.append({"clause": "answered-once", "sig": "C13.websocket-not-upgraded", "backend": be,
                                 "detail": "valid websocket upgrade answered %r" % rx.status})
        # ---- metamorphic: every segmentation gives the same observation ---------------------
        seen = set()
        for sizes in [[o, L - o] for o in case["offsets"]] + [s + [L - sum(s)] for s in case["three"]]:
            key = tuple(sizes)
            if key in seen:
                continue
            seen.add(key)
            ob = run_case(_mk(case, sizes), be)
            obs_all.append(ob)
            if ob.harness_error:
                tally.inconclusive["harness:" + ob.harness_error.strip().splitlines()[-1][:80]] += 1
                continue
            tally.clause("metamorphic")
            tally.interleavings.setdefault(case["family"] + "/" + be, set()).add(ob.trace.order_hash())
            nk = _normalise(case, ob)
            if nk != n0:
                where = "inside-opening" if sizes[0] < case["opening_len"] else ("at-switch" if sizes[0] == case["opening_len"] else "after-opening")
                findings.append({"clause": "metamorphic", "sig": "C13.segmentation/%s/%s" % (case["family"], where), "backend": be,
                                 "detail": "reads %r give a different observation than one read:\n split: %r\n whole: %r" % (
                                     sizes[:3], _brief(nk), _brief(n0))})
                break
    return findings, obs_all


def _brief(n):
    return repr(n)[:700]


def check(case, obs, tally):  # not used (run_one drives)
    return []
