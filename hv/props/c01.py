"""C01 — HTTP request delivery fidelity (scope and body reach the app exactly)."""
from __future__ import annotations

import re
import time

from .. import gen as G
from ..wire.h2raw import FrameBuilder, client_preface

ID = "C01"
LEVEL = "exploration"
BUDGET = {"quick": 35, "thorough": 600}
TECHNIQUE = "history monitor at the ASGI boundary vs. generator ground truth (scope + tagged body bytes), virtual-time closed world"
LEVEL_TEXT = ("Seeded exploration: every generated request is run through the real per-connection server of both workers; "
              "the oracle compares the recorded scope and received body messages with an independent reconstruction. "
              "Held on the executions produced; inputs are sampled, 2-way splits of short requests are swept.")
LEVEL_NOTE = "Trusted: in-memory Transport/Stream model, hpack/hyperframe for building client frames, stdlib StreamReader/Writer."
RULE = (
    "Seeded generator of structured requests (method, target with escapes, header lists, bodies "
    "0..1 MiB, framings CL/chunked/DATA, HTTP/1.0/1.1/2) x read segmentations (exhaustive 2-way splits "
    "of short requests, k-way, 1-byte) x application pace x queue bound x worker; a case is non-trivial "
    "when at least one application instance was started and its scope+body oracle was evaluated; distinct "
    "= distinct case hash."
)
ASSUMPTIONS = [
    "in-memory transport honours the asyncio Transport / trio Stream contracts",
    "expected scope is rebuilt from the generator's structured request, not from any parser",
    "framing header fields are compared as the serialiser emitted them (lower-case)",
]
MIN_DECISIVE = {"scope": 20, "body": 20, "terminal": 20, "instances": 20, "real-upload": 6}

N_CASES = {"quick": 4000, "thorough": 60000}


def _app_script(rng, tag):
    pace = rng.choice(["eager", "eager", "late", "slow"])
    resp = ["respond", 200, [(b"x-tag", b"%d" % tag)], b"ok%d" % tag]
    if pace == "eager":
        return pace, [["recv_until_end"], resp]
    if pace == "late":
        return pace, [["wait", "go%d" % tag], ["recv_until_end"], resp]
    return pace, [["recv_slow_until_end", rng.choice([1, 3])], resp]


def _start_first(tag):
    return [["send", {"type": "http.response.start", "status": 200, "headers": [(b"x-tag", b"%d" % tag)]}], ["recv_until_end"],
            ["send", {"type": "http.response.body", "body": b"ok%d" % tag, "more_body": False}]]


def _case_h1(rng, tier, n, exhaustive_split=None):
    version = rng.choice(["1.1", "1.1", "1.1", "1.0"])
    nreq = 1 if version == "1.0" else rng.choice([1, 1, 2, 3, 4])
    # all requests of the connection written back to back, so that read boundaries fall anywhere across them (incl. all in one read)
    pipelined = nreq > 1 and exhaustive_split is None and rng.random() < 0.35
    conn = {"tls": rng.random() < 0.2, "alpn": "http/1.1",
            "family": rng.choice(["inet", "inet", "inet6"])}
    if conn["family"] == "inet6":
        conn["peer"] = ("2001:db8::7", 40000, 0, 0)
        conn["name"] = ("2001:db8::1", 8443, 0, 0)
    config = {"max_app_queue_size": rng.choice([1, 2, 10, 10]),
              "h11_pass_raw_headers": rng.random() < 0.2, "keep_alive_timeout": 5}
    reqs, client, by_tag, paces = [], [], {}, []
    truncate = rng.random() < 0.08
    # the server is told which names it answers to - exactly those the client uses, though (now and then) not in the same case:
    # host names compare case-insensitively (RFC 3986 3.2.2)
    names = rng.random() < 0.2
    names_case = rng.choice([None, bytes.upper, bytes.title]) if names else None
    for i in range(nreq):
        tag = n * 10 + i
        sizes = None
        if exhaustive_split is not None:
            sizes = [0, 1, 5, 40]
        req = G.gen_request(rng, tag, version, tier, body_sizes=sizes)
        if names_case:
            req["authority"] = names_case(req["authority"])
        if version == "1.1" and rng.random() < 0.06:
            req["absolute"] = rng.choice([b"http://", b"HTTP://", b"https://"])
            if rng.random() < 0.4:
                # ... with an empty path (the resource "/") and a query, which may itself contain a slash
                req["abs_empty_path"] = True
                req["query"] = b"hvtag=%d" % tag + rng.choice([b"", b"&x=1", b"&next=/home&y=%2F", b"&a=b/c?d"])
        if req["method"] != "GET" and rng.random() < 0.06:
            # the fields of a WebSocket opening on a request that is none (only a GET opens one): an ordinary request, body and all
            extra = [(b"Connection", rng.choice([b"Upgrade", b"keep-alive, Upgrade"])), (b"Upgrade", b"websocket")] + \
                    ([(b"Sec-WebSocket-Key", b"dGhlIHNhbXBsZSBub25jZQ=="), (b"Sec-WebSocket-Version", b"13")] if rng.random() < 0.7 else [])
            req["headers"] = list(req["headers"]) + extra
            req["ows"] = list(req.get("ows") or []) + [b" "] * len(extra)
        elif version == "1.1" and len(req["body"]) > 0 and rng.random() < 0.08:
            # an h2c upgrade offer on a request that carries a body is ignored by the server: the request is served as HTTP/1.1, body and all
            extra = [(b"Connection", b"Upgrade, HTTP2-Settings"), (b"Upgrade", b"h2c"), (b"HTTP2-Settings", b"AAMAAABkAAQAAP__")]
            req["headers"] = list(req["headers"]) + extra
            req["ows"] = list(req.get("ows") or []) + [b" "] * len(extra)
        pace, script = _app_script(rng, tag)
        if i == nreq - 1 and len(req["body"]) > 0 and rng.random() < 0.15:
            # an application that starts its response first and reads its request afterwards (the last request of the connection: HTTP/1
            # gives up the connection after such a response): every byte of the body is still the application's to receive
            pace, script = "eager", _start_first(tag)
        by_tag[str(tag)] = script
        paces.append(pace)
        data = G.serialize_h1(req)
        complete = True
        if truncate and i == nreq - 1 and len(req["body"]) > 0:
            cut = G.h1_head_len(data) + rng.randrange(0, len(data) - G.h1_head_len(data))
            data = data[:cut]
            complete = False
        req["complete"] = complete
        req["sent_len"] = len(data)
        reqs.append(req)
        if exhaustive_split is not None and i == 0:
            k = exhaustive_split % max(1, len(data) - 1) + 1
            splits = [k, len(data) - k]
        else:
            splits = G.gen_splits(rng, len(data))
        if pipelined:
            client.append(data)
            continue
        client.append(["feed_split", data, splits])
        if pace == "late":
            client.append(["trigger", "go%d" % tag])
        client.append(["settle"])
        if not complete:
            client.append(["eof"])
    if pipelined:
        blob = b"".join(client)
        client = [["feed_split", blob, G.gen_splits(rng, len(blob), rng.choice(["one", "one", "two", "k"]))], ["settle"]]
        for r_, pace in zip(reqs, paces):
            if pace == "late":
                client += [["trigger", "go%d" % r_["tag"]], ["settle"]]
    client.append(["eof"])
    if names:
        config["server_names"] = sorted({r_["authority"].decode().lower() for r_ in reqs})
    return {
        "family": "h1." + version + (".trunc" if truncate else "") + (".pipelined" if pipelined else ""), "backends": ["asyncio", "trio"],
        "config": config, "conn": conn, "apps": {"default": [["recv_until_end"], ["respond", 200, [], b"d"]], "by_tag": by_tag},
        "client": client, "truth": {"requests": reqs, "paces": paces}, "sched": {"seed": rng.randrange(1 << 30)},
    }


def _case_h2(rng, tier, n):
    nreq = rng.choice([1, 2, 3, 4])
    tls = rng.random() < 0.5
    conn = {"tls": tls, "alpn": "h2" if tls else None}
    config = {"max_app_queue_size": rng.choice([1, 2, 10, 10]), "keep_alive_timeout": 5}
    fb = FrameBuilder()
    rspec = {"kind": "h2", "credit": "auto"}
    reqs, by_tag, paces = [], {}, []
    blob = bytearray(client_preface(fb, rspec))
    uploads = {}
    total = 0
    small = rng.random() < 0.6
    names = rng.random() < 0.15
    names_case = rng.choice([None, bytes.upper, bytes.title]) if names else None
    for i in range(nreq):
        tag = n * 10 + i
        sid = 1 + 2 * i
        req = G.gen_request(rng, tag, "2", tier, body_sizes=[0, 1, 2, 17, 1024, 9000] if small else None)
        req["sid"] = sid
        req["h2_host_too"] = rng.random() < 0.1
        # a stand-alone PRIORITY frame for the still idle stream ahead of the HEADERS that open it (RFC 7540 5.3): the request is a request
        req["prio_first"] = rng.random() < 0.1
        if names_case:
            req["authority"] = names_case(req["authority"])
        req["complete"] = True
        pace, script = _app_script(rng, tag)
        if len(req["body"]) > 0 and rng.random() < 0.15:
            pace, script = "eager", _start_first(tag)
        by_tag[str(tag)] = script
        paces.append(pace)
        reqs.append(req)
        total += len(req["body"])
    client = []
    if small:
        for req in reqs:
            blob += G.serialize_h2(fb, req, req["sid"], scheme=b"https" if tls else b"http",
                                     cont_split=[rng.randint(1, 5)] if rng.random() < 0.2 else None,
                                     priority=(0, rng.randint(0, 255), False) if rng.random() < 0.2 else None)
        data = bytes(blob)
        client.append(["feed_split", data, G.gen_splits(rng, len(data))])
    else:
        for req in reqs:
            target = req["path"] + (b"?" + req["query"] if req["query"] is not None else b"")
            hdrs = [(b":method", req["method"].encode()), (b":scheme", b"https" if tls else b"http"),
                    (b":path", target), (b":authority", req["authority"])] + ([(b"host", req["authority"])] if req.get("h2_host_too") else []) + list(req["headers"])
            if req.get("prio_first"):
                blob += fb.priority(req["sid"], dep=0, weight=rng.randrange(256))
            blob += fb.headers(req["sid"], hdrs, end_stream=(len(req["body"]) == 0))
            q, off = [], 0
            for k in req["frame_sizes"]:
                piece = req["body"][off:off + k]
                off += k
                pad = req["pad"] if k + req["pad"] + 1 <= 16384 else 0
                q.append([fb.data(req["sid"], piece, end_stream=(off >= len(req["body"])), pad=pad),
                          len(piece) + (pad + 1 if pad else 0)])
            if q:
                uploads[req["sid"]] = q
        rspec["uploads"] = uploads
        rspec["uploads_wait"] = True
        client.append(["feed_split", bytes(blob), G.gen_splits(rng, len(blob), rng.choice(["one", "two", "k"]))])
        client.append(["react", "pump"])
    for req, pace in zip(reqs, paces):
        if pace == "late":
            client.append(["trigger", "go%d" % req["tag"]])
    client.append(["settle"])
    if names:
        config["server_names"] = sorted({r_["authority"].decode().lower() for r_ in reqs})
    return {
        "family": "h2." + ("tls" if tls else "prior") + (".small" if small else ".upload"),
        "backends": ["asyncio", "trio"], "config": config, "conn": conn,
        "apps": {"default": [["recv_until_end"], ["respond", 200, [], b"d"]], "by_tag": by_tag},
        "client": client, "reactor": rspec, "truth": {"requests": reqs, "paces": paces},
        "sched": {"seed": rng.randrange(1 << 30)},
    }


def _case_h2_late_data(rng, tier, n):
    """Applications that answer before their body arrives keep receiving (ignored) DATA; a later upload on the same
    connection by a flow-control-abiding client must still be delivered in full."""
    fb = FrameBuilder()
    rspec = {"kind": "h2", "credit": "auto", "uploads_wait": True}
    nearly = rng.choice([2, 3, 4])
    per = rng.choice([25000, 33000, 60000])
    reqs, by_tag, uploads = [], {}, {}
    blob = bytearray(client_preface(fb, rspec))

    def add(tag, sid, size, early):
        req = G.gen_request(rng, tag, "2", tier, body_sizes=[size], methods=["POST"])
        req["sid"] = sid
        req["complete"] = not early
        req["pad"] = 0
        reqs.append(req)
        by_tag[str(tag)] = [["respond", 200, [(b"x-early", b"1")], b"early"]] if early else [["recv_until_end"], ["respond", 200, [], b"late"]]
        target = req["path"] + (b"?" + req["query"] if req["query"] is not None else b"")
        nonlocal blob
        blob += fb.headers(sid, [(b":method", b"POST"), (b":scheme", b"http"), (b":path", target), (b":authority", req["authority"])]
                           + list(req["headers"]), end_stream=False)
        q, off = [], 0
        while off < size:
            k = min(16000, size - off)
            q.append([fb.data(sid, req["body"][off:off + k], end_stream=(off + k >= size)), k])
            off += k
        uploads[sid] = q

    for i in range(nearly):
        add(n * 10 + i, 1 + 2 * i, per, True)
    add(n * 10 + 9, 1 + 2 * nearly, rng.choice([30000, 50000, 70000]), False)
    rspec["uploads"] = uploads
    client = [["feed", bytes(blob)], ["settle"], ["react", "pump"], ["settle"]]
    return {"family": "h2.late-data-then-upload", "backends": ["asyncio", "trio"], "config": {"keep_alive_timeout": 5}, "conn": {},
            "apps": {"default": [["recv_until_end"], ["respond", 200, [], b"d"]], "by_tag": by_tag}, "client": client, "reactor": rspec,
            "truth": {"requests": reqs, "paces": ["early"] * nearly + ["eager"]}, "sched": {"seed": rng.randrange(1 << 30)}}


def _case_h2_client_goaway(rng, tier, n):
    """The client announces (GOAWAY, NO_ERROR) that it will open no further streams and then finishes the upload it has in flight - as a
    client shutting down gracefully does.  It did complete the body: the application has to receive all of it and its end."""
    fb = FrameBuilder()
    rspec = {"kind": "h2", "credit": "auto"}
    tag = n * 10
    req = G.gen_request(rng, tag, "2", tier, body_sizes=[rng.choice([3000, 40000])], methods=["POST"])
    req["sid"], req["complete"], req["pad"] = 1, True, 0
    target = req["path"] + (b"?" + req["query"] if req["query"] is not None else b"")
    head = client_preface(fb, rspec) + fb.headers(1, [(b":method", b"POST"), (b":scheme", b"http"), (b":path", target), (b":authority", req["authority"])]
                                                  + list(req["headers"]), end_stream=False)
    body = req["body"]
    cut = rng.randrange(0, len(body))
    def _frames(b_, end):
        out, off = b"", 0
        while off < len(b_) or (end and not out):
            k = min(16000, len(b_) - off)
            out += fb.data(1, b_[off:off + k], end_stream=end and off + k >= len(b_))
            off += max(k, 1) if not b_ else k
            if not b_:
                break
        return out
    first, rest = _frames(body[:cut], False) if cut else b"", _frames(body[cut:], True)
    client = [["feed", head + first], ["settle"], ["feed", fb.goaway(last=0, code=0)]] + ([["settle"]] if rng.random() < 0.5 else []) + [["feed", rest], ["settle"]]
    return {"family": "h2.client-goaway-mid-upload", "backends": ["asyncio", "trio"], "config": {"keep_alive_timeout": 5}, "conn": {},
            "apps": {"default": [["recv_until_end"], ["respond", 200, [], b"d"]]}, "client": client, "reactor": rspec,
            "truth": {"requests": [req], "paces": ["eager"], "client_goaway": True}, "sched": {"seed": rng.randrange(1 << 30)}}


def gen_cases(rng, tier):
    n = N_CASES[tier]
    # exhaustive 2-way split sweep of a few short requests
    sweep = 500 if tier == "quick" else 4000
    for i in range(n):
        if i < sweep:
            yield _case_h1(rng, tier, i, exhaustive_split=i)
        elif i % 40 == 7:
            yield _case_h2_late_data(rng, tier, i)
        elif i % 400 == 9:
            yield _case_h2_client_goaway(rng, tier, i)
        elif rng.random() < 0.55:
            yield _case_h1(rng, tier, i)
        else:
            yield _case_h2(rng, tier, i)


class _HashApp:
    """A real ASGI application for the real-socket uploads: hashes what it is given instead of keeping it."""

    def __init__(self, pause):
        import hashlib

        self.pause = pause
        self.h = hashlib.sha256()
        self.n = 0
        self.msgs = 0
        self.after_end = 0
        self.ended = False
        self.scope = None
        self.polling = True

    async def __call__(self, scope, receive, send, *a):
        if scope["type"] == "lifespan":
            while True:
                m = await receive()
                await send({"type": m["type"] + ".complete"})
                if m["type"] == "lifespan.shutdown":
                    return
        self.scope = scope
        import sniffio

        lib = sniffio.current_async_library()
        while True:
            m = await receive()
            if m["type"] != "http.request":
                break
            if self.ended:
                self.after_end += 1
            self.msgs += 1
            self.h.update(m.get("body", b""))
            self.n += len(m.get("body", b""))
            if not m.get("more_body", False):
                self.ended = True
                break
            if self.pause and self.msgs % 16 == 0:
                if lib == "trio":
                    import trio

                    await trio.sleep(self.pause)
                else:
                    import asyncio

                    await asyncio.sleep(self.pause)
        body = self.h.hexdigest().encode()
        await send({"type": "http.response.start", "status": 200, "headers": [(b"content-length", b"%d" % len(body))]})
        await send({"type": "http.response.body", "body": body})


def _real_upload(case, tally):
    """Real serve() on loopback, a request body of tens of MiB.  Over HTTP/2 the client is the flow-control accountant itself (it sends DATA
    only as far as the server's windows permit), so a server that does not hand back credit for what it has delivered stalls the upload -
    a stall is decided on the absence of any progress for 5 s while the client has frames left, never on how long the upload takes."""
    import hashlib
    import random as _random
    import socket as _socket

    from ..wire.h2raw import FrameBuilder, H2Reactor, client_preface
    from ..world.realnet import ServeHarness

    findings = []
    be, carrier, size, tag = case["backend"], case["carrier"], case["size"], case["tag"]
    rnd = _random.Random(case["tag"])
    payload = rnd.randbytes(1 << 16) * (size >> 16)
    want = hashlib.sha256(payload).hexdigest().encode()
    h = ServeHarness(be, {"keep_alive_timeout": 60.0, "graceful_timeout": 0.5}, {"default": [["recv_until_end"], ["respond", 200, [], b"d"]]})
    app = h.apps = _HashApp(case["pause"])
    sock = None
    reply = b""
    stalled = False
    try:
        h.start()
        h.wait_ready()
        sock = h.connect()
        if sock is None:
            tally.inconclusive["no-connection-established"] += 1
            return findings, [None]
        sock.settimeout(5.0)
        if carrier in ("h1-cl", "h1-chunked"):
            if carrier == "h1-cl":
                head = b"POST /t%d HTTP/1.1\r\nHost: h\r\nContent-Length: %d\r\n\r\n" % (tag, len(payload))
                wire = head + payload
            else:
                parts = [b"POST /t%d HTTP/1.1\r\nHost: h\r\nTransfer-Encoding: chunked\r\n\r\n" % tag]
                off = 0
                while off < len(payload):
                    n = rnd.choice([1, 100, 4096, 65536, 200000])
                    c = payload[off:off + n]
                    parts.append(b"%x\r\n" % len(c) + c + b"\r\n")
                    off += len(c)
                parts.append(b"0\r\n\r\n")
                wire = b"".join(parts)
            off = 0
            sock.settimeout(None)
            last_n, since = -1, time.monotonic()
            sock.setblocking(False)
            import select

            while off < len(wire):
                _, w, _ = select.select([], [sock], [], 0.5)
                if w:
                    try:
                        off += sock.send(wire[off:off + rnd.choice([1000, 65536, 1 << 20])])
                    except BlockingIOError:
                        pass
                    except OSError:
                        break
                if app.n != last_n:
                    last_n, since = app.n, time.monotonic()
                elif time.monotonic() - since > 8.0:
                    stalled = True
                    break
            sock.setblocking(True)
            sock.settimeout(10.0)
            if not stalled:
                try:
                    while b"\r\n\r\n" not in reply or len(reply.split(b"\r\n\r\n", 1)[1]) < 64:
                        x = sock.recv(65536)
                        if not x:
                            break
                        reply += x
                except OSError:
                    pass
        else:
            fb = FrameBuilder()
            frames = []
            off = 0
            while off < len(payload):
                n = rnd.choice([1, 1000, 16384, 16384])
                c = payload[off:off + n]
                off += len(c)
                frames.append([fb.data(1, c, end_stream=off >= len(payload)), len(c)])
            rx = H2Reactor({"kind": "h2", "credit": "auto", "uploads": {1: frames}}, None)
            rx.fb = fb
            sock.sendall(client_preface(fb, {}) + fb.headers(1, [(b":method", b"POST"), (b":scheme", b"http"), (b":path", b"/t%d" % tag), (b":authority", b"h")],
                                                             end_stream=False))
            last_n, since = -1, time.monotonic()
            sock.settimeout(0.2)
            while True:
                for st in rx.pump():
                    sock.sendall(st[1])
                s1 = rx.streams.get(1)
                if s1 is not None and (s1.ended or s1.rst is not None):
                    break
                try:
                    data = sock.recv(65536)
                    if not data:
                        break
                    for st in rx.react(data, 0.0):
                        sock.sendall(st[1])
                except _socket.timeout:
                    pass
                except OSError:
                    break
                if app.n != last_n:
                    last_n, since = app.n, time.monotonic()
                elif time.monotonic() - since > 8.0:
                    stalled = True
                    break
            s1 = rx.streams.get(1)
            reply = b"\r\n\r\n" + (bytes(s1.data) if s1 is not None else b"")
            tally.events["real.h2-upload-blocked-on-window"] += rx.upload_blocked
    finally:
        if sock is not None:
            try:
                sock.close()
            except OSError:
                pass
        h.trigger_shutdown()
        h.wait_done(5.0)
        h.close()
    tally.events["real.body-messages"] += app.msgs
    tally.clause("real-upload")
    got = reply.split(b"\r\n\r\n", 1)[1][:64] if b"\r\n\r\n" in reply else b""
    if stalled:
        findings.append({"clause": "body", "sig": "C01.real/upload-stalled/%s" % carrier, "backend": be,
                         "detail": "the upload stopped: the application had been given %d of %d bytes and nothing moved for 8 s while the client still had data "
                                   "to send (HTTP/2: it sends only as far as the server's windows permit)" % (app.n, len(payload))})
    elif app.n != len(payload) or got != want:
        findings.append({"clause": "body", "sig": "C01.real/body-mismatch/%s" % carrier, "backend": be,
                         "detail": "sent %d bytes sha256 %s; the application received %d bytes in %d messages, sha256 %r (ended=%r)" % (
                             len(payload), want[:16], app.n, app.msgs, got[:16], app.ended)})
    if app.after_end:
        findings.append({"clause": "terminal", "sig": "C01.real/message-after-end/%s" % carrier, "backend": be, "detail": "%d messages after more_body=False" % app.after_end})
    return findings, [None]


def run_one(case, tally):
    if case.get("tierb"):
        return _real_upload(case, tally)
    import sys

    from ..runner import default_run_one

    return default_run_one(sys.modules[__name__], case, tally)


def gen(rng, tier):
    # the same property against the real transports and the kernel's buffers: bodies far larger than any buffer on the way
    for rep in range(1 if tier == "quick" else 4):
        for be in ("asyncio", "trio"):
            for carrier in ("h1-cl", "h1-chunked", "h2"):
                for pause in (0, 0.002):
                    yield {"family": "real-upload.%s.%s" % (carrier, "slow-app" if pause else "fast-app"), "tierb": True, "backend": be, "carrier": carrier,
                           "size": (24 if carrier != "h2" else 12) << 20, "pause": pause, "tag": 880000 + rng.randrange(10000), "rep": rep}
    # "every relative timing between reads and application progress": for a share of the cases the pieces of a segmented write do not
    # wait for the server to come to rest but arrive a few scheduler turns apart, in the middle of whatever it is doing
    for case in gen_cases(rng, tier):
        if rng.random() < 0.3:
            turns = [rng.choice([0, 1, 2, 3, 5]) for _ in range(5)]
            case["client"] = [st + [turns] if st[0] == "feed_split" and len(st) == 3 else st for st in case["client"]]
            case["family"] += ".staggered"
        yield case


def nontrivial(case, obs):
    if obs is None:
        return True
    return obs.trace is not None and len(obs.instances()) > 0


def check(case, obs, tally):
    out = []
    truth = case["truth"]
    reqs = truth["requests"]
    if obs.handler == "exception":
        tally.inconclusive["handler-crashed(C04)"] += 1
        return out
    starts = {e[4]["inst"]: e[4]["scope"] for e in obs.app_events(kind="start")}
    # map instances to requests by the unique path tag
    by_tag = {}
    for inst, sc in starts.items():
        m = re.match(rb"/+t(\d+)", sc.get("raw_path") or b"") or re.match(rb"hvtag=(\d+)", sc.get("query_string") or b"")
        by_tag.setdefault(int(m.group(1)) if m else -1, []).append(inst)
    head_delivered = []
    for r in reqs:
        head_delivered.append(True)  # every head is fully sent in this generator
    tally.clause("instances")
    expected_tags = [r["tag"] for r in reqs]
    extra = [t for t in by_tag if t not in expected_tags]
    if extra:
        out.append({"clause": "instances", "sig": "C01.instances/unexpected-instance",
                    "detail": "instances with unknown tags %r" % extra})
    for r in reqs:
        insts = by_tag.get(r["tag"], [])
        if len(insts) != 1:
            # a pipelined/kept-alive request after a truncated one may legitimately not start
            out.append({"clause": "instances", "sig": "C01.instances/count-%d" % len(insts),
                        "detail": "request tag %d started %d instances" % (r["tag"], len(insts))})
            continue
        inst = insts[0]
        sc = starts[inst]
        exp = G.expected_scope(r, case.get("conn") or {}, case.get("config"))
        tally.clause("scope")
        for k, v in exp.items():
            got = sc.get(k)
            if k in ("client", "server") and got is not None:
                got = tuple(got)
            if k == "headers":
                got = [(bytes(a), bytes(b)) for a, b in got]
            if got != v:
                out.append({"clause": "scope", "sig": "C01.scope/%s/h%s" % (k, r["version"]),
                            "detail": "tag %d scope[%s]=%r expected %r" % (r["tag"], k, got, v)})
        msgs = [m for m in obs.apps.recvs[inst]]
        reqmsgs = [m for m in msgs if m.get("type") == "http.request"]
        body = b"".join(bytes(m.get("body", b"")) for m in reqmsgs)
        tally.clause("body")
        if r.get("complete", True) and case["truth"].get("client_goaway") and body != r["body"] and r["body"].startswith(body):
            # mechanism: the connection was dropped at the client's GOAWAY although the client went on to complete its upload
            out.append({"clause": "body", "sig": "C01.body/incomplete/h2/client-goaway-mid-upload",
                        "detail": "tag %d: the client sent GOAWAY(NO_ERROR) in the middle of its upload and then the rest of the body; the application "
                                  "received %d of %d bytes and no end of body" % (r["tag"], len(body), len(r["body"]))})
            return out
        if r.get("complete", True):
            if body != r["body"]:
                out.append({"clause": "body", "sig": "C01.body/mismatch/h%s" % r["version"],
                            "detail": "tag %d body len %d expected %d; first diff at %s" % (
                                r["tag"], len(body), len(r["body"]), _first_diff(body, r["body"]))})
        else:
            if not r["body"].startswith(body):
                out.append({"clause": "body", "sig": "C01.body/not-prefix/h%s" % r["version"],
                            "detail": "tag %d truncated request: delivered bytes are not a prefix" % r["tag"]})
        tally.clause("terminal")
        finals = [i for i, m in enumerate(reqmsgs) if not m.get("more_body", False)]
        if r.get("complete", True):
            if len(finals) != 1 or finals[0] != len(reqmsgs) - 1:
                out.append({"clause": "terminal", "sig": "C01.terminal/count-%d/h%s" % (len(finals), r["version"]),
                            "detail": "tag %d more_body=False messages at %r of %d" % (r["tag"], finals, len(reqmsgs))})
        else:
            if finals:
                out.append({"clause": "terminal", "sig": "C01.terminal/on-incomplete/h%s" % r["version"],
                            "detail": "tag %d incomplete body but more_body=False delivered" % r["tag"]})
        # nothing of another request's tag
        if len(reqmsgs) > 12:
            tally.notes["body-msgs>queue-bound"] += 1
    return out


def _first_diff(a, b):
    n = min(len(a), len(b))
    for i in range(n):
        if a[i] != b[i]:
            return i
    return n
