"""Sharded execution of a property module, known-finding classification, evidence, replay.

A property module (hv/props/cXX.py) provides
    ID, LEVEL, RULE, ASSUMPTIONS
    gen(rng, tier) -> iterable of cases (dict with at least 'family' and 'backends')
    check(case, obs, tally) -> list of findings {clause, sig, detail}
    nontrivial(case, obs) -> bool                       (optional)
    run_one(case, tally) -> (findings, observations)    (optional override, for non-driver props)
    MIN_DECISIVE = {clause: n}                          (clauses that must have been evaluated)
"""
from __future__ import annotations

import importlib
import json
import os
import random
import subprocess
import sys
import time
import traceback
from collections import Counter

from . import codec

VERIF = os.path.dirname(os.path.dirname(os.path.abspath(__file__)))
NSHARDS = int(os.environ.get("HV_SHARDS", "16"))


def load(pid):
    return importlib.import_module("hv.props." + pid.lower())


class Tally:
    def __init__(self):
        self.clauses = Counter()  # oracle clause -> evaluations
        self.events = Counter()  # trace event kinds seen
        self.families = Counter()
        self.interleavings = {}  # family -> set(order hashes)
        self.notes = Counter()
        self.inconclusive = Counter()

    def clause(self, name, n=1):
        self.clauses[name] += n


def default_run_one(mod, case, tally):
    from .world.driver import run_case

    findings = []
    obs_list = []
    for be in case.get("backends", ["asyncio", "trio"]):
        obs = run_case(case, be)
        obs_list.append(obs)
        if obs.harness_error:
            tally.inconclusive["harness:" + obs.harness_error.strip().splitlines()[-1][:80]] += 1
            continue
        for e in obs.trace.events:
            tally.events[e[2] + "." + e[3]] += 1
        tally.interleavings.setdefault(case.get("family", "?") + "/" + be, set()).add(obs.trace.order_hash())
        got = [dict(f) for f in mod.check(case, obs, tally)]
        if obs.handler == "exception" and not any("crash" in f["sig"] for f in got) and getattr(mod, "CRASH_IS_VIOLATION", True):
            # an unhandled exception out of the connection handler on this property's (well-formed) workload means the
            # property's deliveries cannot have happened either; never fold it into "inconclusive"
            import re as _re

            names = _re.findall(r"\b([A-Z][A-Za-z]*(?:Error|Exception|Interrupt|Exit))\b(?=[:(\n]|$)", obs.handler_exc or "", _re.M)
            names = [x for x in names if "Group" not in x]
            name = names[-1] if names else "Exception"
            if not names:
                # exception classes that do not follow the *Error naming: take the class of the innermost traceback's last line
                last = [l.strip(" |") for l in (obs.handler_exc or "").splitlines() if l.strip(" |+-") and not l.strip(" |").startswith(("File ", "^", "~"))]
                m_ = _re.match(r"([A-Za-z_][\w.]*)(?::|$)", last[-1]) if last else None
                if m_:
                    name = m_.group(1).split(".")[-1]
            if "CaseTimeout" in (obs.handler_exc or ""):
                # the per-case wall-clock watchdog (60 s) fired while the event loop thread was *executing* server-side code (the
                # traceback ends inside it), not waiting: the loop - i.e. the whole worker - was blocked in a computation that does not end
                frames = _re.findall(r'File "([^"]+)", line (\d+), in (\w+)', obs.handler_exc or "")
                # ... which is only what happened if the *innermost* frame - where the alarm found the thread - is the server's code or
                # a protocol library's.  Found inside the harness (a scripted application producing its body, the virtual loop) or the
                # standard library, the case was merely slow on a loaded machine: a wall-clock watchdog is never a verdict.
                # (frames of the event loop machinery itself - asyncio, trio, the virtual loop - say nothing about who keeps it busy: the
                #  innermost frame that is neither is looked at)
                MACHINERY = ("/asyncio/", "/trio/", "/outcome/", "/selectors.py", "/threading.py", "/concurrent/", "/hv/world/vloop", "/contextlib.py")
                frames = [f for f in frames if not any(m_ in f[0] for m_ in MACHINERY) and f[2] != "_alarm"]  # (_alarm: the watchdog's own handler)
                inner = frames[-1] if frames else None
                server_side = inner is not None and ("/hypercorn/" in inner[0] or any("/site-packages/%s/" % lib in inner[0] for lib in ("h11", "h2", "hpack", "wsproto", "priority", "hyperframe")))
                if not server_side:
                    tally.inconclusive["case-wall-clock-watchdog"] += 1
                    continue
                where = "%s:%s" % (inner[0].split("/")[-1], inner[2])
                got.append({"clause": "spin", "sig": "%s.event-loop-blocked/%s" % (mod.ID, where),
                            "detail": "no progress for 60 s of wall clock with the event loop thread inside %s: %s" % (where, (obs.handler_exc or "")[-900:])})
            else:
                got.append({"clause": "crash", "sig": "%s.handler-crashed/%s" % (mod.ID, name),
                            "detail": "the connection handler raised on this workload: %s" % (obs.handler_exc or "")[-700:]})
        if obs.spin and not any("spin" in f["sig"] for f in got):
            got.append({"clause": "spin", "sig": "%s.spin" % mod.ID, "detail": str(obs.spin)})
        for f in got:
            f["backend"] = be
            findings.append(f)
    return findings, obs_list


def run_shard(pid, tier, seed, shard, nshards, budget_s, out_path, only_hash=None):
    mod = load(pid)
    rng = random.Random(seed * 1000003 + 17)
    tally = Tally()
    t0 = time.time()
    res = {
        "evaluations": 0, "cases": 0, "nontrivial_hashes": [], "violations": [], "samples": [],
        "truncated": False, "errors": [],
    }
    nontriv = set()
    run_one = getattr(mod, "run_one", None)
    i = -1
    for case in mod.gen(rng, tier):
        i += 1
        if i % nshards != shard:
            continue
        if time.time() - t0 > budget_s:
            res["truncated"] = True
            break
        h = codec.case_hash(case)
        if only_hash and h != only_hash:
            continue
        tally.families[case.get("family", "?")] += 1
        try:
            if run_one is not None:
                findings, obs_list = run_one(case, tally)
            else:
                findings, obs_list = default_run_one(mod, case, tally)
        except Exception:
            res["errors"].append(traceback.format_exc()[-1500:])
            tally.inconclusive["harness-exception"] += 1
            continue
        res["cases"] += 1
        res["evaluations"] += max(1, len(obs_list))
        nt = getattr(mod, "nontrivial", None)
        try:
            if nt is None or any(nt(case, o) for o in obs_list):
                nontriv.add(h)
        except Exception:
            res["errors"].append(traceback.format_exc()[-1500:])
        if len(res["samples"]) < 2 and (i // nshards) % 7 == 0:
            res["samples"].append(codec.enc(case))
        for f in findings:
            if len(res["violations"]) < 400:
                f["case_hash"] = h
                f["case"] = codec.enc_full(case)
                res["violations"].append(f)
            else:
                tally.notes["violations-dropped"] += 1
    res["nontrivial_hashes"] = sorted(nontriv)
    res["clauses"] = dict(tally.clauses)
    res["events"] = dict(tally.events)
    res["families"] = dict(tally.families)
    res["interleavings"] = {k: len(v) for k, v in tally.interleavings.items()}
    res["notes"] = dict(tally.notes)
    res["inconclusive"] = dict(tally.inconclusive)
    res["wall_s"] = time.time() - t0
    with open(out_path, "w") as f:
        json.dump(res, f)


def _known():
    p = os.path.join(VERIF, "known_findings.json")
    if not os.path.exists(p):
        return []
    return json.load(open(p))["findings"]


def main_check(pid, tier, seed, replay=None):
    import tempfile

    mod = load(pid)
    t0 = time.time()
    budget = getattr(mod, "BUDGET", {"quick": 40, "thorough": 600})[tier]
    env = dict(os.environ)
    src = os.environ.get("HYPERCORN_SRC", "/repo/src")
    env["PYTHONPATH"] = VERIF + os.pathsep + src
    env["PYTHONDONTWRITEBYTECODE"] = "1"
    env["PYTHONHASHSEED"] = "0"
    env["HYPERCORN_VERIF"] = "1"
    nshards = getattr(mod, "SHARDS", NSHARDS)
    tmpd = tempfile.mkdtemp(prefix="hv-")
    procs = []
    for s in range(nshards):
        outp = os.path.join(tmpd, "shard%d.json" % s)
        cmd = [sys.executable, "-X", "faulthandler", "-m", "hv.shard", pid, tier, str(seed), str(s), str(nshards),
               str(budget), outp]
        procs.append((s, outp, subprocess.Popen(cmd, env=env, cwd=VERIF, stdout=subprocess.PIPE,
                                                stderr=subprocess.STDOUT)))
    merged = {
        "evaluations": 0, "cases": 0, "nontrivial": set(), "violations": [], "samples": [],
        "clauses": Counter(), "events": Counter(), "families": Counter(), "interleavings": Counter(),
        "notes": Counter(), "inconclusive": Counter(), "truncated": 0, "errors": [], "shard_fail": [],
    }
    deadline = t0 + budget * 3 + 120
    for s, outp, p in procs:
        try:
            out, _ = p.communicate(timeout=max(5, deadline - time.time()))
        except subprocess.TimeoutExpired:
            p.kill()
            out, _ = p.communicate()
            merged["shard_fail"].append("shard %d: wall-clock watchdog" % s)
            merged["inconclusive"]["watchdog"] += 1
            continue
        if p.returncode != 0 or not os.path.exists(outp):
            merged["shard_fail"].append("shard %d: exit %s: %s" % (s, p.returncode, out.decode(errors="replace")[-800:]))
            continue
        r = json.load(open(outp))
        merged["evaluations"] += r["evaluations"]
        merged["cases"] += r["cases"]
        merged["nontrivial"].update(r["nontrivial_hashes"])
        merged["violations"].extend(r["violations"])
        if len(merged["samples"]) < 3:
            merged["samples"].extend(r["samples"][: 3 - len(merged["samples"])])
        for k in ("clauses", "events", "families", "interleavings", "notes", "inconclusive"):
            merged[k].update(r[k])
        merged["truncated"] += 1 if r["truncated"] else 0
        merged["errors"].extend(r["errors"][:2])
    import shutil

    shutil.rmtree(tmpd, ignore_errors=True)
    return finish(mod, pid, tier, seed, merged, time.time() - t0)


def finish(mod, pid, tier, seed, merged, wall):
    known = [k for k in _known() if k["property"] == pid]
    open_keys = {k["key"]: k for k in known if k.get("status") == "open"}
    kf_counts = Counter()
    new = []
    for v in merged["violations"]:
        if v["sig"] in open_keys:
            kf_counts[v["sig"]] += 1
        else:
            new.append(v)
    evdir = os.environ.get("HV_EVIDENCE_DIR") or os.path.join(VERIF, "evidence")  # redirected by the mutant self-test only
    os.makedirs(os.path.join(evdir, "replays"), exist_ok=True)
    lines = []
    seen_sig = Counter()
    replay_paths = []
    for v in new:
        seen_sig[v["sig"]] += 1
        if seen_sig[v["sig"]] > 3:
            continue
        rp = os.path.join(os.path.relpath(evdir, VERIF), "replays", "%s-%s-%s.json" % (pid, v["case_hash"], v.get("backend", "x")))
        with open(os.path.join(VERIF, rp), "w") as f:
            json.dump({"property": pid, "sig": v["sig"], "clause": v["clause"], "backend": v.get("backend"),
                       "detail": v["detail"], "case": v["case"], "seed": seed, "tier": tier}, f, indent=1)
        replay_paths.append(rp)
        lines.append("VIOLATION property=%s replay=%s sig=%s backend=%s :: %s" % (
            pid, rp, v["sig"], v.get("backend"), str(v["detail"])[:300]))
    for key in sorted(open_keys):
        print("KNOWN-FINDING: property=%s %s [%s] (%d cases this run)" % (pid, open_keys[key]["what"], key, kf_counts.get(key, 0)))
    min_dec = getattr(mod, "MIN_DECISIVE", {})
    undecided = [c for c, n in min_dec.items() if merged["clauses"].get(c, 0) < n]
    status = "held"
    if new:
        status = "violated"
    elif merged["shard_fail"] and merged["cases"] == 0:
        status = "inconclusive"
    elif undecided:
        status = "inconclusive"
    cov = {
        "evaluations": merged["evaluations"],
        "distinct_nontrivial": len(merged["nontrivial"]),
        "rule": getattr(mod, "RULE", ""),
        "samples": merged["samples"],
        "cases": merged["cases"],
        "oracle_clause_evaluations": dict(merged["clauses"]),
        "events_observed": dict(merged["events"]),
        "case_families": dict(merged["families"]),
        "distinct_interleavings_per_family": dict(merged["interleavings"]),
        "notes": dict(merged["notes"]),
        "inconclusive": dict(merged["inconclusive"]),
        "shards_truncated_by_time_budget": merged["truncated"],
        "shard_failures": merged["shard_fail"][:5],
        "harness_errors": merged["errors"][:3],
        "known_findings_matched": dict(kf_counts),
        "new_violation_signatures": dict(seen_sig),
        "undecided_clauses": undecided,
        "status": status,
        "exhaustive": False,
    }
    ev = {
        "property_id": pid, "tier": tier, "seed": seed, "level": mod.LEVEL, "coverage": cov,
        "assumptions": list(getattr(mod, "ASSUMPTIONS", [])), "wall_s": round(wall, 2),
        "violations": len(new),
    }
    with open(os.path.join(evdir, "%s.json" % pid), "w") as f:
        json.dump(ev, f, indent=1, sort_keys=True)
    print("%s tier=%s seed=%d cases=%d evaluations=%d distinct_nontrivial=%d wall=%.1fs status=%s" % (
        pid, tier, seed, merged["cases"], merged["evaluations"], len(merged["nontrivial"]), wall, status))
    print("  clauses: " + ", ".join("%s=%d" % kv for kv in sorted(merged["clauses"].items())))
    if merged["inconclusive"]:
        print("  inconclusive: " + ", ".join("%s=%d" % kv for kv in sorted(merged["inconclusive"].items())))
    for sf in merged["shard_fail"][:5]:
        print("  SHARD-FAILURE " + sf[:600])
    for e in merged["errors"][:2]:
        print("  HARNESS-ERROR " + e[-600:])
    for ln in lines:
        print(ln)
    if new:
        return 1
    if status == "inconclusive":
        print("INCONCLUSIVE property=%s undecided=%s shard_failures=%d" % (pid, undecided, len(merged["shard_fail"])))
        return 2
    return 0


def replay(pid, path):
    """Re-execute one recorded case in this process and print the findings."""
    mod = load(pid)
    rec = json.load(open(path))
    case = codec.dec(rec["case"])
    tally = Tally()
    run_one = getattr(mod, "run_one", None)
    if rec.get("backend") and "backends" in case:
        case["backends"] = [rec["backend"]]
    if run_one is not None:
        findings, _ = run_one(case, tally)
    else:
        findings, _ = default_run_one(mod, case, tally)
    known = {k["key"] for k in _known() if k["property"] == pid and k.get("status") == "open"}
    rc = 0
    for f in findings:
        tag = "KNOWN-FINDING:" if f["sig"] in known else "VIOLATION"
        if tag == "VIOLATION":
            rc = 1
            print("VIOLATION property=%s replay=%s sig=%s :: %s" % (pid, path, f["sig"], str(f["detail"])[:500]))
        else:
            print("KNOWN-FINDING: property=%s [%s] %s" % (pid, f["sig"], str(f["detail"])[:300]))
    if not findings:
        print("replay: no finding reproduced")
    return rc
