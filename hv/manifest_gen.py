"""Regenerates MANIFEST.json from the property modules that exist (python -m hv.manifest_gen)."""
import importlib
import json
import os

VERIF = os.path.dirname(os.path.dirname(os.path.abspath(__file__)))
ALL = ["C%02d" % i for i in range(1, 21)]
BASE = ("cd /repo && /venv/bin/python -m pytest -ra -q -p no:cacheprovider --timeout=900 "
        "--continue-on-collection-errors")


def main():
    checks, na = [], []
    for pid in ALL:
        try:
            mod = importlib.import_module("hv.props." + pid.lower())
        except ModuleNotFoundError:
            na.append({"property_id": pid, "reason": "check not built yet (framework in progress); no technique switch intended"})
            continue
        checks.append({
            "property_id": pid,
            "quick_cmd": "./bin/check %s --tier quick" % pid,
            "thorough_cmd": "./bin/check %s --tier thorough" % pid,
            "evidence_file": "evidence/%s.json" % pid,
            "replay_cmd_template": "./bin/check %s --replay {path}" % pid,
            "engine": "hv",
            "level_claimed": {"category": mod.LEVEL, "text": mod.LEVEL_TEXT, "design_ref": "DESIGN.md §4 " + pid},
            "level_note": mod.LEVEL_NOTE,
            "technique": mod.TECHNIQUE,
        })
    hooks_commits = []
    hp = os.path.join(VERIF, "hooks_commits.txt")
    if os.path.exists(hp):
        hooks_commits = [l.strip() for l in open(hp) if l.strip()]
    man = {
        "version": 1,
        "setup_cmd": "./bin/setup",
        "hooks": {
            "guard": "HYPERCORN_VERIF",
            "enable": "none needed: all instrumentation is installed from the harness process (wrappers around the "
                      "ASGI callable, the transport/stream and the loggers); checks import /repo/src directly via PYTHONPATH",
            "baseline_off_cmd": BASE,
            "source_commits": hooks_commits,
            "add_only": True,
        },
        "engines": [{
            "name": "hv", "path": "hv/", "serves_properties": [c["property_id"] for c in checks],
            "kind_free_text": "runtime monitoring: real hypercorn connection/serve code driven by seeded hostile workloads on a "
                              "virtual-time closed world (asyncio + trio) and on loopback sockets; history oracles, reference models, "
                              "quiescence monitors, python-level sanitizers",
        }],
        "checks": checks,
        "not_applicable": na,
        "notes": "exit 0 held / 1 VIOLATION / 2 INCONCLUSIVE (deciding monitor observed nothing). Known findings: known_findings.json.",
    }
    with open(os.path.join(VERIF, "MANIFEST.json"), "w") as f:
        json.dump(man, f, indent=1)
    print("checks:", [c["property_id"] for c in checks], "na:", [n["property_id"] for n in na])


if __name__ == "__main__":
    main()
