#!/venv/bin/python
"""Re-create a seeded change / own mutant against the current /repo tree.

usage: rebase_patch.py <seeded-name | mutants/<file>.diff> <note> <file> <<< JSON list of [old, new] replacements on stdin
       (several files: pass file as "-" and give [file, old, new] triples)

A scratch copy of /repo/src is made under /tmp, the replacements are applied (each old text must occur exactly once), the unified
diff against the pristine copy becomes the new patch (leading "# " comment lines of the old patch are kept), the scratch copy is
removed.  For a seeded change the note is appended to meta.json ("note"); nothing else of the record changes.
"""
import json
import os
import shutil
import subprocess
import sys
import tempfile


def main():
    name, note, file_ = sys.argv[1:4]
    reps = json.load(sys.stdin)
    tmp = tempfile.mkdtemp(prefix="hv-rebase-")
    try:
        for side in ("a", "b"):
            os.makedirs(os.path.join(tmp, side))
            shutil.copytree("/repo/src", os.path.join(tmp, side, "src"))
        for r in reps:
            f, old, new = (file_, r[0], r[1]) if file_ != "-" else r
            p = os.path.join(tmp, "b", f)
            s = open(p).read()
            if s.count(old) != 1:
                sys.exit("replacement text occurs %d times in %s: %r" % (s.count(old), f, old[:80]))
            open(p, "w").write(s.replace(old, new))
        r = subprocess.run(["diff", "-ruN", "a/src", "b/src"], cwd=tmp, capture_output=True, text=True)
        body = r.stdout
        if not body.strip():
            sys.exit("empty diff")
        # compiles?
        for r_ in reps:
            f = file_ if file_ != "-" else r_[0]
            compile(open(os.path.join(tmp, "b", f)).read(), f, "exec")
        if name.startswith("mutants/"):
            target = os.path.join("/verif/selftest", name)
        else:
            target = os.path.join("/verif/seeded", name, "patch.diff")
        head = "".join(l for l in open(target) if l.startswith("# ")) if os.path.exists(target) else ""
        open(target, "w").write(head + body)
        if not name.startswith("mutants/"):
            mp = os.path.join("/verif/seeded", name, "meta.json")
            m = json.load(open(mp))
            m["note"] = (m.get("note", "") + "; " if m.get("note") else "") + note
            json.dump(m, open(mp, "w"), indent=1)
        print("rebased", name, len(body.splitlines()), "lines")
    finally:
        shutil.rmtree(tmp, ignore_errors=True)


if __name__ == "__main__":
    main()
