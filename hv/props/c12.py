"""C12 — invalid application messages are rejected without corrupting the wire."""
from __future__ import annotations

import itertools
import re

from ..wire import h1, ws
from ..wire.h2raw import FrameBuilder, FrameReader, client_preface

ID = "C12"
LEVEL = "exploration"
BUDGET = {"quick": 45, "thorough": 900}
TECHNIQUE = ("bounded-exhaustive enumeration of ASGI send sequences against a reference automaton of the ASGI HTTP/WebSocket "
             "specification; per-send wire-delta monitor; strict HTTP/1 parser and hpack-decoding HTTP/2 reader for the "
             "valid-prefix / single-final-head / no CR-LF-NUL clauses")
LEVEL_TEXT = ("All sequences up to length 3 (thorough: 4) over ~15 message templates per protocol, plus one of ~20 invalid "
              "payloads substituted at each position, for HTTP/1.1, HTTP/2 and WebSocket over both carriers, on both workers. "
              "The raise clause is applied to exactly the classes the statement names; everything else is judged by the wire clauses.")
LEVEL_NOTE = "Trusted: hv/wire parsers, hpack decoder; the client is passive so bytes written during a send() are caused by it."
RULE = ("sequence enumeration x payload substitution; non-trivial = at least one message of the sequence was classified by the "
        "automaton as invalid or carried an invalid payload; distinct = distinct case hash")
ASSUMPTIONS = ["which exception type is raised is not demanded",
               "sequences the ASGI text forbids but the statement does not list are judged by the wire clauses only"]
MIN_DECISIVE = {"raise": 100, "accept-valid": 100, "wire-prefix": 100, "ctl-bytes": 50}

S = {"type": "http.response.start", "status": 200, "headers": [(b"x-a", b"1")]}
S2 = {"type": "http.response.start", "status": 404, "headers": [(b"x-second", b"2")]}
S_TR = {"type": "http.response.start", "status": 200, "headers": [], "trailers": True}
B = {"type": "http.response.body", "body": b"abc", "more_body": True}
BF = {"type": "http.response.body", "body": b"xyz", "more_body": False}
BE = {"type": "http.response.body", "body": b"", "more_body": False}
BEM = {"type": "http.response.body", "body": b"", "more_body": True}  # nothing to write - a body message all the same
T = {"type": "http.response.trailers", "headers": [(b"x-t", b"1")], "more_trailers": False}
TM = {"type": "http.response.trailers", "headers": [(b"x-t0", b"0")], "more_trailers": True}
P = {"type": "http.response.push", "path": "/pushed", "headers": [(b"x-p", b"1")]}
EH = {"type": "http.response.early_hint", "links": [b"</style.css>; rel=preload"]}
U = {"type": "not.a.real.type"}
EH_LINKS = {"eh-crlf": [b"</a.css>; rel=preload\r\nx-evil: 2"], "eh-nul": [b"</a\x00b>"], "eh-int": [5], "eh-lf-second": [b"</ok>", b"</b>\nx-evil: 3"]}
HTTP_ALPHABET = [("S", S), ("S2", S2), ("S_TR", S_TR), ("B", B), ("BF", BF), ("BE", BE), ("T", T), ("P", P), ("EH", EH), ("U", U), ("TM", TM), ("BEM", BEM)]

# invalid payloads (for the start message unless noted)
BAD_HEADERS = [
    ("val-str", [(b"x-a", "str")]), ("name-str", [("x-a", b"1")]), ("val-int", [(b"x-a", 5)]), ("val-none", [(b"x-a", None)]),
    ("pseudo", [(b":status", b"500")]), ("pseudo-path", [(b":path", b"/x")]),
    ("crlf-val", [(b"x-a", b"1\r\nx-evil: 2")]), ("lf-val", [(b"x-a", b"1\nx-evil: 2")]), ("cr-val", [(b"x-a", b"1\rx")]),
    ("nul-val", [(b"x-a", b"a\x00b")]), ("crlf-name", [(b"x-a\r\nx-evil", b"1")]), ("nul-name", [(b"x\x00a", b"1")]),
    ("crlf-val-memoryview", [(b"x-a", memoryview(b"1\r\nx-evil: 2"))]), ("nul-val-bytearray", [(b"x-a", bytearray(b"a\x00b"))]),
    ("crlf-name-memoryview", [(memoryview(b"x-a\r\nx-evil"), b"1")]),
    ("pseudo-leading-space", [(b" :status", b"500")]), ("pseudo-leading-tab", [(b"\t:path", b"/x")]),
]
# payloads the statement does not name, which one protocol library may refuse while the other does not: wire clauses only
EXOTIC_HEADERS = [("space-in-name", [(b"bad name", b"1")]), ("colon-in-name", [(b"x:a", b"1")]), ("upper-name", [(b"X-Upper", b"1")]),
                  ("nonascii-val", [(b"x-a", b"caf\xc3\xa9")]), ("empty-name", [(b"", b"1")]),
                  # headers that belong to one connection of one protocol: HTTP/2 has no place for them
                  ("te-gzip", [(b"te", b"gzip")]), ("connection-keep-alive", [(b"connection", b"keep-alive")]),
                  ("transfer-encoding-chunked", [(b"transfer-encoding", b"chunked")]), ("upgrade-h2c", [(b"upgrade", b"h2c")]),
                  # (in a push: a Host that disagrees with the promised request's :authority)
                  ("host-other", [(b"host", b"other.example")])]
OK_HEADERS = [("bytearray", [(bytearray(b"x-a"), bytearray(b"1"))]), ("memoryview", [(b"x-a", memoryview(b"1"))]),
              ("long", [(b"x-a", b"v" * 5000)]), ("empty-val", [(b"x-a", b"")])]

WS_ACCEPT = {"type": "websocket.accept"}
WS_TEXT = {"type": "websocket.send", "text": "hello"}
WS_BYTES = {"type": "websocket.send", "bytes": b"\x01\x02"}
WS_BADTEXT = {"type": "websocket.send", "text": b"not-a-str"}
WS_CLOSE = {"type": "websocket.close", "code": 1000}
WS_HS = {"type": "websocket.http.response.start", "status": 401, "headers": [(b"x-w", b"1")]}
WS_HB = {"type": "websocket.http.response.body", "body": b"no", "more_body": False}
WS_HBM = {"type": "websocket.http.response.body", "body": b"mo", "more_body": True}
WS_HB_STR = {"type": "websocket.http.response.body", "body": "text, not bytes", "more_body": False}
WS_HB_INT = {"type": "websocket.http.response.body", "body": 5, "more_body": False}
# the chosen subprotocol becomes a response header value: it is application-supplied data like any other header
WS_ACCEPT_SUB = {"type": "websocket.accept", "subprotocol": "chat"}
WS_ACCEPT_SUBCTL = {"type": "websocket.accept", "subprotocol": "chat\r\nx-injected: yes"}
WS_ALPHABET = [("A", WS_ACCEPT), ("A_SUB", WS_ACCEPT_SUB), ("A_SUBCTL", WS_ACCEPT_SUBCTL), ("TX", WS_TEXT), ("BY", WS_BYTES), ("BADTX", WS_BADTEXT), ("C", WS_CLOSE), ("HS", WS_HS),
               ("HB", WS_HB), ("HBM", WS_HBM), ("U", U), ("HB_STR", WS_HB_STR), ("HB_INT", WS_HB_INT)]


def _script(msgs):
    sc = [["recv_until_end"]]
    for m in msgs:
        sc.append(["try_send", m])
    sc.append(["linger", 0.5])
    return sc


def _ws_script(msgs):
    sc = [["recv"]]
    for m in msgs:
        sc.append(["try_send", m])
    sc.append(["linger", 0.5])
    return sc


def gen(rng, tier):
    maxlen = 3 if tier == "quick" else 4
    n = 0
    protos = ["h1", "h2"]
    seqs = []
    for L in range(1, maxlen + 1):
        for combo in itertools.product(range(len(HTTP_ALPHABET)), repeat=L):
            seqs.append(("http", combo, None))
    # payload substitutions: put each bad/ok header list into the first start message of a few base sequences
    bases = [(0,), (0, 4), (3, 0, 4), (0, 3, 4), (7,), (0, 7, 4), (6,)]
    for base in bases:
        for name, hdrs in BAD_HEADERS + OK_HEADERS + EXOTIC_HEADERS:
            seqs.append(("http", base, (name, hdrs)))
    seqs.append(("http", (7,), ("push-path-bytes", None)))
    seqs.append(("http", (0, 7, 4), ("push-path-bytes", None)))
    # ... and into the headers of a push that follows the response start (a new header ahead of the bad one: whatever the header
    # compression has taken in of a block that is then refused is missing at the client - the probe's headers would show it)
    for name, hdrs in BAD_HEADERS + EXOTIC_HEADERS:
        seqs.append(("http", (0, 7, 4), ("push:" + name, [(b"x-new-%d" % len(seqs), b"1")] + list(hdrs))))
        seqs.append(("http", (0, 7, 7, 4), ("push:" + name, [(b"x-new-%d" % len(seqs), b"1")] + list(hdrs))))
    # ... and into the trailers of a response that announced them (towards clients that take trailers and clients that do not)
    for name, hdrs in BAD_HEADERS:
        seqs.append(("http", (2, 4, 6), ("trailers:" + name, hdrs)))
        seqs.append(("http", (2, 3, 4, 6), ("trailers:" + name, hdrs)))
    # what else of the application's ends up in a header block: the links of an early hint (link header values), the path of a push (:path)
    for nm_ in EH_LINKS:
        seqs.append(("http", (8,), (nm_, None)))
        seqs.append(("http", (8, 0, 4), (nm_, None)))
    seqs.append(("http", (7,), ("push-path-crlf", None)))
    seqs.append(("http", (0, 7, 4), ("push-path-crlf", None)))
    seqs.append(("http", (7,), ("push-path-nonascii", None)))
    seqs.append(("http", (0, 7, 4), ("push-path-nonascii", None)))
    # a response start that is no final response head (1xx belongs to the early-hint message); a body that is not bytes
    for base in ((0,), (0, 4), (0, 3, 4)):
        seqs.append(("http", base, ("status-103", None)))
        seqs.append(("http", base, ("status-100", None)))
    for base in ((0, 3, 4), (0, 4), (3,)):
        seqs.append(("http", base, ("body-int", None)))
        seqs.append(("http", base, ("body-list", None)))
    wseqs = []
    for L in range(1, maxlen + 1):
        for combo in itertools.product(range(len(WS_ALPHABET)), repeat=L):
            wseqs.append(("ws", combo, None))
    ia, itx, ihs, ihb = [[k for k, (nm, _) in enumerate(WS_ALPHABET) if nm == x][0] for x in ("A", "TX", "HS", "HB")]
    for name, hdrs in BAD_HEADERS + OK_HEADERS + EXOTIC_HEADERS:
        wseqs.append(("ws", (ihs, ihb), (name, hdrs)))      # denial response headers
        wseqs.append(("ws", (ia, itx), ("accept:" + name, hdrs)))  # accept headers, then a frame
        wseqs.append(("ws", (ia, itx, ia, itx), ("accept:" + name, hdrs)))
    rng.shuffle(seqs)
    rng.shuffle(wseqs)
    if tier == "quick":
        seqs = seqs[:1500]
        wseqs = wseqs[:900]
    for kind, combo, sub in seqs:
        for proto in protos:
            n += 1
            msgs = []
            done_sub = False
            for idx in combo:
                nm, m = HTTP_ALPHABET[idx]
                m = dict(m)
                if sub is not None and not done_sub:
                    if sub[0] == "push-path-bytes" and nm == "P":
                        m["path"] = b"/bytes-path"
                        done_sub = True
                    elif sub[0] == "push-path-crlf" and nm == "P":
                        m["path"] = "/p\r\nx-evil: 2"
                        done_sub = True
                    elif sub[0] == "push-path-nonascii" and nm == "P":
                        m["path"] = "/caf\xe9"
                        done_sub = True
                    elif sub[0] in ("status-103", "status-100") and nm == "S":
                        m["status"] = int(sub[0][-3:])
                        done_sub = True
                    elif sub[0] in ("body-int", "body-list") and nm in ("B", "BF"):
                        m["body"] = 5 if sub[0] == "body-int" else [104, 105]
                        done_sub = True
                    elif sub[0] in ("push-path-nonascii", "status-103", "status-100", "body-int", "body-list"):
                        pass
                    elif sub[0] in EH_LINKS and nm == "EH":
                        m["links"] = EH_LINKS[sub[0]]
                        done_sub = True
                    elif sub[0] in EH_LINKS or sub[0] == "push-path-crlf":
                        pass
                    elif sub[0].startswith("trailers:"):
                        if nm == "T":
                            m["headers"] = sub[1]
                            done_sub = True
                    elif sub[0].startswith("push:"):
                        if nm == "P":
                            m["headers"] = sub[1]
                            done_sub = True
                    elif sub[0] != "push-path-bytes" and sub[1] is not None and nm in ("S", "S2", "S_TR", "T", "P"):
                        m["headers"] = sub[1]
                        done_sub = True
                msgs.append((nm, m))
            yield _http_case(rng, n, proto, msgs, sub)
    for kind, combo, sub in wseqs:
        for proto in protos:
            n += 1
            msgs = []
            for idx in combo:
                nm, m = WS_ALPHABET[idx]
                m = dict(m)
                if sub is not None:
                    if sub[0].startswith("accept:") and nm == "A":
                        m["headers"] = sub[1]
                    elif not sub[0].startswith("accept:") and nm == "HS":
                        m["headers"] = sub[1]
                msgs.append((nm, m))
            yield _ws_case(rng, n, proto, msgs, sub)


PROBE_APP = [["recv_until_end"], ["respond", 200, [(b"x-probe", b"1")], b"probe"]]


def _probe(fb):
    """A later request on the same HTTP/2 connection: whatever the application did to its own stream, the connection's shared
    state (HPACK, flow control) must still let an independent client decode the next response."""
    return [["feed", fb.headers(3, [(b":method", b"GET"), (b":scheme", b"http"), (b":path", b"/probe"), (b":authority", b"h")], end_stream=True)],
            ["settle"]]


def _http_case(rng, n, proto, msgs, sub):
    te = rng.random() < 0.5
    script = _script([m for _, m in msgs])
    truth = {"kind": "http", "proto": proto, "seq": [nm for nm, _ in msgs], "msgs": [m for _, m in msgs], "sub": sub[0] if sub else None, "te": te}
    if proto == "h1":
        req = b"GET /t%d HTTP/1.1\r\nHost: h\r\n%s\r\n" % (n, b"te: trailers\r\n" if te else b"")
        return {"family": "http.h1", "backends": ["asyncio", "trio"], "config": {"keep_alive_timeout": 5000}, "conn": {},
                "apps": {"default": script}, "client": [["feed", req], ["settle"]], "truth": truth,
                "sched": {"seed": rng.randrange(1 << 30)}, "horizon": 20.0}
    fb = FrameBuilder()
    hd = [(b":method", b"GET"), (b":scheme", b"http"), (b":path", b"/t%d" % n), (b":authority", b"h")]
    if te:
        hd.append((b"te", b"trailers"))
    blob = client_preface(fb, {}) + fb.headers(1, hd, end_stream=True)
    return {"family": "http.h2", "backends": ["asyncio", "trio"], "config": {"keep_alive_timeout": 5000}, "conn": {},
            "apps": {"default": script, "by_path": {"/probe": PROBE_APP}}, "client": [["feed", blob], ["settle"]] + _probe(fb),
            "reactor": {"kind": "h2", "credit": "auto"},
            "truth": truth, "sched": {"seed": rng.randrange(1 << 30)}, "horizon": 20.0}


def _ws_case(rng, n, proto, msgs, sub):
    script = _ws_script([m for _, m in msgs])
    truth = {"kind": "ws", "proto": proto, "seq": [nm for nm, _ in msgs], "msgs": [m for _, m in msgs], "sub": sub[0] if sub else None}
    if proto == "h1":
        return {"family": "ws.h1", "backends": ["asyncio", "trio"], "config": {"keep_alive_timeout": 5000}, "conn": {},
                "apps": {"default": script, "websocket": script}, "client": [["feed", ws.handshake(path=b"/t%d" % n)], ["settle"]],
                "reactor": {"kind": "ws", "echo_close": False}, "truth": truth,
                "sched": {"seed": rng.randrange(1 << 30)}, "horizon": 20.0}
    fb = FrameBuilder()
    hdrs = [(b":method", b"CONNECT"), (b":protocol", b"websocket"), (b":scheme", b"http"), (b":path", b"/t%d" % n),
            (b":authority", b"h"), (b"sec-websocket-version", b"13")]
    blob = client_preface(fb, {}) + fb.headers(1, hdrs, end_stream=False)
    return {"family": "ws.h2", "backends": ["asyncio", "trio"], "config": {"keep_alive_timeout": 5000}, "conn": {},
            "apps": {"default": script, "websocket": script, "by_path": {"/probe": PROBE_APP}},
            "client": [["feed", blob], ["settle"]] + _probe(fb),
            "reactor": {"kind": "h2", "credit": "auto"}, "truth": truth,
            "sched": {"seed": rng.randrange(1 << 30)}, "horizon": 20.0}


def _ctl(b):
    return b"\r" in b or b"\n" in b or b"\x00" in b


# ---- reference automata ----------------------------------------------------------------------

def _hdrs_ok(headers):
    try:
        for name, value in headers:
            for x in (name, value):
                if not isinstance(x, (bytes, bytearray, memoryview)):
                    return False
            if bytes(name).strip()[:1] == b":":
                return False  # a pseudo-header, also when padded with the optional whitespace the server trims
    except Exception:
        return False
    return True


def _hdrs_ctl(headers):
    try:
        return any(_ctl(bytes(x)) for pair in headers for x in pair if isinstance(x, (bytes, bytearray, memoryview)))
    except Exception:
        return False


def _hdrs_exotic(headers):
    if any(not isinstance(x, bytes) for pair in headers for x in pair):
        return True
    for name, value in headers:
        n = bytes(name)
        if n == b"" or n != n.lower() or b" " in n.strip() or b":" in n.strip()[1:] or any(c > 126 for c in n + bytes(value)):
            return True
        if n.strip().lower() in (b"te", b"connection", b"transfer-encoding", b"upgrade", b"keep-alive", b"proxy-connection", b"host"):
            return True  # headers of one connection of one protocol: HTTP/2 may refuse or drop them (wire clauses only); a Host in a
                         # response or a push is nothing the statement speaks of either
    return False


def http_automaton(msgs, proto, te, final_state=False):
    """Per message: 'valid' | 'invalid' (statement's raise classes) | 'unjudged'."""
    state = "REQUEST"
    trailers_flag = False
    out = []
    for m in msgs:
        t = m["type"]
        verdict = "unjudged"
        if state == "UNKNOWN":
            out.append("unjudged")
            continue
        if "headers" in m and _hdrs_ok(m.get("headers", [])) and (_hdrs_ctl(m.get("headers", [])) or _hdrs_exotic(m.get("headers", []))):
            # CR/LF/NUL: the statement only demands that it never reaches the wire (rejecting is fine, so is stripping);
            # bytearray/memoryview: neither clearly "bytes" nor clearly not - wire clauses only
            out.append("unjudged")
            state = "UNKNOWN"
            continue
        if state == "CLOSED":
            verdict = "invalid"  # anything after completion
        elif t == "not.a.real.type":
            verdict = "invalid"
        elif t == "http.response.start":
            if state == "REQUEST":
                if not (200 <= int(m.get("status", 200)) <= 999):
                    verdict = "invalid"  # not a final response head (informational responses have a message of their own)
                elif _hdrs_ok(m.get("headers", [])):
                    verdict = "valid"
                    state = "RESPONSE"
                    trailers_flag = bool(m.get("trailers"))
                else:
                    verdict = "invalid"
            else:
                verdict = "invalid"  # second response start
        elif t == "http.response.body" and not isinstance(m.get("body", b""), (bytes, bytearray, memoryview)):
            verdict = "invalid" if state in ("REQUEST", "RESPONSE") else "unjudged"  # a body that is not bytes
        elif t == "http.response.body":
            if state == "REQUEST":
                verdict = "invalid"  # body before the response start
            elif state == "RESPONSE":
                verdict = "valid"
                if not m.get("more_body", False):
                    state = "TRAILERS" if trailers_flag else "CLOSED"
            else:
                verdict = "unjudged"
        elif t == "http.response.push":
            if proto == "h2":
                if not isinstance(m.get("path"), str) or not _hdrs_ok(m.get("headers", [])) or _ctl(m["path"].encode("latin-1", "replace")) or not m["path"].isascii():
                    verdict = "invalid"
                else:
                    verdict = "unjudged" if state not in ("REQUEST", "RESPONSE") else "valid"
            else:
                verdict = "unjudged"
        elif t == "http.response.trailers":
            if not _hdrs_ok(m.get("headers", [])) and proto == "h2" and (state == "TRAILERS" or (te and state == "REQUEST")):
                # (whether or not this client takes trailers: the message itself is invalid)
                verdict = "invalid"
            else:
                verdict = "unjudged"
                # before any start: a trailers-only response, possible only towards a client that takes trailers (otherwise there is no
                # response to end and the message is refused, which leaves the later ones unjudged)
                if proto == "h2" and (state == "TRAILERS" or (state == "REQUEST" and te)) and not m.get("more_trailers", False):
                    state = "CLOSED"
        elif t == "http.response.early_hint":
            verdict = "unjudged"
            if proto == "h2" and state == "REQUEST" and any(not isinstance(l_, (bytes, bytearray, memoryview)) or _ctl(bytes(l_)) for l_ in m.get("links", [])):
                verdict = "invalid"  # a link is a header value: not bytes, or CR/LF/NUL in it"
        if verdict == "unjudged" and t not in ("http.response.early_hint",):
            state = "UNKNOWN" if state != "CLOSED" else state
        out.append(verdict)
    if final_state:
        return state
    return out


def ws_automaton(msgs):
    state = "HANDSHAKE"
    out = []
    for m in msgs:
        t = m["type"]
        verdict = "unjudged"
        if state == "UNKNOWN":
            out.append("unjudged")
            continue
        if "headers" in m and _hdrs_ok(m.get("headers", [])) and (_hdrs_ctl(m.get("headers", [])) or _hdrs_exotic(m.get("headers", []))):
            out.append("unjudged")
            state = "UNKNOWN"
            continue
        if t == "not.a.real.type":
            verdict = "invalid" if state not in ("CLOSED_BY_PEER",) else "unjudged"
        elif t == "websocket.accept":
            if m.get("subprotocol") is not None:
                verdict = "unjudged"  # C11 judges the subprotocol rule; here only the wire clauses apply
            elif state == "HANDSHAKE":
                if _hdrs_ok(m.get("headers", [])):
                    verdict = "valid"
                    state = "CONNECTED"
                else:
                    verdict = "invalid"
            elif state == "HS_PENDING":
                verdict = "invalid"  # the application has begun a response of its own: accepting is no longer possible
            else:
                verdict = "unjudged"
        elif t == "websocket.send":
            if state == "HANDSHAKE":
                verdict = "invalid"  # websocket.send before accept
            elif state == "CONNECTED":
                if m.get("bytes") is None and not isinstance(m.get("text"), str):
                    verdict = "invalid"  # non-str text frame
                else:
                    verdict = "valid"
            else:
                verdict = "unjudged"
        elif t == "websocket.close":
            if state == "HANDSHAKE":
                state = "HTTPCLOSED"
                verdict = "valid"
            elif state == "CONNECTED":
                state = "CLOSED"
                verdict = "valid"
            else:
                verdict = "unjudged"
        elif t == "websocket.http.response.start":
            if state == "HANDSHAKE":
                # header names or values that are not bytes, pseudo-headers: the message that carries them is the invalid one - the error
                # belongs to it, not to the (valid) body message that follows
                verdict = "invalid" if not _hdrs_ok(m.get("headers", [])) else "valid"
                state = "HS_PENDING" if verdict == "valid" else "UNKNOWN"
            elif state == "HS_PENDING":
                verdict = "invalid"  # "a second response start"
            else:
                verdict = "unjudged"
        elif t == "websocket.http.response.body" and not isinstance(m.get("body", b""), (bytes, bytearray, memoryview)):
            # a body that is not bytes (as for http.response.body): the message is refused as a whole - the response head that would go
            # out with the first body message stays where it is
            verdict = "invalid" if state in ("HS_PENDING", "RESPONSE") else "unjudged"
        elif t == "websocket.http.response.body":
            if state == "HS_PENDING":
                verdict = "valid"
                state = "RESPONSE" if m.get("more_body") else "HTTPCLOSED"
            elif state == "HS_PENDING_BAD":
                verdict = "invalid"  # headers that are not bytes / pseudo headers surface here
                state = "HS_PENDING_BAD"
            elif state == "RESPONSE":
                verdict = "valid"
                if not m.get("more_body"):
                    state = "HTTPCLOSED"
            else:
                verdict = "unjudged"
        if verdict == "unjudged":
            state = "UNKNOWN"
        out.append(verdict)
    return out


# ---- oracle --------------------------------------------------------------------------------------

def nontrivial(case, obs):
    t = case["truth"]
    v = http_automaton(t["msgs"], t["proto"], t.get("te")) if t["kind"] == "http" else ws_automaton(t["msgs"])
    return "invalid" in v or t["sub"] is not None


def _send_outcomes(obs, inst):
    """[(msg, 'ok'|'raised', bytes_written_during_the_call)] for the instance, in order."""
    res = []
    cur = None
    for e in obs.trace.events:
        if e[2] == "app" and e[4].get("inst") == inst:
            if e[3] == "send?":
                cur = [e[4]["msg"], None, 0]
            elif e[3] == "send." and cur is not None:
                cur[1] = "ok"
                res.append(tuple(cur))
                cur = None
            elif e[3] == "send!" and cur is not None:
                cur[1] = "raised:" + e[4].get("exc", "")
                res.append(tuple(cur))
                cur = None
        elif e[2] == "net" and e[3] in ("write", "write_held") and cur is not None:
            cur[2] += e[4]["n"]
    if cur is not None:
        cur[1] = "open"
        res.append(tuple(cur))
    return res


def check(case, obs, tally):
    out = []
    t = case["truth"]
    proto = t["proto"]
    if obs.handler == "exception":
        out.append({"clause": "wire-prefix", "sig": "C12.handler-crashed/%s/%s" % (t["kind"], proto),
                    "detail": "sequence %r (%s) crashed the connection handler: %s" % (t["seq"], t["sub"], (obs.handler_exc or "")[-500:])})
        return out
    starts = obs.app_events(kind="start")
    if not starts:
        tally.inconclusive["app-not-started"] += 1
        return out
    inst = starts[0][4]["inst"]
    outcomes = _send_outcomes(obs, inst)
    verdicts = http_automaton(t["msgs"], proto, t.get("te")) if t["kind"] == "http" else ws_automaton(t["msgs"])
    for i, (v, oc) in enumerate(zip(verdicts, outcomes)):
        nm = t["seq"][i]
        if v == "invalid":
            tally.clause("raise")
            what = "%s/%s" % (t["kind"], _class(t, i))
            if oc[1] == "ok":
                out.append({"clause": "raise", "sig": "C12.not-rejected/%s/%s" % (proto, what),
                            "detail": "message #%d %s of %r (%s) is invalid for the state but send() returned normally (%d bytes written)" % (
                                i, nm, t["seq"], t["sub"], oc[2])})
            elif oc[2] > 0:
                out.append({"clause": "raise", "sig": "C12.rejected-but-wrote/%s/%s" % (proto, what),
                            "detail": "message #%d %s of %r (%s) raised %s but %d bytes were written during the call" % (
                                i, nm, t["seq"], t["sub"], oc[1], oc[2])})
        elif v == "valid":
            tally.clause("accept-valid")
            if oc[1] != "ok":
                # a previous invalid message may legitimately have poisoned the protocol state (h11 error state)
                if "invalid" in verdicts[:i]:
                    tally.notes["valid-after-invalid-raised(not judged)"] += 1
                else:
                    out.append({"clause": "accept-valid", "sig": "C12.valid-rejected/%s/%s/%s" % (proto, t["kind"], nm),
                                "detail": "message #%d %s of %r (%s) is valid but send() %s" % (i, nm, t["seq"], t["sub"], oc[1])})
    # ---- wire clauses ---------------------------------------------------------------------------
    tally.clause("wire-prefix")
    heads = []  # decoded (name, value) pairs that reached the wire, from application-supplied messages
    if proto == "h1":
        data = obs.outbytes
        if t["kind"] == "ws":
            rx = obs.reactor
            if rx.head is not None and rx.status == 101 and rx.parser is not None and rx.parser.errors:
                out.append({"clause": "wire-prefix", "sig": "C12.wire/ws-frames-malformed", "detail": repr(rx.parser.errors[:3])})
            data = (rx.head or b"") if rx.status == 101 else obs.outbytes
        try:
            resps, pos = h1.parse_responses(data, [("GET", "1.1")], obs.closed_at is not None)
            finals = [r for r in resps if r.status is not None]
            if len(finals) > 1:
                out.append({"clause": "wire-prefix", "sig": "C12.wire/h1/two-final-heads",
                            "detail": "sequence %r produced %d final response heads" % (t["seq"], len(finals))})
            for r in resps:
                heads.extend(r.headers)
        except h1.Malformed as e:
            sig = "C12.ctl-bytes/h1/header" if "CR/LF/NUL" in str(e) or "field line" in str(e) else "C12.wire/h1/malformed"
            out.append({"clause": "wire-prefix", "sig": sig, "detail": "sequence %r (%s): %s" % (t["seq"], t["sub"], e)})
    else:
        rx = obs.reactor
        if rx.errors():
            out.append({"clause": "wire-prefix", "sig": "C12.wire/h2/frame-errors", "detail": repr(rx.errors()[:3])})
        for sid, s in rx.streams.items():
            nfinal = sum(1 for h in s.heads if h and dict(h).get(b":status", b"1")[:1] != b"1")
            if nfinal > 1:
                out.append({"clause": "wire-prefix", "sig": "C12.wire/h2/two-final-heads",
                            "detail": "stream %d carries %d final response heads (sequence %r)" % (sid, nfinal, t["seq"])})
            if (s.data_frames or s.ended) and not s.heads and s.rst is None:
                out.append({"clause": "wire-prefix", "sig": "C12.wire/h2/data-before-headers",
                            "detail": "stream %d: DATA / END_STREAM on the wire without any response HEADERS before it (sequence %r, payload %s)" % (
                                sid, t["seq"], t["sub"])})
            for h in s.heads:
                heads.extend(h or [])
                names = [bytes(nme) for nme, _ in (h or [])]
                pseudo = [x for x in names if x[:1] == b":"]
                if h and (pseudo.count(b":status") > 1 or any(x != b":status" for x in pseudo) or
                          any(x[:1] == b":" for x in names[len(pseudo):])):
                    out.append({"clause": "wire-prefix", "sig": "C12.wire/h2/malformed-header-block",
                                "detail": "stream %d: response header block with pseudo-headers %r (sequence %r, payload %s)" % (sid, pseudo, t["seq"], t["sub"])})
        for p in rx.pushes:
            heads.extend(p.get("headers") or [])
        bad_names = [bytes(nme) for nme, _ in heads if not re.match(rb"^:?[!#$%&'*+\-.^_`|~0-9a-z]+$", bytes(nme))]
        if bad_names:
            # RFC 7540 8.1.2: a field name that is not a lower-case token makes the block malformed - a client treats that as a stream
            # or connection error, whatever else the connection was carrying
            out.append({"clause": "wire-prefix", "sig": "C12.wire/h2/malformed-header-name",
                        "detail": "header names %r reached the client in a header block (sequence %r, payload %s)" % (bad_names[:3], t["seq"], t["sub"])})
        if t["kind"] == "http" and http_automaton(t["msgs"], proto, t.get("te"), final_state=True) == "CLOSED" and obs.closed_at is None:
            # the valid messages of the sequence add up to a complete response (whatever invalid ones were refused in between):
            # that response must be complete on the wire
            tally.clause("completed-is-complete")
            s1 = rx.streams.get(1)
            if s1 is None or s1.status is None or s1.ended != 1:
                out.append({"clause": "wire-prefix", "sig": "C12.wire/h2/completed-response-incomplete",
                            "detail": "sequence %r (%s): its valid messages complete the response, but the client has %r" % (
                                t["seq"], t["sub"], None if s1 is None else (s1.status, len(s1.data), s1.ended, s1.rst))})
        if obs.closed_at is None and not rx.errors() and rx.goaway is None:
            tally.clause("connection-intact")
            pr = rx.streams.get(3)
            # ... decodably: header compression is connection state, a header block that was encoded and then not sent (or sent twice) shows
            # in the *headers* of later responses - names and values come out as those of some other entry of the table
            ph = sorted((bytes(a), bytes(b)) for a, b in (pr.final_headers() if pr is not None and pr.status is not None else []) if bytes(a) != b"date")
            want_ph = sorted([(b"x-probe", b"1"), (b"server", b"hypercorn-h2")])
            if pr is not None and pr.status == 200 and ph != want_ph:
                out.append({"clause": "wire-prefix", "sig": "C12.wire/h2/connection-poisoned",
                            "detail": "after the sequence %r (%s) the response to a later request on the same connection decodes to the headers %r, sent were %r "
                                      "(header compression out of step)" % (t["seq"], t["sub"], ph, want_ph)})
            if pr is None or pr.status != 200 or bytes(pr.data) != b"probe" or pr.ended != 1:
                out.append({"clause": "wire-prefix", "sig": "C12.wire/h2/connection-poisoned",
                            "detail": "after the sequence %r (%s) a later request on the same connection was not answered decodably: %r" % (
                                t["seq"], t["sub"], None if pr is None else (pr.status, bytes(pr.data)[:20], pr.ended, pr.rst))})
    if t["proto"] == "h2":
        for pev in obs.reactor.pushes:
            heads.extend(pev.get("headers") or [])
    tally.clause("ctl-bytes")
    for nme, v in heads:
        if _ctl(nme) or _ctl(v):
            out.append({"clause": "ctl-bytes", "sig": "C12.ctl-bytes/%s/header-%s" % (proto, "name" if _ctl(nme) else "value"),
                        "detail": "header %r: %r reached the client with CR/LF/NUL (sequence %r, payload %s)" % (nme, v[:60], t["seq"], t["sub"])})
            break
    return out


def _class(t, i):
    m = t["msgs"][i]
    ty = m["type"]
    if t["sub"] and ("headers" in m or "path" in m) and (t["sub"] in [n for n, _ in BAD_HEADERS] or t["sub"].startswith("accept:") or t["sub"].startswith("trailers:")
                     or t["sub"] == "push-path-bytes" or (t["sub"].startswith("push:") and t["sub"][5:] in [n for n, _ in BAD_HEADERS])):
        sub = t["sub"].replace("accept:", "").replace("trailers:", "").replace("push:", "")
        if sub in ("crlf-val", "lf-val", "cr-val", "nul-val", "crlf-name", "nul-name", "crlf-val-memoryview", "nul-val-bytearray", "crlf-name-memoryview"):
            return "ctl-bytes-header"
        if sub in ("val-str", "name-str", "val-int", "val-none"):
            return "non-bytes-header"
        if sub.startswith("pseudo"):
            return "pseudo-header"
        return sub
    if ty == "not.a.real.type":
        return "unknown-type"
    if ty == "websocket.send":
        return "send-before-accept" if "A" not in t["seq"][:i] else "non-str-text"
    if ty == "http.response.start":
        return "second-start"
    if ty == "http.response.body":
        return "body-before-start" if "S" not in "".join(t["seq"][:i]) else "after-completion"
    return "after-completion"
