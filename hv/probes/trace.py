"""Append-only event log shared by the network, the scripted apps, the loggers and the driver."""
from __future__ import annotations

import threading


class Trace:
    __slots__ = ("events", "clock", "_lock", "_last")

    def __init__(self, clock):
        self.events = []
        self.clock = clock
        self._lock = threading.Lock()
        self._last = 0.0

    def ev(self, actor, kind, **detail):
        with self._lock:
            try:
                t = self.clock()
                self._last = t
            except RuntimeError:  # called from an executor thread (WSGI): the trio clock is loop-bound
                t = self._last
            self.events.append((len(self.events), t, actor, kind, detail))

    def select(self, actor=None, kind=None):
        return [
            e for e in self.events
            if (actor is None or e[2] == actor or (isinstance(actor, tuple) and e[2] in actor))
            and (kind is None or e[3] == kind or (isinstance(kind, tuple) and e[3] in kind))
        ]

    def order_hash(self):
        import hashlib

        h = hashlib.blake2b(digest_size=8)
        for e in self.events:
            h.update(("%s/%s;" % (e[2], e[3])).encode())
        return h.hexdigest()
