"""C10 — WebSocket message fidelity and message-size limit."""
from __future__ import annotations

import zlib

from .. import gen as G
from ..wire import ws
from ..wire.h2raw import FrameBuilder, client_preface

ID = "C10"
LEVEL = "exploration"
BUDGET = {"quick": 40, "thorough": 600}
TECHNIQUE = ("list-equality monitor on tagged WebSocket messages at the ASGI boundary vs. the client's message list; "
             "own frame builder/parser (fragmentation, permessage-deflate, control frames); limit predicate from the statement")
LEVEL_TEXT = ("Seeded exploration of message sequences (empty, 1 byte, multi-byte UTF-8 split inside a code point, sizes "
              "limit-1/limit/limit+1) x fragmentations x permessage-deflate x pings between fragments x read segmentations "
              "(incl. every 2-way split of short sessions) x carriers (HTTP/1.1 upgrade, HTTP/2 extended CONNECT) x workers.")
LEVEL_NOTE = "Trusted: hv/wire/ws.py builder/parser (zlib for deflate), hyperframe/hpack, in-memory transport."
RULE = ("sessions of 1-12 messages as above; non-trivial = the handshake was accepted and at least one data message was "
        "sent by the client; distinct = distinct case hash")
ASSUMPTIONS = ["how fragments are coalesced is not demanded; close handshake details belong to C11"]
MIN_DECISIVE = {"received": 50, "pong": 10, "limit": 20, "echo": 50}
N_CASES = {"quick": 2500, "thorough": 60000}

_TXT = ["a", "é", "€", "𝄞", "z", " ", "日", "\u0000"]


def _gen_message(rng, idx, limit):
    kind = rng.choice(["text", "text", "bytes"])
    n = rng.choice([0, 1, 2, 5, 30, 300, limit - 1, limit, limit + 1, limit + 7])
    n = max(0, min(n, 70000))
    if kind == "text":
        s = "".join(rng.choices(_TXT, k=n))
        return ("text", s)
    return ("bytes", bytes((idx * 31 + i * 7) % 256 for i in range(n)))


def _over(msg, limit):
    return len(msg[1]) > limit


def _gen_big_send(rng, tier):
    """WebSocket over HTTP/2, a message of the application larger than the client's window: its frame is written piece by piece as credit
    comes, and a control frame in between (the pong for a ping of the client's) must not land inside it."""
    for k in range(6 if tier == "quick" else 120):
        i = 7700000 + k
        size = rng.choice([70000, 100000, 180000])
        fb = FrameBuilder()
        rspec = {"kind": "h2", "credit": "none"}
        hdrs = [(b":method", b"CONNECT"), (b":protocol", b"websocket"), (b":scheme", b"http"), (b":path", b"/t%d" % i),
                (b":authority", b"h.example"), (b"sec-websocket-version", b"13")]
        payload = bytes((i * 7 + j * 13) % 251 for j in range(size))
        script = [["recv"], ["send", {"type": "websocket.accept"}], ["recv"], ["send", {"type": "websocket.send", "bytes": payload}], ["ws_echo"]]
        need = size + 1000
        client = [["feed", client_preface(fb, rspec) + fb.headers(1, hdrs, end_stream=False)], ["settle"],
                  ["feed", fb.data(1, ws.message_frames(ws.OP_TEXT, b"go"))], ["settle"],
                  ["feed", fb.data(1, ws.frame(ws.OP_PING, b"mid"))], ["settle"]]
        for _ in range(rng.choice([1, 3])):
            client += [["react", "window_update", 1, need], ["react", "window_update", 0, need], ["settle"]]
        client += [["feed", fb.data(1, ws.message_frames(ws.OP_TEXT, b"after"))], ["settle"], ["feed", fb.data(1, ws.close_frame(1000))], ["settle"]]
        yield {"family": "h2.big-send-with-ping", "backends": ["asyncio", "trio"], "config": {"keep_alive_timeout": 5000, "websocket_max_message_size": 1 << 20}, "conn": {},
               "apps": {"default": script, "websocket": script}, "client": client, "reactor": rspec,
               "truth": {"kind": "big-send", "carrier": "h2", "payload_len": size, "payload_sha": _sha(payload), "msgs": [], "limit": 1 << 20, "pings": [(0, b"mid")],
                         "deflate": False, "inner_ping": [], "server_pings": False},
               "sched": {"seed": rng.randrange(1 << 30)}, "horizon": 100.0}


def _sha(b):
    import hashlib

    return hashlib.sha1(b).hexdigest()


def gen(rng, tier):
    yield from _gen_big_send(rng, tier)
    for i in range(N_CASES[tier]):
        limit = rng.choice([1, 16, 1024, 65536, 65536])
        nmsg = rng.choice([1, 2, 3, 5, 12])
        burst = rng.random() < 0.08
        if burst:
            # far more messages (and pings) in one read than the application's queue holds / than any reply queue is long
            nmsg = rng.choice([13, 25, 40])
        deflate = rng.random() < 0.35
        nct = deflate and rng.random() < 0.3
        carrier = "h2" if rng.random() < 0.3 else "h11"
        if carrier == "h2":
            # keep one session's echo traffic inside the initial flow-control windows: an application that echoes
            # more than a window while the client keeps uploading can deadlock on flow control (reader blocked on the
            # application queue, WINDOW_UPDATEs queued behind DATA) - a liveness matter outside this property
            limit = rng.choice([1, 16, 1024])
        msgs = [_gen_message(rng, k, limit) for k in range(nmsg)]
        # pings directly followed by the client's Close in the same read: each arrived before the Close, so each is owed its pong
        # (RFC 6455 5.5.2).  No data messages here: their echoes would race the closing handshake.
        ping_close = (not burst) and carrier == "h11" and rng.random() < 0.06
        if ping_close:
            msgs = []
        if burst:
            limit = 65536
            msgs = [("text", "m%03d" % k) if rng.random() < 0.7 else ("bytes", b"b%03d" % k) for k in range(nmsg)]
        comp = zlib.compressobj(zlib.Z_DEFAULT_COMPRESSION, zlib.DEFLATED, -15) if deflate else None
        frames = bytearray()
        pings = []
        inner = []  # messages that carry a ping between their fragments
        for k, (kind, payload) in enumerate(msgs):
            raw = payload.encode("utf-8") if kind == "text" else payload
            op = ws.OP_TEXT if kind == "text" else ws.OP_BIN
            ncuts = rng.choice([0, 0, 1, 2, 5])
            # cuts are offsets into the wire payload; for uncompressed text they may fall inside a code point
            wire_len = len(raw) if comp is None else len(raw) + 16
            cuts = [rng.randint(0, max(0, wire_len)) for _ in range(ncuts)]
            pp = {}
            if ncuts and rng.random() < 0.4:
                pl = b"ping-%d-%d" % (i, k)
                pp[rng.randint(1, ncuts)] = pl
            if comp is not None and nct:
                comp = zlib.compressobj(zlib.Z_DEFAULT_COMPRESSION, zlib.DEFLATED, -15)
            fr = ws.message_frames(op, raw, cuts, compress=comp, pings=pp)
            # which pings actually got emitted (only between fragments)
            for idx, pl in pp.items():
                if ws.frame(ws.OP_PING, pl) in fr:
                    pings.append((k, pl))
                    inner.append(k)
            frames += fr
            if rng.random() < (0.15 if not burst else 0.0):
                pl = b"p%d" % k
                frames += ws.frame(ws.OP_PING, pl)
                pings.append((k + 0.5, pl))
        if burst and rng.random() < 0.6:
            # a run of pings in the same read, behind the messages
            for j in range(rng.choice([5, 33, 40, 100])):
                pl = b"bp%d" % j
                frames += ws.frame(ws.OP_PING, pl)
                pings.append((nmsg + 0.5, pl))
        if i % 400 == 399 and carrier == "h11" and not ping_close:
            # far more pings than one read of the server holds (several reads' worth arrive at once), from a client that takes every pong:
            # nothing excuses leaving one of them unanswered
            for j in range(rng.choice([25000, 40000]) if tier == "thorough" else 14000):
                pl = b"" if j % 3 else b"%d" % j
                frames += ws.frame(ws.OP_PING, pl)
                pings.append((nmsg + 0.75, pl))
        # (HTTP/2 carrier) many tiny DATA frames, each padded to the hilt: far more padding than a flow-control window in all
        padded_tiny = carrier == "h2" and rng.random() < 0.12
        if padded_tiny:
            j = 0
            while len(frames) < 420:
                pl = b"pt%d" % j
                j += 1
                frames += ws.frame(ws.OP_PING, pl)
                pings.append((nmsg + 0.6, pl))
        if ping_close:
            for j in range(rng.choice([1, 2, 5])):
                pl = b"pc%d-%d" % (i, j)
                frames += ws.frame(ws.OP_PING, pl)
                pings.append((0.5, pl))
            frames += ws.close_frame(1000)
        closef = ws.close_frame(1000)  # sent only after the echoes had a chance to arrive
        ext = None
        if deflate:
            ext = b"permessage-deflate" + (b"; client_no_context_takeover" if nct else b"")
        apps = {"default": [["recv"], ["send", {"type": "websocket.accept"}], ["ws_echo"]],
                "websocket": [["recv"], ["send", {"type": "websocket.accept"}], ["ws_echo"]]}
        config = {"websocket_max_message_size": limit, "keep_alive_timeout": 5000}
        keepalive_pings = rng.random() < 0.2
        if keepalive_pings:
            # the server's own keep-alive pings interleave with the echoes
            config["websocket_ping_interval"] = rng.choice([0.25, 1.0])
        truth = {"msgs": msgs, "limit": limit, "pings": pings, "carrier": carrier, "deflate": deflate, "inner_ping": inner,
                 "server_pings": keepalive_pings}
        if carrier == "h11":
            hs = ws.handshake(path=b"/t%d" % i, extensions=ext)
            mode = rng.choice(["after_accept", "split", "two", "bytes"]) if not burst else "burst"
            if mode == "burst":
                client = [["feed", hs], ["settle"], ["feed_split", bytes(frames), [len(frames)]]]
            elif mode == "after_accept":
                client = [["feed", hs], ["settle"], ["feed_split", bytes(frames), G.gen_splits(rng, len(frames))]]
            else:
                # frames must not precede acceptance: feed the handshake, settle, then the frames in pieces
                client = [["feed", hs], ["settle"],
                          ["feed_split", bytes(frames), G.gen_splits(rng, len(frames), {"split": "k", "two": "two", "bytes": "bytes"}[mode])]]
            client.append(["settle"])
            if keepalive_pings:
                client += [["advance", 1.3], ["settle"]]
            if not ping_close:
                client += [["feed", closef], ["settle"]]
            yield {"family": "h11." + ("deflate" if deflate else "plain") + (".burst" if burst else "") + (".ping-then-close" if ping_close else ""), "backends": ["asyncio", "trio"],
                   "config": config, "conn": {}, "apps": apps, "client": client, "reactor": {"kind": "ws", "echo_close": False},
                   "truth": truth, "sched": {"seed": rng.randrange(1 << 30)}, "horizon": 100.0}
        else:
            fb = FrameBuilder()
            rspec = {"kind": "h2", "credit": "auto"}
            hdrs = [(b":method", b"CONNECT"), (b":protocol", b"websocket"), (b":scheme", b"http"), (b":path", b"/t%d" % i),
                    (b":authority", b"h.example"), (b"sec-websocket-version", b"13")]
            if ext:
                hdrs.append((b"sec-websocket-extensions", ext))
            pre = client_preface(fb, rspec) + fb.headers(1, hdrs, end_stream=False)
            # WebSocket frames inside DATA frames, cut arbitrarily; sent under the server's flow control
            q = []
            off = 0
            fr = bytes(frames)
            padding = rng.choice([0, 0, 0, 7, 255]) if not padded_tiny else 255
            while off < len(fr):
                n = rng.choice([1, 2, 7, 100, 1000, 16384]) if not padded_tiny else rng.choice([1, 2])
                piece = fr[off:off + n]
                # (padding is flow-controlled like the data it accompanies: the server has to give it back with the rest)
                pad = padding if len(piece) + padding + 1 <= 16384 else 0
                q.append([fb.data(1, piece, pad=pad), len(piece) + (pad + 1 if pad else 0)])
                off += n
            rspec["uploads"] = {1: q}
            rspec["uploads_wait"] = True
            client = [["feed", pre], ["settle"], ["react", "pump"], ["settle"]] + ([["advance", 1.3], ["settle"]] if keepalive_pings else []) + \
                     [["feed", fb.data(1, closef)], ["settle"]]
            yield {"family": "h2." + ("deflate" if deflate else "plain") + (".padded-tiny" if padded_tiny else ""), "backends": ["asyncio", "trio"],
                   "config": config, "conn": {}, "apps": apps, "client": client, "reactor": rspec,
                   "truth": truth, "sched": {"seed": rng.randrange(1 << 30)}, "horizon": 100.0}


def nontrivial(case, obs):
    return any(e[3] == "recv" and e[4]["msg"].get("type") == "websocket.receive" for e in obs.app_events()) or bool(case["truth"]["msgs"])


def _server_side(case, obs):
    """Returns (accepted, FrameParser over the server's websocket frames)."""
    t = case["truth"]
    if t["carrier"] == "h11":
        rx = obs.reactor
        return rx.status == 101, rx.parser
    rx = obs.reactor
    s = rx.streams.get(1)
    if s is None or s.status != 200:
        return False, None
    hdr = dict(s.final_headers() or [])
    ext = hdr.get(b"sec-websocket-extensions", b"")
    p = ws.FrameParser(b"permessage-deflate" in ext, b"server_no_context_takeover" in ext)
    p.feed(bytes(s.data))
    return True, p


def check(case, obs, tally):
    out = []
    t = case["truth"]
    if obs.handler == "exception":
        tally.inconclusive["handler-crashed(C04)"] += 1
        return out
    accepted, parser = _server_side(case, obs)
    if not accepted or parser is None:
        tally.inconclusive["not-accepted"] += 1
        return out
    if t.get("kind") == "big-send":
        tally.clause("echo")
        got = [(k_, (len(v), _sha(v)) if k_ == "bytes" else v) for k_, v in parser.messages]
        want = [("bytes", (t["payload_len"], t["payload_sha"])), ("text", "after")]
        if got != want or parser.errors or b"mid" not in [bytes(x) for x in parser.pongs]:
            out.append({"clause": "echo", "sig": "C10.sent/h2/message-interleaved-with-control-frame",
                        "detail": "the application sent one binary message of %d bytes (larger than the window) and echoed 'after'; a ping arrived while it was being "
                                  "written: the client parsed messages %r, pongs %r, errors %r, close %r" % (
                                      t["payload_len"], [(k_, v if k_ == "text" else v[0]) for k_, v in got], parser.pongs[:3], parser.errors[:2], parser.close)})
        return out
    carrier = t["carrier"]
    limit = t["limit"]
    msgs = t["msgs"]
    first_over = next((k for k, m in enumerate(msgs) if _over(m, limit)), None)
    expected = msgs if first_over is None else msgs[:first_over]
    got = []
    for inst, lst in obs.apps.recvs.items():
        for m in lst:
            if m.get("type") == "websocket.receive":
                got.append(("text", m["text"]) if m.get("text") is not None else ("bytes", bytes(m["bytes"])))
    # known third-party mechanism: wsproto 1.3.2 loses the permessage-deflate state when a control frame
    # arrives between the fragments of a compressed message
    if t["deflate"] and t["inner_ping"]:
        k0 = min(t["inner_ping"])
        wrong = got != expected or (first_over is not None and (parser.close is None or parser.close[0] != 1009))
        if (first_over is None or k0 <= first_over) and wrong and got[:k0] == expected[:k0]:
            out.append({"clause": "received", "sig": "C10.receive/ping-between-compressed-fragments",
                        "detail": "message #%d was compressed and had a ping between its fragments; from there on delivery went wrong: %d/%d messages delivered" % (
                            k0, len(got), len(expected))})
            return out
    tally.clause("received")
    if got != expected:
        k = next((j for j in range(min(len(got), len(expected))) if got[j] != expected[j]), min(len(got), len(expected)))
        what = "over-limit-delivered" if first_over is not None and len(got) > len(expected) else "mismatch"
        out.append({"clause": "received", "sig": "C10.receive/%s/%s" % (what, carrier),
                    "detail": "application received %d messages, client sent %d deliverable (limit %d); first difference at #%d: got %s expected %s" % (
                        len(got), len(expected), limit, k, _short(got[k]) if k < len(got) else None, _short(expected[k]) if k < len(expected) else None)})
    if first_over is not None:
        tally.clause("limit")
        if parser.close is None or parser.close[0] != 1009:
            out.append({"clause": "limit", "sig": "C10.limit/no-1009/%s" % carrier,
                        "detail": "message #%d exceeds websocket_max_message_size=%d but the server's close is %r" % (first_over, limit, parser.close)})
    else:
        tally.clause("limit-not-hit")
        if parser.close is not None and parser.close[0] == 1009:
            out.append({"clause": "limit", "sig": "C10.limit/spurious-1009/%s" % carrier,
                        "detail": "no message exceeds the limit %d (sizes %r) but the server closed with 1009" % (limit, [len(m[1]) for m in msgs])})
    # pings sent before the first over-limit message must be answered, in order, same payload
    pings = [pl for (pos, pl) in t["pings"] if first_over is None or pos < first_over]
    if pings:
        tally.clause("pong")
        if parser.pongs[:len(pings)] != pings:
            out.append({"clause": "pong", "sig": "C10.pong/%s" % carrier,
                        "detail": "pings %r answered by pongs %r" % (pings[:5], parser.pongs[:5])})
    # echo: what the application sent (it echoes every received message) reaches the client identically
    echoed = [(k, v) for (k, v) in parser.messages]
    if first_over is not None:
        # once the server is closing with 1009 the application's echoes are legitimately dropped
        if echoed != got[:len(echoed)]:
            out.append({"clause": "echo", "sig": "C10.echo-corrupt/%s" % carrier, "detail": "echoed messages differ from what the application sent"})
        return out
    tally.clause("echo")
    if echoed != got:
        out.append({"clause": "echo", "sig": "C10.echo/%s" % carrier,
                    "detail": "application sent %d messages, client decoded %d; parser errors %r" % (len(got), len(echoed), parser.errors[:3])})
    if parser.errors:
        out.append({"clause": "echo", "sig": "C10.server-frames-malformed/%s" % carrier, "detail": repr(parser.errors[:3])})
    return out


def _short(m):
    if m is None:
        return None
    return (m[0], len(m[1]), m[1][:12])
