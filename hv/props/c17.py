"""C17 — WSGI adapter conforms to PEP 3333."""
from __future__ import annotations

import threading

from .. import gen as G
from ..wire import h1, ws
from ..wire.h2raw import FrameBuilder, client_preface

ID = "C17"
LEVEL = "exploration"
BUDGET = {"quick": 45, "thorough": 600}
TECHNIQUE = ("recording WSGI application shapes (call count, thread identity, environ, wsgi.input, close() count) behind the real "
             "WSGIWrapper / WSGI middlewares with real executor threads; reference environ builder written from PEP 3333; "
             "strict client-side response parse")
LEVEL_TEXT = ("Seeded exploration of requests (escaped and non-ASCII paths, root_path prefixes, repeated headers, content headers, "
              "bodies around wsgi_max_body_size) x WSGI shapes (list, tuple, generator, lazy start_response, iterator with "
              "close, raising before/after start_response or mid-iteration, empty chunks, no start_response) x HTTP/1.1 and "
              "HTTP/2 x wrapper and middleware entry points x both workers.")
LEVEL_NOTE = "Trusted: hv parsers; executor threads are real, the harness waits for them in real time (virtual clock does not overtake them)."
RULE = "cases as above; non-trivial = the request reached the size gate (WSGI callable invoked or refused); distinct = case hash"
ASSUMPTIONS = ["header-name case, chunk boundaries, wsgi.errors target and SERVER_NAME/PORT typing are not demanded",
               "a path that does not start with root_path is not judged"]
MIN_DECISIVE = {"call-once": 50, "off-loop": 50, "environ": 50, "response": 50, "close-once": 20, "size-limit": 20, "websocket-refused": 5}
N = {"quick": 4000, "thorough": 40000}

SHAPES = ["list", "tuple", "generator", "lazy_generator", "iter_close", "lazy_iter_close", "iterable_close_gen", "iterable_close_list", "write_callable",
          "raise_before", "raise_after", "no_start", "exc_info_replace", "exc_info_replace_lazy"]


def _gen_extra(rng, tier):
    """(a) a path that begins with the characters of root_path but not at a segment boundary (/appx/... under root_path /app) is not under
    it: the application is either not called or called with a PATH_INFO that starts with '/'; (b) a request whose body the client cut
    short (EOF before Content-Length was reached): the application is not handed a wsgi.input shorter than its CONTENT_LENGTH."""
    for k in range(8 if tier == "quick" else 100):
        i = 9000000 + k
        for be in ("asyncio", "trio"):
            root = rng.choice(["/app", "/api/v1"])
            path = (root + rng.choice(["x", "-old", "2"]) + "/t%d" % i).encode()
            yield {"family": "root-boundary", "backends": [be], "config": {"keep_alive_timeout": 5000, "root_path": root}, "conn": {},
                   "wsgi": {"shape": "list", "status": "200 OK", "headers": [("X-W", "v")], "chunks": [b"ok"], "max_body": 65536, "via": "wrapper"}, "apps": {},
                   "client": [["feed", b"GET %s HTTP/1.1\r\nHost: h\r\n\r\n" % path], ["settle"]],
                   "truth": {"kind": "root-boundary", "root": root, "path": path.decode()}, "sched": {"seed": rng.randrange(1 << 30)}, "horizon": 30.0}
            # (c) a client that takes its time: two pipelined requests, each answered by 120 KB in three chunks, nothing read until both are
            # under way (the writes of the server have to wait: every send of the adapter has to have finished before the next starts)
            shape = rng.choice(["list", "generator", "lazy_generator", "write_callable", "iter_close"])
            big = [b"a" * 40000, b"b" * 40000 + b"|", b"c" * 40000]
            yield {"family": "slow-client." + shape, "backends": [be], "config": {"keep_alive_timeout": 5000}, "conn": {},
                   "wsgi": {"shape": shape, "status": "200 OK", "headers": [("X-W", "v")], "chunks": big, "raise_at": None, "max_body": 65536,
                            "via": rng.choice(["wrapper", "middleware_" + be])}, "apps": {},
                   "client": [["pause"], ["feed", b"GET /t%d HTTP/1.1\r\nHost: h\r\n\r\nGET /t%d HTTP/1.1\r\nHost: h\r\n\r\n" % (i, i + 1)], ["settle"],
                              ["resume"], ["settle"]],
                   "truth": {"kind": "slow-client", "body": b"".join(big)}, "sched": {"seed": rng.randrange(1 << 30)}, "horizon": 30.0}
            cl, sent = rng.choice([(10, 4), (10, 0), (100, 99), (3, 1)])
            yield {"family": "cut-body", "backends": [be], "config": {"keep_alive_timeout": 5000}, "conn": {},
                   "wsgi": {"shape": "list", "status": "200 OK", "headers": [("X-W", "v")], "chunks": [b"ok"], "max_body": 65536, "via": "wrapper"}, "apps": {},
                   "client": [["feed", b"POST /t%d HTTP/1.1\r\nHost: h\r\nContent-Length: %d\r\n\r\n" % (i, cl) + b"b" * sent], ["settle"], ["eof"], ["settle"]],
                   "truth": {"kind": "cut-body", "cl": cl, "sent": sent}, "sched": {"seed": rng.randrange(1 << 30)}, "horizon": 30.0}


def gen(rng, tier):
    yield from _gen_extra(rng, tier)
    for i in range(N[tier]):
        if rng.random() < 0.05:
            yield {"family": "websocket", "backends": ["asyncio", "trio"], "config": {"keep_alive_timeout": 5000}, "conn": {},
                   "wsgi": {"shape": "list", "via": "wrapper", "max_body": 1000}, "apps": {},
                   "client": [["feed", ws.handshake(path=b"/t%d" % i)], ["settle"]], "reactor": {"kind": "ws"},
                   "truth": {"kind": "websocket"}, "sched": {"seed": rng.randrange(1 << 30)}, "horizon": 30.0}
            continue
        version = rng.choice(["1.1", "1.1", "2"])
        limit = rng.choice([0, 1, 10, 65536, 65536])
        size = rng.choice([0, 1, limit - 1, limit, limit + 1, limit + 5, 100])
        size = max(0, min(size, 70000))
        root = rng.choice(["", "", "/app", "/app/v1", "/é".encode().decode("utf-8")])
        # the same prefix written with a trailing slash (or a bare "/") is normalised by the configuration: same split
        root_cfg = root + "/" if rng.random() < 0.25 else root
        req = G.gen_request(rng, i, version, tier, body_sizes=[size], methods=["POST" if size else "GET", "PUT" if size else "DELETE"])
        # (escapes that are not UTF-8 are octets like any other: PEP 3333 carries them in PATH_INFO one character each)
        tail = rng.choice(["", "/x", "/caf%C3%A9", "/a%20b", "/%E2%82%AC/z", "/p;q=1", "/caf%E9", "/%FF%FE/bin"])
        base_path = (root.encode("utf-8").decode("latin-1").encode("latin-1") if False else b"")
        # path = quoted(root) + /t<i> + tail   (root may contain non-ASCII -> percent-encode it on the wire)
        from urllib.parse import quote

        req["path"] = (quote(root, safe="/") + "/t%d" % i + tail).encode("ascii")
        hdrs = list(req["headers"])
        if rng.random() < 0.5:
            hdrs.append((b"Content-Type" if version != "2" else b"content-type", rng.choice([b"text/plain", b"application/json; charset=utf-8"])))
        if rng.random() < 0.3:
            # other Content-* headers are ordinary headers for PEP 3333: HTTP_CONTENT_ENCODING, not CONTENT_ENCODING
            for nm_, v_ in rng.sample([(b"Content-Encoding", b"gzip"), (b"Content-Language", b"en"), (b"Content-Language", b"de"),
                                       (b"Content-Disposition", b"attachment"), (b"Content-Range", b"bytes 0-1/2"), (b"Content-MD5", b"abc=")], rng.choice([1, 2, 3])):
                hdrs.append((nm_ if version != "2" else nm_.lower(), v_))
        if rng.random() < 0.4:
            nm = b"X-Dup" if version != "2" else b"x-dup"
            hdrs += [(nm, b"one"), (nm, b"two")]
        req["headers"] = hdrs
        req["ows"] = [b" "] * len(hdrs)
        shape = rng.choice(SHAPES)
        nch = rng.choice([0, 1, 2, 4])
        chunks = [rng.choice([b"", b"x", b"chunk-%d-" % k * rng.choice([1, 50]), bytes(range(256))]) for k in range(nch)]
        raise_at = rng.choice([None, None, None, 0, 1]) if shape in ("generator", "iter_close", "lazy_iter_close", "iterable_close_gen") else None
        status = rng.choice(["200 OK", "201 Created", "404 Not Found", "500 Internal Server Error", "299 Custom"])
        rh = [("X-W", "v%d" % i), ("Content-Type", "text/x-test")]
        if rng.random() < 0.25:
            # PEP 3333: header strings are bytes tunnelled through latin-1 - a non-ASCII character is one byte on the wire
            rh.append(rng.choice([("Content-Disposition", 'attachment; filename="r\xe9sum\xe9.txt"'), ("X-Latin", "caf\xe9 \xfc\xff"),
                                  ("Location", "/caf\xc3\xa9/")]))
        if rng.random() < 0.3:
            rh += [("Set-Cookie", "a=1"), ("Set-Cookie", "b=2")]
        be = ["asyncio", "trio"]
        via = rng.choice(["wrapper", "wrapper", "middleware"])
        spec = {"shape": shape, "status": status, "headers": rh, "chunks": chunks, "raise_at": raise_at, "max_body": limit, "via": via}
        config = {"keep_alive_timeout": 5000, "root_path": root_cfg, "wsgi_max_body_size": limit}
        if version != "2" and rng.random() < 0.2:
            config["h11_pass_raw_headers"] = True  # header names reach the adapter as the client spelled them
        truth = {"kind": "http", "req": req, "shape": shape, "status": status, "headers": rh, "chunks": chunks, "raise_at": raise_at,
                 "limit": limit, "root": root, "version": version}
        if version == "2":
            fb = FrameBuilder()
            data = client_preface(fb, {}) + G.serialize_h2(fb, req, 1)
            client = [["feed", data], ["settle"]]
            reactor = {"kind": "h2", "credit": "auto"}
        else:
            client = [["feed", G.serialize_h1(req)], ["settle"]]
            reactor = None
        for b in be:
            spec_b = dict(spec)
            if via == "middleware":
                spec_b["via"] = "middleware_" + b
            case = {"family": "%s.%s.h%s" % (shape, via, version), "backends": [b], "config": config, "conn": {}, "wsgi": spec_b,
                    "apps": {}, "client": client, "truth": truth, "sched": {"seed": rng.randrange(1 << 30)}, "horizon": 30.0}
            if reactor:
                case["reactor"] = reactor
            yield case


def nontrivial(case, obs):
    return True


def ref_environ(t, conn):
    req = t["req"]
    root = t["root"].rstrip("/")
    from urllib.parse import unquote_to_bytes

    raw = unquote_to_bytes(req["path"])
    assert raw.startswith(root.encode("utf-8"))
    info = raw[len(root.encode("utf-8")):] or b"/"
    env = {
        "REQUEST_METHOD": req["method"],
        "SCRIPT_NAME": root.encode("utf-8").decode("latin-1"),
        "PATH_INFO": info.decode("latin-1"),
        "QUERY_STRING": (req["query"] or b"").decode("latin-1"),
        "SERVER_PROTOCOL": "HTTP/" + t["version"],
        "wsgi.url_scheme": "http",
    }
    scope = G.expected_scope(req, conn)
    http = {}
    for n, v in scope["headers"]:
        name = n.decode("latin-1").lower()
        val = v.decode("latin-1")
        if name == "content-length":
            key = "CONTENT_LENGTH"
        elif name == "content-type":
            key = "CONTENT_TYPE"
        else:
            key = "HTTP_" + name.upper().replace("-", "_")
        http.setdefault(key, []).append(val)
    return env, http


def check(case, obs, tally):
    out = []
    t = case["truth"]
    rec = obs.apps if isinstance(obs.apps, dict) else {}
    calls = rec.get("calls", [])
    if obs.handler == "exception":
        out.append({"clause": "call-once", "sig": "C17.handler-crashed", "detail": (obs.handler_exc or "")[-500:]})
        return out
    if t["kind"] == "root-boundary":
        tally.clause("environ")
        for c_ in calls:
            pi = c_["environ"].get("PATH_INFO", "")
            if not pi.startswith("/"):
                out.append({"clause": "environ", "sig": "C17.environ/path-split-inside-segment",
                            "detail": "root_path %r, request path %r: the application was called with SCRIPT_NAME %r PATH_INFO %r" % (
                                t["root"], t["path"], c_["environ"].get("SCRIPT_NAME"), pi)})
        return out
    if t["kind"] == "slow-client":
        tally.clause("response")
        try:
            resps, _ = h1.parse_responses(obs.outbytes, [("GET", "1.1")] * 2, obs.closed_at is not None)
        except h1.Malformed as e:
            return [{"clause": "response", "sig": "C17.response/malformed", "detail": "slow client: " + str(e)}]
        got = [(r.status, r.complete, len(r.body), r.body == t["body"]) for r in resps]
        if got != [(200, True, len(t["body"]), True)] * 2 or len(calls) != 2:
            out.append({"clause": "response", "sig": "C17.response/slow-client", "detail": "two pipelined requests, client reading late: application called %d times, "
                        "responses (status, complete, length, equal) %r, expected twice (200, True, %d, True)" % (len(calls), got, len(t["body"]))})
        return out
    if t["kind"] == "cut-body":
        tally.clause("environ")
        for c_ in calls:
            inp = c_["input"] if isinstance(c_["input"], bytes) else b""
            if str(len(inp)) != c_["environ"].get("CONTENT_LENGTH"):
                out.append({"clause": "environ", "sig": "C17.environ/wsgi.input-truncated",
                            "detail": "the client sent %d of %d body bytes and closed: the application was called with CONTENT_LENGTH %r and a wsgi.input of %d bytes" % (
                                t["sent"], t["cl"], c_["environ"].get("CONTENT_LENGTH"), len(inp))})
        return out
    if t["kind"] == "websocket":
        tally.clause("websocket-refused")
        rx = obs.reactor
        if calls or rx.status == 101:
            out.append({"clause": "websocket-refused", "sig": "C17.websocket-not-refused",
                        "detail": "WSGI app called %d times, handshake status %r" % (len(calls), rx.status)})
        return out
    req = t["req"]
    over = len(req["body"]) > t["limit"]
    # ---- client view ------------------------------------------------------------------------
    if t["version"] == "2":
        s = obs.reactor.streams.get(1)
        status = s.status if s else None
        rheaders = [(n, v) for n, v in (s.final_headers() or [])] if s else []
        rbody = bytes(s.data) if s else b""
        complete = bool(s and s.ended == 1)
    else:
        try:
            resps, _ = h1.parse_responses(obs.outbytes, [(req["method"], "1.1")], obs.closed_at is not None)
        except h1.Malformed as e:
            out.append({"clause": "response", "sig": "C17.response/malformed", "detail": str(e)})
            return out
        r = resps[0] if resps else None
        status = r.status if r else None
        rheaders = [(n.lower(), v) for n, v in r.headers] if r else []
        rbody = r.body if r else b""
        complete = bool(r and r.complete)
    tally.clause("size-limit")
    if over:
        if calls or status != 400:
            out.append({"clause": "size-limit", "sig": "C17.size-limit/over-limit-not-400",
                        "detail": "body %d > wsgi_max_body_size %d: app calls %d, status %r" % (len(req["body"]), t["limit"], len(calls), status)})
        return out
    if status == 400 and not calls:
        out.append({"clause": "size-limit", "sig": "C17.size-limit/at-or-below-limit-refused",
                    "detail": "body %d <= wsgi_max_body_size %d answered 400 without calling the application" % (len(req["body"]), t["limit"])})
        return out
    tally.clause("call-once")
    if len(calls) != 1:
        out.append({"clause": "call-once", "sig": "C17.call-count-%d" % len(calls), "detail": "WSGI callable invoked %d times (status %r)" % (len(calls), status)})
        return out
    call = calls[0]
    tally.clause("off-loop")
    if call["thread"] == threading.get_ident():
        out.append({"clause": "off-loop", "sig": "C17.called-on-event-loop-thread", "detail": "WSGI callable ran on the event loop thread"})
    for kind, text in obs.sanitizers:
        if "thread" in text.lower():
            out.append({"clause": "off-loop", "sig": "C17.thread-safety-report", "detail": text[:300]})
    tally.clause("environ")
    env, http = ref_environ(t, case.get("conn") or {})
    got = call["environ"]
    for k, v in env.items():
        if got.get(k) != v:
            out.append({"clause": "environ", "sig": "C17.environ/%s" % k, "detail": "environ[%s]=%r expected %r (path %r root %r)" % (k, got.get(k), v, req["path"], t["root"])})
    for k, vals in http.items():
        gv = got.get(k)
        if gv is None or [x.strip() for x in gv.split(",")] != [y.strip() for x in vals for y in x.split(",")]:
            out.append({"clause": "environ", "sig": "C17.environ/header-%s" % ("joined" if len(vals) > 1 else "value"),
                        "detail": "environ[%s]=%r expected the comma-join of %r" % (k, gv, vals)})
    extra = [k for k in got if k.startswith("HTTP_") and k not in http]
    if extra:
        out.append({"clause": "environ", "sig": "C17.environ/extra-http-var", "detail": "unexpected %r" % extra})
    if call["input"] != req["body"]:
        out.append({"clause": "environ", "sig": "C17.environ/wsgi.input", "detail": "wsgi.input held %d bytes, request body %d" % (len(call["input"]) if isinstance(call["input"], bytes) else -1, len(req["body"]))})
    # ---- response ---------------------------------------------------------------------------
    shape = t["shape"]
    fails_before_start = shape in ("raise_before", "no_start")
    if shape in ("iter_close", "lazy_iter_close"):
        raises_mid = t["raise_at"] is not None and t["raise_at"] <= len(t["chunks"])
    else:
        raises_mid = t["raise_at"] is not None and t["raise_at"] < len(t["chunks"]) or shape == "raise_after"
    if shape in ("lazy_generator", "lazy_iter_close") and t["raise_at"] is not None and t["raise_at"] == 0 and shape == "lazy_iter_close":
        raises_mid = True
    tally.clause("response")
    exp_status = int(t["status"].split(" ")[0])
    if fails_before_start:
        if status != 500:
            out.append({"clause": "response", "sig": "C17.response/failure-not-500/%s" % shape, "detail": "status %r" % status})
    elif raises_mid:
        # once at least one chunk had been yielded the response was started: the failure must leave it visibly incomplete
        started_before_failure = shape != "raise_after" and t["raise_at"] is not None and t["raise_at"] >= 1
        if started_before_failure and complete and status == exp_status:
            out.append({"clause": "response", "sig": "C17.response/falsely-complete-after-error/%s" % shape,
                        "detail": "iteration raised at chunk %r after the response had started, but the client parsed a complete %r response (%d bytes)" % (
                            t["raise_at"], status, len(rbody))})
        if complete and status == exp_status and rbody == b"".join(t["chunks"]) and b"".join(t["chunks"]) and t["raise_at"] is not None and t["raise_at"] < len(t["chunks"]):
            out.append({"clause": "response", "sig": "C17.response/complete-despite-error", "detail": "iteration raised at chunk %r but the client got the complete body" % t["raise_at"]})
    else:
        lazy = shape.startswith("lazy")
        if status != exp_status:
            out.append({"clause": "response", "sig": "C17.response/status/%s" % ("lazy-start-response" if lazy else shape),
                        "detail": "shape %s: status %r expected %r" % (shape, status, exp_status)})
        else:
            exp_h = [(n.lower().encode("latin-1"), v.encode("latin-1")) for n, v in t["headers"]]
            if shape.startswith("exc_info_replace") and any(h[0] == b"x-first" for h in rheaders):
                out.append({"clause": "response", "sig": "C17.response/replaced-response-leaked", "detail": "headers of the response that was replaced reached the client: %r" % rheaders})
            if [h for h in rheaders if h in exp_h] != exp_h:
                out.append({"clause": "response", "sig": "C17.response/headers", "detail": "headers %r expected to contain %r in order" % (rheaders, exp_h)})
            if rbody != b"".join(t["chunks"]) or not complete:
                out.append({"clause": "response", "sig": "C17.response/body/%s" % shape,
                            "detail": "body %d bytes complete=%r expected %d" % (len(rbody), complete, len(b"".join(t["chunks"])))})
    if shape in ("iter_close", "lazy_iter_close", "iterable_close_gen", "iterable_close_list"):
        tally.clause("close-once")
        if rec.get("closes", 0) != 1:
            out.append({"clause": "close-once", "sig": "C17.close-count-%d/%s" % (rec.get("closes", 0), "error" if raises_mid else "normal"),
                        "detail": "iterable.close() called %d times (raise_at %r)" % (rec.get("closes", 0), t["raise_at"])})
    return out
