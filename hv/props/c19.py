"""C19 — configuration sources agree and binds parse to the intended sockets."""
from __future__ import annotations

import contextlib
import importlib
import io
import os
import shutil
import socket
import ssl
import sys
import tempfile
import time
import types
from email.utils import parsedate_to_datetime

ID = "C19"
LEVEL = "exploration"
BUDGET = {"quick": 40, "thorough": 300}
SHARDS = 8
TECHNIQUE = ("reference-model monitors over direct calls of the real loaders and hypercorn.__main__.main (run() replaced by a "
             "capturing stub): Config snapshots compared across loaders, per-flag delta against a baseline, socket.bind audit "
             "hook against a reference bind-string parser, RFC 7231 date check")
LEVEL_TEXT = ("Every configuration key x several type-appropriate values x every loader (mapping, keywords, object, module path, "
              "Python file, TOML file, command line); every command-line flag alone and in ordered pairs; config-file value "
              "retained when the flag is absent; all bind-string shapes on loopback addresses; header switches.")
LEVEL_NOTE = "Trusted: sys.addaudithook socket.bind events, tomllib; ports are ephemeral (port 0) or unique loopback aliases."
RULE = ("cases = (key, value, loader) / (flag [, flag]) / (bind string) / (header switches); non-trivial = a value different "
        "from the default was supplied; distinct = distinct case hash")
ASSUMPTIONS = ["EADDRINUSE on the fixed default port 8000 is inconclusive for that case", "ssl context construction is not judged"]
MIN_DECISIVE = {"loaders-agree": 50, "cli-delta": 50, "cli-keeps-file": 10, "bind": 8, "headers": 10, "root-path": 5}

# key -> (type tag, CLI flag or None)
KEYS = {
    "access_log_format": ("str", "--access-logformat"), "accesslog": ("str", "--access-logfile"),
    "alpn_protocols": ("strlist", None), "alt_svc_headers": ("strlist", None), "backlog": ("int", "--backlog"),
    "ca_certs": ("str", "--ca-certs"), "certfile": ("str", "--certfile"), "ciphers": ("str", "--ciphers"),
    "debug": ("bool", "--debug"), "dogstatsd_tags": ("str", None), "errorlog": ("str", "--error-logfile"),
    "graceful_timeout": ("num", "--graceful-timeout"), "read_timeout": ("int", "--read-timeout"), "group": ("int", "--group"),
    "h11_max_incomplete_size": ("int", None), "h11_pass_raw_headers": ("bool", None), "h2_max_concurrent_streams": ("int", None),
    "h2_max_header_list_size": ("int", None), "h2_max_inbound_frame_size": ("int", None), "include_date_header": ("bool", None),
    "include_server_header": ("bool", None), "keep_alive_timeout": ("num", "--keep-alive"), "keep_alive_max_requests": ("int", None),
    "keyfile": ("str", "--keyfile"), "keyfile_password": ("str", "--keyfile-password"), "logconfig": ("str", "--log-config"),
    "loglevel": ("str", "--log-level"), "max_app_queue_size": ("int", None), "max_requests": ("int", "--max-requests"),
    "max_requests_jitter": ("int", "--max-requests-jitter"), "pid_path": ("str", "--pid"), "server_names": ("strlist", "--server-name"),
    "shutdown_timeout": ("num", None), "ssl_handshake_timeout": ("num", None), "startup_timeout": ("num", None),
    "statsd_host": ("str", "--statsd-host"), "statsd_prefix": ("str", "--statsd-prefix"), "umask": ("int", "--umask"),
    "use_reloader": ("bool", "--reload"), "user": ("int", "--user"), "websocket_max_message_size": ("int", None),
    "websocket_ping_interval": ("num", "--websocket-ping-interval"), "worker_class": ("str", "--worker-class"), "workers": ("int", "--workers"),
    "wsgi_max_body_size": ("int", None), "bind": ("strlist", "--bind"), "insecure_bind": ("strlist", "--insecure-bind"),
    "quic_bind": ("strlist", "--quic-bind"), "root_path": ("str", "--root-path"),
}
SNAP_EXTRA = ["verify_mode", "verify_flags", "logger_class", "logconfig_dict", "application_path"]


def snapshot(cfg):
    out = {}
    for k in list(KEYS) + SNAP_EXTRA:
        try:
            v = getattr(cfg, k)
        except AttributeError:
            v = "<unset>"
        if isinstance(v, float) and v.is_integer():
            v = int(v)  # 5 and 5.0 seconds are the same setting
        out[k] = repr(v)
    return out


def _value(rng, tag, i):
    if tag == "int":
        return rng.choice([0, 1, 2, 7, 100, 65536, 12345])
    if tag == "num":
        # durations in seconds (annotated float in Config): whole and fractional
        return rng.choice([0, 1, 7, 100, 0.5, 2.5, 0.25, 12.75])
    if tag == "bool":
        return True
    if tag == "str":
        return rng.choice(["value%d" % i, "x", "a-b_c.%d" % i, "/tmp/p%d" % i])
    return [rng.choice(["one%d" % i, "127.0.0.%d:80%02d" % (rng.randint(2, 200), i % 100)]) for _ in range(rng.choice([1, 2]))]


def gen(rng, tier):
    n = 0
    reps = 4 if tier == "quick" else 8
    # settings that cannot be read back from a fresh Config (annotation-only / write-only): every loader must still apply them
    for k in range(3 if tier == "quick" else 8):
        yield {"family": "loaders.special", "kind": "special", "key": "application_path", "value": "pkg%d.mod:app" % k}
        yield {"family": "loaders.special", "kind": "special", "key": "cert_reqs", "value": rng.choice([0, 1, 2])}
    for key, (tag, flag) in KEYS.items():
        for i in range(reps):
            n += 1
            yield {"family": "loaders", "kind": "loaders", "key": key, "value": _value(rng, tag, n), "tag": tag, "flag": flag, "n": n}
    flags = [(k, v) for k, v in KEYS.items() if v[1]]
    for key, (tag, flag) in flags:
        n += 1
        yield {"family": "cli.single", "kind": "cli", "flags": [[key, tag, flag, _value(rng, tag, n)]]}
    extra_single = [["verify_mode", "vm", "--verify-mode", "CERT_REQUIRED"], ["verify_mode", "certreqs", "--cert-reqs", 2],
                    ["errorlog", "str", "--log-file", "ef"], ["errorlog", "str", "--error-log", "el"], ["accesslog", "str", "--access-log", "al"]]
    for f in extra_single:
        yield {"family": "cli.single", "kind": "cli", "flags": [f]}
    pairs = [(a, b) for a in flags for b in flags if a[0] != b[0]]
    rng.shuffle(pairs)
    for a, b in pairs[: (900 if tier == "quick" else 2500)]:
        n += 1
        yield {"family": "cli.pair", "kind": "cli", "flags": [[a[0], a[1][0], a[1][1], _value(rng, a[1][0], n)],
                                                               [b[0], b[1][0], b[1][1], _value(rng, b[1][0], n + 1)]]}
    for key, (tag, flag) in KEYS.items():
        n += 1
        other = rng.choice([f for f in flags if f[0] != key])
        yield {"family": "cli.keeps-file", "kind": "keeps", "key": key, "value": _value(rng, tag, n), "tag": tag,
               "other": [other[0], other[1][0], other[1][1], _value(rng, other[1][0], n)]}
    binds = ["127.0.0.{a}:0", "127.0.0.{a}", "[::1]:0", "[::1]", "localhost:0", "unix:{tmp}/s.sock", "fd://stream", "fd://dgram-as-stream",
             # (inherited descriptors for a datagram bind - quic_bind: a UDP one is taken, a TCP one is refused)
             "fd://dgram|dgram", "fd://stream|dgram",
             "127.0.0.{a}:0|dgram", "[::]:0", "0.0.0.0:0",
             # relative unix paths (resolved against the working directory, which the check moves into its scratch directory): the path is
             # everything after the "unix:" prefix, whatever characters it starts with
             "unix:instance.sock", "unix:nginx-upstream.sock", "unix:x.sock", "unix:unix.sock", "unix:./rel.sock", "unix::odd.sock"]
    for b in binds:
        for i in range(3 if tier == "quick" else 6):
            n += 1
            yield {"family": "bind", "kind": "bind", "bind": b, "alias": rng.randint(2, 250), "workers": rng.choice([1, 2])}
    # lists of binds: every entry must get its own socket, in order, independent of its neighbours
    entries = ["127.0.0.{a}:0", "[::1]:0", "unix:{tmp}/s%d.sock", "fd://bound", "fd://unbound"]
    for i in range(30 if tier == "quick" else 300):
        k = rng.choice([2, 2, 3, 4])
        lst = [rng.choice(entries) for _ in range(k)]
        if not any(e.startswith("fd://") for e in lst):
            lst[rng.randrange(k)] = rng.choice(["fd://bound", "fd://unbound"])
        yield {"family": "bind-list", "kind": "bind-list", "binds": lst, "alias": rng.randint(2, 250)}
    # alt-svc derived from the bound QUIC sockets: belongs to the configuration that asked for it, wherever that object travels
    for i in range(6 if tier == "quick" else 40):
        yield {"family": "alt-svc", "kind": "alt-svc", "order": rng.choice(["other_first", "other_after", "tls_noquic_after"]),
               "nquic": rng.choice([1, 2]), "explicit": rng.random() < 0.25}
    for i in range(40 if tier == "quick" else 200):
        yield {"family": "headers", "kind": "headers", "date": rng.random() < 0.7, "server": rng.random() < 0.7,
               "alt": rng.choice([[], ['h3=":443"; ma=3600'], ['h3=":443"', 'h3-29=":443"']]), "proto": rng.choice(["h11", "h2", "h3"]),
               "tz": rng.choice([None, None, "JST-9", "EST5EDT", "UTC0", "NPT-5:45", "AST4"])}
    # the date on the wire (real serve(), real clock): every response says when *it* was sent - also the later ones of a connection that
    # has been open for a while, also the first one of a connection that had been idle before its request came
    for be in ("asyncio", "trio"):
        for how in ("second-response", "late-first-request"):
            yield {"family": "date-on-wire." + how, "kind": "date-wire", "backend": be, "how": how, "proto": "h1" if how == "late-first-request" else rng.choice(["h1", "h2"])}
    for rp in ["", "/", "/api", "/api/", "/a/b//", "//", "/x///"]:
        for loader in ("attr", "mapping", "cli", "toml"):
            yield {"family": "root-path", "kind": "root", "value": rp, "loader": loader}


# ---- helpers ------------------------------------------------------------------------------------

def _toml_value(v):
    if isinstance(v, bool):
        return "true" if v else "false"
    if isinstance(v, (int, float)):
        return repr(v)
    if isinstance(v, str):
        return '"%s"' % v.replace("\\", "\\\\").replace('"', '\\"')
    return "[" + ", ".join(_toml_value(x) for x in v) + "]"


def _run_main(argv):
    import hypercorn.__main__ as m

    captured = {}

    def fake_run(config):
        captured["config"] = config
        return 0

    old = m.run
    m.run = fake_run
    try:
        import warnings

        with warnings.catch_warnings():
            warnings.simplefilter("ignore")
            m.main(argv)
    finally:
        m.run = old
    return captured["config"]


def _cli_args(flag, tag, value):
    if tag == "bool":
        return [flag]
    if tag == "strlist":
        out = []
        for v in value:
            out += [flag, v]
        return out
    return [flag, str(value)]


def _expected_attr(key, tag, value):
    if key == "root_path":
        return value.rstrip("/")
    if tag == "vm":
        return ssl.VerifyMode[value]
    if tag == "certreqs":
        return ssl.VerifyMode(value)
    return value


def _date_on_wire(case, tally):
    import email.utils

    from ..wire.h2raw import FrameBuilder, FrameReader, client_preface
    from ..world.realnet import ServeHarness, recv_until

    apps = {"lifespan": [["recv"], ["send", {"type": "lifespan.startup.complete"}], ["recv"], ["send", {"type": "lifespan.shutdown.complete"}]],
            "default": [["recv_until_end"], ["respond", 200, [(b"content-length", b"2")], b"ok"]]}
    h = ServeHarness(case["backend"], {"keep_alive_timeout": 30.0, "graceful_timeout": 0.5, "shutdown_timeout": 0.5}, apps)
    dates = []
    try:
        h.start()
        h.wait_ready()
        s = h.connect()
        if s is None:
            tally.inconclusive["date-wire:no-connection"] += 1
            return []

        def ask_h1():
            t0 = time.time()
            s.sendall(b"GET /d HTTP/1.1\r\nHost: h\r\n\r\n")
            head = recv_until(s, b"\r\n\r\nok", timeout=3.0)
            t1 = time.time()
            d = [ln.split(b":", 1)[1].strip() for ln in head.split(b"\r\n") if ln.lower().startswith(b"date:")]
            dates.append((t0, t1, d))

        if case["proto"] == "h1":
            if case["how"] == "second-response":
                ask_h1()
            time.sleep(2.2)
            ask_h1()
        else:
            fb, rd = FrameBuilder(), FrameReader()
            s.sendall(client_preface(fb, {}))
            for k, sid in enumerate((1, 3)):
                if k:
                    time.sleep(2.2)
                t0 = time.time()
                s.sendall(fb.headers(sid, [(b":method", b"GET"), (b":scheme", b"http"), (b":path", b"/d"), (b":authority", b"h")], end_stream=True))
                evs, end = [], time.time() + 3.0
                s.settimeout(0.3)
                while time.time() < end and not any(e["t"] == "headers" and e["sid"] == sid for e in evs):
                    try:
                        x = s.recv(65536)
                    except OSError:
                        continue
                    if not x:
                        break
                    evs += rd.feed(x)
                t1 = time.time()
                hd = next((e["headers"] for e in evs if e["t"] == "headers" and e["sid"] == sid), None) or []
                dates.append((t0, t1, [bytes(v) for n_, v in hd if bytes(n_) == b"date"]))
        s.close()
    finally:
        h.close()
    out = []
    tally.clause("headers")
    t0, t1, d = dates[-1]
    ok = False
    if len(d) == 1:
        try:
            sent = email.utils.parsedate_to_datetime(d[0].decode("ascii")).timestamp()
            ok = t0 - 1.0 <= sent <= t1 + 1.0
        except Exception:
            ok = False
    if not ok:
        out.append({"clause": "headers", "sig": "C19.headers/date-on-wire/%s" % case["how"],
                    "detail": "%s, %s: the response sent between %.1f and %.1f (epoch) carries date %r (earlier responses of the connection: %r)" % (
                        case["proto"], case["how"], t0, t1, d, [x[2] for x in dates[:-1]])})
    return out


def run_one(case, tally):
    from hypercorn.config import Config

    findings = []
    kind = case["kind"]
    tmp = tempfile.mkdtemp(prefix="hv-c19-")
    try:
        if kind == "loaders":
            key, value = case["key"], case["value"]
            snaps = {}
            snaps["mapping"] = snapshot(Config.from_mapping({key: value}))
            snaps["kwargs"] = snapshot(Config.from_mapping(**{key: value}))
            obj = types.SimpleNamespace(**{key: value})
            snaps["object"] = snapshot(Config.from_object(obj))
            # "Python object": the usual shapes of a settings object - a class, a class that inherits its settings, an instance whose
            # settings are class attributes, an instance of a class with __slots__
            base = type("Base", (), {key: value})
            snaps["object-class"] = snapshot(Config.from_object(base))
            snaps["object-subclass"] = snapshot(Config.from_object(type("Production", (base,), {})))
            snaps["object-instance-of-class"] = snapshot(Config.from_object(base()))
            try:
                slotted = type("Slotted", (), {"__slots__": (key,)})()
                setattr(slotted, key, value)
                snaps["object-slots"] = snapshot(Config.from_object(slotted))
            except Exception as e:  # the loader has to cope; what it raises is reported as a disagreement
                snaps["object-slots"] = "raised %s" % type(e).__name__
            modname = "hv_c19_mod_%d" % (abs(hash((key, repr(value)))) % 10 ** 9)
            with open(os.path.join(tmp, modname + ".py"), "w") as f:
                f.write("%s = %r\n" % (key, value))
            sys.path.insert(0, tmp)
            try:
                importlib.invalidate_caches()
                snaps["module"] = snapshot(Config.from_object(modname))
            finally:
                sys.path.remove(tmp)
                sys.modules.pop(modname, None)
            # a Python file is what holds Python source, whatever it is called (hypercorn.conf, settings.cfg ...)
            pyf = os.path.join(tmp, "conf" + [".py", ".py", ".conf", ".cfg", ""][case.get("n", 0) % 5])
            with open(pyf, "w") as f:
                f.write("%s = %r\n" % (key, value))
            try:
                snaps["pyfile"] = snapshot(Config.from_pyfile(pyf))
            except Exception as e:
                snaps["pyfile"] = "raised %s for %s" % (type(e).__name__, os.path.basename(pyf))
            tf = os.path.join(tmp, "conf.toml")
            with open(tf, "w") as f:
                f.write("%s = %s\n" % (key, _toml_value(value)))
            snaps["toml"] = snapshot(Config.from_toml(tf))
            base = _run_main(["app:app"])
            if case["flag"]:
                try:
                    with contextlib.redirect_stderr(io.StringIO()):
                        cli = snapshot(_run_main(["app:app"] + _cli_args(case["flag"], case["tag"], value)))
                    cli["application_path"] = snaps["mapping"]["application_path"]
                except SystemExit:
                    cli = "rejected by the argument parser"
                snaps["cli"] = cli
            tally.clause("loaders-agree")
            exp = repr(_expected_attr(key, case["tag"], value))
            ref = snaps["mapping"]
            if ref[key] != exp:
                findings.append({"clause": "loaders-agree", "sig": "C19.loader/mapping/%s" % key,
                                 "detail": "from_mapping({%r: %r}) gives %s" % (key, value, ref[key])})
            for name, sn in snaps.items():
                if isinstance(sn, str):
                    findings.append({"clause": "loaders-agree", "sig": "C19.loader/%s/raised" % name, "detail": "%s=%r: loader %s %s" % (key, value, name, sn)})
                    continue
                diff = {k: (ref[k], sn[k]) for k in ref if ref[k] != sn[k]}
                if diff:
                    findings.append({"clause": "loaders-agree", "sig": "C19.loader/%s/%s" % (name, sorted(diff)[0]),
                                     "detail": "%s=%r: loader %s differs from mapping in %r" % (key, value, name, diff)})
        elif kind == "special":
            key, value = case["key"], case["value"]
            import warnings

            def load_all():
                out = {}
                out["mapping"] = Config.from_mapping({key: value})
                out["kwargs"] = Config.from_mapping(**{key: value})
                out["object"] = Config.from_object(types.SimpleNamespace(**{key: value}))
                pyf = os.path.join(tmp, "conf.py")
                with open(pyf, "w") as f:
                    f.write("%s = %r\n" % (key, value))
                out["pyfile"] = Config.from_pyfile(pyf)
                tf = os.path.join(tmp, "conf.toml")
                with open(tf, "w") as f:
                    f.write("%s = %s\n" % (key, _toml_value(value)))
                out["toml"] = Config.from_toml(tf)
                out["cli-config-file"] = _run_main(["cliapp:app", "-c", tf])
                return out

            with warnings.catch_warnings():
                warnings.simplefilter("ignore")
                cfgs = load_all()
                direct = Config()
                setattr(direct, key, value)
            tally.clause("loaders-agree")
            attr = "verify_mode" if key == "cert_reqs" else key
            want = repr(getattr(direct, attr))
            for name, cfg in cfgs.items():
                if name == "cli-config-file" and key == "application_path":
                    continue  # the positional argument wins by design
                got = repr(getattr(cfg, attr, "<unset>"))
                if got != want:
                    findings.append({"clause": "loaders-agree", "sig": "C19.loader/%s/%s" % (name, key),
                                     "detail": "%s=%r through %s gives %s=%s; assigning it directly gives %s" % (key, value, name, attr, got, want)})
        elif kind == "cli":
            base = snapshot(_run_main(["app:app"]))
            argv = ["app:app"]
            expect = dict(base)
            for key, tag, flag, value in case["flags"]:
                argv += _cli_args(flag, tag, value)
                expect[key] = repr(_expected_attr(key, tag, value))
            try:
                with contextlib.redirect_stderr(io.StringIO()):
                    got = snapshot(_run_main(argv))
            except SystemExit:
                got = None
            tally.clause("cli-delta")
            diff = {k: (expect[k], got[k]) for k in expect if expect[k] != got[k]} if got else {}
            if got is None:
                # say which flag: each alone
                bad = []
                for key, tag, flag, value in case["flags"]:
                    try:
                        with contextlib.redirect_stderr(io.StringIO()):
                            _run_main(["app:app"] + _cli_args(flag, tag, value))
                    except SystemExit:
                        bad.append((flag, value))
                findings.append({"clause": "cli-delta", "sig": "C19.cli-rejects/%s" % (bad[0][0].lstrip("-") if bad else "combination"),
                                 "detail": "argv %r rejected by the argument parser (%r); the same value is taken from a mapping or a file" % (argv, bad)})
            elif diff:
                k0 = sorted(diff)[0]
                fl = "+".join(f[2] for f in case["flags"])
                # name the flag that is responsible: the one whose own attribute is wrong, else the first
                culprit = next((f[2] for f in case["flags"] if f[0] in diff), case["flags"][0][2])
                findings.append({"clause": "cli-delta", "sig": "C19.cli/%s" % culprit.lstrip("-"),
                                 "detail": "argv %r: expected!=got for %r" % (argv, diff)})
        elif kind == "keeps":
            key, value = case["key"], case["value"]
            tf = os.path.join(tmp, "conf.toml")
            with open(tf, "w") as f:
                f.write("%s = %s\n" % (key, _toml_value(value)))
            ok, tg, ofl, oval = case["other"]
            try:
                with contextlib.redirect_stderr(io.StringIO()):
                    got = snapshot(_run_main(["app:app", "-c", tf] + _cli_args(ofl, tg, oval)))
            except SystemExit:
                got = None
            tally.clause("cli-keeps-file")
            exp = repr(_expected_attr(key, case["tag"], value))
            if got is None:
                findings.append({"clause": "cli-keeps-file", "sig": "C19.cli-rejects/%s" % ofl.lstrip("-"),
                                 "detail": "%s %r rejected by the argument parser" % (ofl, oval)})
            elif got[key] != exp:
                findings.append({"clause": "cli-keeps-file", "sig": "C19.cli-overrides-file/%s" % key,
                                 "detail": "config file sets %s=%r; command line with only %s given: %s is now %s" % (key, value, ofl, key, got[key])})
        elif kind == "bind":
            findings += _check_bind(case, tmp, tally)
        elif kind == "bind-list":
            findings += _check_bind_list(case, tmp, tally)
        elif kind == "alt-svc":
            findings += _check_alt_svc(case, tally)
        elif kind == "date-wire":
            findings += _date_on_wire(case, tally)
        elif kind == "headers":
            cfg = Config()
            cfg.include_date_header = case["date"]
            cfg.include_server_header = case["server"]
            cfg.alt_svc_headers = list(case["alt"])
            # (the date is GMT whatever the time zone of the process)
            old_tz = os.environ.get("TZ")
            if case.get("tz"):
                os.environ["TZ"] = case["tz"]
                time.tzset()
            try:
                t0 = time.time()
                hs = cfg.response_headers(case["proto"])
                t1 = time.time()
            finally:
                if case.get("tz"):
                    if old_tz is None:
                        os.environ.pop("TZ", None)
                    else:
                        os.environ["TZ"] = old_tz
                    time.tzset()
            tally.clause("headers")
            exp = []
            names = [n for n, _ in hs]
            dates = [v for n, v in hs if n == b"date"]
            if case["date"]:
                ok = False
                if len(dates) == 1:
                    try:
                        s = dates[0].decode("ascii")
                        dt = parsedate_to_datetime(s)
                        import re

                        ok = bool(re.match(r"^(Mon|Tue|Wed|Thu|Fri|Sat|Sun), \d{2} (Jan|Feb|Mar|Apr|May|Jun|Jul|Aug|Sep|Oct|Nov|Dec) \d{4} \d{2}:\d{2}:\d{2} GMT$", s)) \
                            and int(t0) - 1 <= dt.timestamp() <= t1 + 1
                    except Exception:
                        ok = False
                if not ok:
                    findings.append({"clause": "headers", "sig": "C19.headers/date", "detail": "date header %r (process time zone %r, epoch %d)" % (dates, case.get("tz"), t0)})
            elif dates:
                findings.append({"clause": "headers", "sig": "C19.headers/date-unwanted", "detail": "date header present"})
            rest = [(n, v) for n, v in hs if n != b"date"]
            want = ([(b"server", ("hypercorn-%s" % case["proto"]).encode())] if case["server"] else []) + [(b"alt-svc", a.encode()) for a in case["alt"]]
            if rest != want:
                findings.append({"clause": "headers", "sig": "C19.headers/server-altsvc", "detail": "headers %r expected %r" % (rest, want)})
        elif kind == "root":
            v = case["value"]
            if case["loader"] == "attr":
                cfg = Config()
                cfg.root_path = v
            elif case["loader"] == "mapping":
                cfg = Config.from_mapping({"root_path": v})
            elif case["loader"] == "toml":
                tf = os.path.join(tmp, "c.toml")
                with open(tf, "w") as f:
                    f.write("root_path = %s\n" % _toml_value(v))
                cfg = Config.from_toml(tf)
            else:
                cfg = _run_main(["app:app", "--root-path", v]) if v else Config()
            tally.clause("root-path")
            if cfg.root_path.endswith("/"):
                findings.append({"clause": "root-path", "sig": "C19.root-path/trailing-slash", "detail": "root_path %r -> %r" % (v, cfg.root_path)})
    finally:
        shutil.rmtree(tmp, ignore_errors=True)
    return findings, [None]


_AUDIT = {"on": False, "events": []}
_HOOKED = [False]


def _hook(event, args):
    if _AUDIT["on"] and event == "socket.bind":
        try:
            sock, addr = args
            _AUDIT["events"].append((sock.family, sock.type, addr))
        except Exception:
            pass


def ref_parse(bind):
    """Reference parser written from docs/how_to_guides/binds.rst: (family, address) for host:port, bare host, [v6]:port."""
    if bind.startswith("["):
        host, _, rest = bind[1:].partition("]")
        port = int(rest[1:]) if rest.startswith(":") else 8000
        return socket.AF_INET6, (host, port)
    if bind.count(":") == 1:
        host, port = bind.split(":")
        return socket.AF_INET, (host, int(port))
    if ":" in bind:
        return socket.AF_INET6, (bind, 8000)
    return socket.AF_INET, (bind, 8000)


def _check_bind(case, tmp, tally):
    from hypercorn.config import Config

    out = []
    if not _HOOKED[0]:
        sys.addaudithook(_hook)
        _HOOKED[0] = True
    spec = case["bind"]
    dgram = spec.endswith("|dgram")
    spec = spec.replace("|dgram", "")
    b = spec.format(a=case["alias"], tmp=tmp)
    cfg = Config()
    cfg.workers = case["workers"]
    holder = []
    try:
        if b.startswith("fd://"):
            typ = socket.SOCK_DGRAM if b.startswith("fd://dgram") else socket.SOCK_STREAM
            pre = socket.socket(socket.AF_INET, typ)
            pre.bind(("127.0.0.1", 0))
            holder.append(pre)
            bindstr = "fd://%d" % pre.fileno()
            tally.clause("bind")
            want = socket.SOCK_DGRAM if dgram else socket.SOCK_STREAM
            try:
                socks = cfg._create_sockets([bindstr], want)
                if typ != want:
                    out.append({"clause": "bind", "sig": "C19.bind/fd-type-not-checked", "detail": "a %s descriptor was accepted for a %s bind" % (typ.name, want.name)})
                else:
                    s = socks[0]
                    if s.getsockname() != pre.getsockname() or s.type != want:
                        out.append({"clause": "bind", "sig": "C19.bind/fd", "detail": "fd socket %r (type %r) != %r (%s)" % (s.getsockname(), s.type, pre.getsockname(), want.name)})
                    s.detach()
            except Exception as e:
                if typ == want:
                    out.append({"clause": "bind", "sig": "C19.bind/fd-error", "detail": "a %s descriptor for a %s bind: %r" % (typ.name, want.name, e)})
            return out
        _AUDIT["events"].clear()
        _AUDIT["on"] = True
        cwd = os.getcwd()
        try:
            if b.startswith("unix:") and not b.startswith("unix:/"):
                os.makedirs(os.path.join(tmp, "u"), exist_ok=True)
                os.chdir(tmp)
            socks = cfg._create_sockets([b], socket.SOCK_DGRAM if dgram else socket.SOCK_STREAM)
            err = None
        except OSError as e:
            socks, err = [], e
        finally:
            _AUDIT["on"] = False
        try:
            holder.extend(socks)
            tally.clause("bind")
            if b.startswith("unix:"):
                if err is not None or not socks or socks[0].family != socket.AF_UNIX or socks[0].getsockname() != b[5:] or not os.path.exists(b[5:]):
                    out.append({"clause": "bind", "sig": "C19.bind/unix", "detail": "unix bind %r -> %r %r (exists: %r)" % (
                        b, err, socks and socks[0].getsockname(), os.path.exists(b[5:]))})
                return out
        finally:
            os.chdir(cwd)
        holder.extend(socks)
        tally.clause("bind")
        if b.startswith("unix:"):
            if err is not None or not socks or socks[0].family != socket.AF_UNIX or socks[0].getsockname() != b[5:] or not os.path.exists(b[5:]):
                out.append({"clause": "bind", "sig": "C19.bind/unix", "detail": "unix bind %r -> %r %r" % (b, err, socks and socks[0].getsockname())})
            return out
        fam, addr = ref_parse(b)
        if err is not None:
            import errno

            if getattr(err, "errno", None) == errno.EADDRINUSE:
                tally.inconclusive["EADDRINUSE"] += 1
                return out
            shape = "bare-bracketed-ipv6" if b.startswith("[") and "]:" not in b else ("ipv6" if fam == socket.AF_INET6 else "ipv4")
            out.append({"clause": "bind", "sig": "C19.bind/%s" % shape,
                        "detail": "bind string %r should bind %s %r but raised %r" % (b, fam.name, addr, err)})
            return out
        ev = _AUDIT["events"]
        want_type = socket.SOCK_DGRAM if dgram else socket.SOCK_STREAM
        if len(ev) != 1:
            out.append({"clause": "bind", "sig": "C19.bind/count", "detail": "%d bind calls for %r" % (len(ev), b)})
            return out
        gfam, gtype, gaddr = ev[0]
        resolved_ok = gaddr[0] == addr[0] or (addr[0] == "localhost" and gaddr[0] in ("localhost", "127.0.0.1"))
        if gfam != fam or (gtype & 0xF) != want_type or not resolved_ok or gaddr[1] != addr[1]:
            out.append({"clause": "bind", "sig": "C19.bind/mismatch", "detail": "bind string %r: bind(%r, type %r, %r) expected (%r, %r, %r)" % (
                b, gfam, gtype, gaddr, fam, want_type, addr)})
    finally:
        for s in holder:
            try:
                s.close()
            except Exception:
                pass
    return out


def _check_alt_svc(case, tally):
    import pickle
    import types

    from hypercorn.config import Config

    out = []
    try:
        from aioquic.h3.connection import H3_ALPN  # noqa: F401
    except ImportError:  # only the constant is needed to render the header
        conn = types.ModuleType("aioquic.h3.connection")
        conn.H3_ALPN = ["h3"]
        sys.modules.update({"aioquic": types.ModuleType("aioquic"), "aioquic.h3": types.ModuleType("aioquic.h3"), "aioquic.h3.connection": conn})

    def alt(cfg):
        return [v for n, v in cfg.response_headers("h2") if n == b"alt-svc"]

    def mk(quic):
        c = Config()
        c.certfile, c.keyfile = "cert.pem", "key.pem"  # ssl_enabled only looks at whether they are set
        c.bind = ["127.0.0.1:0"]
        if quic:
            c.quic_bind = ["127.0.0.1:0"] * quic
        return c

    socks = []
    try:
        other = Config() if case["order"] == "other_first" else None
        a = mk(case["nquic"])
        if case["explicit"]:
            a.alt_svc_headers = ['h3=":8443"; ma=60']
        sa = a.create_sockets()
        socks += sa.secure_sockets + sa.insecure_sockets + sa.quic_sockets
        ports = [q.getsockname()[1] for q in sa.quic_sockets]
        want = [b'h3=":8443"; ma=60'] if case["explicit"] else [b'h3=":%d"; ma=3600' % p for p in ports]
        if case["order"] == "other_after":
            other = Config()
        if case["order"] == "tls_noquic_after":
            other = mk(0)
            so = other.create_sockets()
            socks += so.secure_sockets + so.insecure_sockets + so.quic_sockets
        tally.clause("headers")
        tally.clause("alt-svc")
        if sorted(alt(a)) != sorted(want):
            out.append({"clause": "headers", "sig": "C19.alt-svc/own-config", "detail": "config with quic sockets on ports %r advertises %r, expected %r (order %s)" % (ports, alt(a), want, case["order"])})
        if alt(other):
            out.append({"clause": "headers", "sig": "C19.alt-svc/leaked-to-other-config", "detail": "a configuration without QUIC binds advertises %r (order %s)" % (alt(other), case["order"])})
        try:
            b = pickle.loads(pickle.dumps(a))  # what a spawned worker process receives
            if sorted(alt(b)) != sorted(want):
                out.append({"clause": "headers", "sig": "C19.alt-svc/lost-in-worker-copy", "detail": "the pickled copy of the configuration advertises %r, expected %r" % (alt(b), want)})
        except Exception as e:
            tally.notes["config-not-picklable:%s" % type(e).__name__] += 1
    finally:
        for sck in socks:
            try:
                sck.close()
            except Exception:
                pass
    return out


def _check_bind_list(case, tmp, tally):
    from hypercorn.config import Config

    out = []
    if not _HOOKED[0]:
        sys.addaudithook(_hook)
        _HOOKED[0] = True
    cfg = Config()
    holder, binds, expect = [], [], []
    try:
        for i, spec in enumerate(case["binds"]):
            if spec.startswith("fd://"):
                pre = socket.socket(socket.AF_INET, socket.SOCK_STREAM)
                if spec == "fd://bound":
                    pre.bind(("127.0.0.1", 0))
                holder.append(pre)
                binds.append("fd://%d" % pre.fileno())
                expect.append(("fd", pre.getsockname()))
            elif spec.startswith("unix:"):
                b = (spec % i).format(tmp=tmp)
                binds.append(b)
                expect.append(("unix", b[5:]))
            else:
                b = spec.format(a=case["alias"])
                binds.append(b)
                expect.append(("ip",) + ref_parse(b))
        _AUDIT["events"].clear()
        _AUDIT["on"] = True
        try:
            socks = cfg._create_sockets(binds, socket.SOCK_STREAM)
            err = None
        except Exception as e:
            socks, err = [], e
        finally:
            _AUDIT["on"] = False
        tally.clause("bind")
        tally.clause("bind-list")
        if err is not None:
            import errno

            if getattr(err, "errno", None) == errno.EADDRINUSE:
                tally.inconclusive["EADDRINUSE"] += 1
                return out
            out.append({"clause": "bind", "sig": "C19.bind-list/error/%s" % type(err).__name__,
                        "detail": "bind list %r (%r) raised %r" % (case["binds"], binds, err)})
            return out
        if len(socks) != len(binds):
            out.append({"clause": "bind", "sig": "C19.bind-list/count", "detail": "%d sockets for %r" % (len(socks), binds)})
            return out
        nbinds = sum(1 for e in expect if e[0] != "fd")
        if len(_AUDIT["events"]) != nbinds:
            out.append({"clause": "bind", "sig": "C19.bind-list/bind-calls",
                        "detail": "%d bind() calls for %r; %d entries need one (inherited descriptors must be adopted untouched): %r" % (
                            len(_AUDIT["events"]), case["binds"], nbinds, _AUDIT["events"])})
        for sck, exp, b in zip(socks, expect, binds):
            name = sck.getsockname()
            if exp[0] == "fd":
                ok = name == exp[1] and sck.family == socket.AF_INET
            elif exp[0] == "unix":
                ok = sck.family == socket.AF_UNIX and name == exp[1]
            else:
                ok = sck.family == exp[1] and name[0] == exp[2][0]
            if not ok:
                out.append({"clause": "bind", "sig": "C19.bind-list/%s-entry" % exp[0],
                            "detail": "entry %r of %r produced a %s socket named %r, expected %r" % (b, case["binds"], sck.family.name, name, exp[1:])})
        for sck in socks:
            try:
                sck.detach() if sck.fileno() in [p.fileno() for p in holder] else sck.close()
            except Exception:
                pass
    finally:
        for sck in holder:
            try:
                sck.close()
            except Exception:
                pass
    return out


def nontrivial(case, obs):
    return True


def check(case, obs, tally):
    return []
