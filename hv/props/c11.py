"""C11 — WebSocket handshake validation and lifecycle mapping."""
from __future__ import annotations

import itertools

from ..wire import h1, ws
from ..wire.h2raw import FrameBuilder, client_preface

ID = "C11"
LEVEL = "exploration"
BUDGET = {"quick": 40, "thorough": 400}
TECHNIQUE = ("validity predicate and close-code table written from the statement, RFC 6455 accept token recomputed with "
             "hashlib, strict parse of the handshake response; product enumeration of a finite handshake-header alphabet")
LEVEL_TEXT = ("Exhaustive product over {version, key, Connection spelling, Upgrade spelling, HTTP version, subprotocol offer, "
              "extension offer} x application decisions (accept, accept+subprotocol offered/not offered, accept+headers incl. "
              "forbidden, close, HTTP response extension with 0-3 chunks, crash) x closing orders (client first with/without code, "
              "server first, abrupt EOF/reset) x carriers x workers (sampled in quick).")
LEVEL_NOTE = "Trusted: hv/wire/ws.py + h1 parser; hashlib for the accept token."
RULE = ("product enumeration as above, shuffled by seed and truncated in quick; non-trivial = the opening was classified a "
        "WebSocket opening by the statement's rule and a decision/close clause was evaluated; distinct = case hash")
ASSUMPTIONS = ["non-GET or Connection without 'upgrade' is plain HTTP (C13), not an invalid WebSocket",
               "duplicated handshake fields are generated with equal values only"]
MIN_DECISIVE = {"validity": 30, "accept": 20, "decision": 20, "close-code": 20}

KEY = b"dGhlIHNhbXBsZSBub25jZQ=="


def _decision_script(dec):
    kind = dec[0]
    if kind == "retry":
        # a first accept the HTTP/1.1 serialiser refuses (a header name that is no token) is raised into the application, which then decides again
        inner = _decision_script(dec[1])
        return [inner[0], ["try_send", {"type": "websocket.accept", "headers": [(b"x bad name", b"1")]}]] + inner[1:]
    if kind == "accept":
        m = {"type": "websocket.accept"}
        if dec[1] is not None:
            m["subprotocol"] = dec[1]
        if dec[2]:
            m["headers"] = dec[2]
        return [["recv"], ["send", m], ["recv_until_disconnect"]]
    if kind == "close":
        return [["recv"], ["send", {"type": "websocket.close"}], ["linger", 1.0]]
    if kind == "close_wait":
        # ... and then waits, as applications do, for the websocket.disconnect that ends every WebSocket scope
        return [["recv"], ["send", {"type": "websocket.close"}], ["recv_until_disconnect"], ["note", "saw-disconnect"]]
    if kind == "http":
        status, headers, chunks = dec[1], dec[2], dec[3]
        start = {"type": "websocket.http.response.start", "status": status, "headers": headers}
        if headers is None:
            del start["headers"]  # optional in the specification (default: none)
        sc = [["recv"], ["send", start]]
        for i, c in enumerate(chunks):
            sc.append(["send", {"type": "websocket.http.response.body", "body": c, "more_body": i < len(chunks) - 1}])
        if not chunks:
            sc.append(["send", {"type": "websocket.http.response.body", "body": b"", "more_body": False}])
        if len(dec) > 4 and dec[4] == "wait":
            sc += [["recv_until_disconnect"], ["note", "saw-disconnect"]]
        else:
            sc.append(["linger", 1.0])
        return sc
    if kind == "crash":
        return [["recv"], ["raise", "Exception"]]
    if kind == "accept_then_close":
        m = {"type": "websocket.close", "code": dec[1]}
        if dec[2] is not None:
            m["reason"] = dec[2]
        return [["recv"], ["send", {"type": "websocket.accept"}], ["wait", "go"], ["send", m], ["recv_until_disconnect"]]
    raise ValueError(kind)


def gen(rng, tier):
    cases = []
    versions = [None, b"8", b"12", b"13"]
    # ("a key": the base64 of sixteen octets, RFC 6455 4.1 - an empty value or one that decodes to something else is none)
    keys = ["absent", "valid", "dup", "empty", "malformed"]
    # the last two: one list on two header lines (RFC 7230 3.2.2)
    conns = [b"Upgrade", b"upgrade", b"keep-alive, Upgrade", b"UPGRADE", b"Upgrade\r\nConnection: keep-alive", b"keep-alive\r\nConnection: upgrade"]
    # (Upgrade is a list as well: the client may offer other protocols beside websocket, on one line or on two)
    upgs = [b"websocket", b"WebSocket", b"WEBSOCKET", b"websocket, other/1", b"other/1\r\nUpgrade: websocket"]
    httpvs = ["1.1", "1.1", "1.0", "2"]
    protos = [None, [b"chat"], [b"chat", b"superchat"]]
    exts = [None, b"permessage-deflate", b"x-unknown-ext"]
    decisions = [("accept", None, None), ("accept", "chat", None), ("accept", "nope", None),
                 ("accept", None, [(b"x-extra", b"1"), (b"x-two", b"2")]),
                 ("accept", None, [(b"sec-websocket-protocol", b"chat")]), ("accept", None, [(b":status", b"200")]),
                 ("close",), ("close_wait",), ("http", 401, [(b"x-why", b"auth"), (b"content-length", b"6")], [b"de", b"ni", b"ed"]),
                 ("http", 307, [(b"location", b"/elsewhere")], []), ("http", 200, [], [b"plain"]), ("http", 403, None, [b"no-headers-key"]), ("http", 401, [(b"x-why", b"auth")], [b"de", b"nied"], "wait"), ("crash",)]
    # ---- handshake validity product ---------------------------------------------------------
    for ver, key, conn, upg, hv, pr, ex in itertools.product(versions, keys, conns, upgs, httpvs, protos, exts):
        cases.append(("hs", ver, key, conn, upg, hv, pr, ex, rng.choice(decisions)))
    # ---- decisions on valid handshakes --------------------------------------------------------
    for dec in decisions:
        for hv in ("1.1", "2"):
            for pr in protos:
                for ex in exts:
                    cases.append(("hs", b"13", "valid", b"Upgrade", b"websocket", hv, pr, ex, dec))
    # ---- closing orders -------------------------------------------------------------------------
    for hv in ("1.1", "2"):
        for order in ("client_code", "client_nocode", "server", "eof", "reset", "server_then_client_silent", "client_code_echo_fails",
                      "server_write_blocked_then_client", "stream_end", "stream_end_at_open"):
            codes = {"client_code": [1000, 1001, 3000, 4999], "server": [1000, 1001, 3999, 4000], "client_code_echo_fails": [1001, 3000, None],
                     "server_write_blocked_then_client": [1000, 1001]}.get(order, [None])
            for code in codes:
                for reason in (None, "bye"):
                    if order != "server" and reason:
                        continue
                    if order == "server_write_blocked_then_client" and hv == "2":
                        continue  # HTTP/1.1 carrier only (the write is held up at the transport)
                    if order in ("stream_end", "stream_end_at_open") and hv != "2":
                        continue  # HTTP/2 carrier only: the client ends its side of the stream without a Close frame (RFC 8441 5: the TCP FIN of the tunnel)
                    cases.append(("close", hv, order, code, reason))
    # ---- requests that carry handshake fields but are not openings: no upgrade may be attempted ------------
    for method in (b"POST", b"OPTIONS", b"HEAD", b"PUT", b"DELETE"):
        for dec in (("accept", None, None), ("close",)):
            cases.append(("nonws", method, b"websocket", b"Upgrade", dec))
    for upg, conn in ((None, b"Upgrade"), (b"websocket", None), (b"websocket", b"keep-alive"), (b"h2c-not", b"Upgrade"), (b"websocket2", b"Upgrade")):
        cases.append(("nonws", b"GET", upg, conn, ("accept", None, None)))
    # ---- subprotocols offered in several header lines (RFC 6455 11.3.4), accepted one by one; forbidden extra header in any case;
    # ---- HTTP/2 CONNECT that is not an extended CONNECT to a WebSocket
    for hv in ("1.1", "2"):
        for sub in ("chat", "superchat", "nope", None):
            cases.append(("hs-x", hv, {"split_protos": True}, ("accept", sub, None)))
        for nm_ in (b"Sec-WebSocket-Protocol", b"SEC-WEBSOCKET-PROTOCOL", b"sec-websocket-Protocol"):
            cases.append(("hs-x", hv, {}, ("accept", None, [(nm_, b"evil")])))
    for inner in (("close",), ("accept", None, [(b"x-extra", b"1")]), ("http", 401, [(b"x-why", b"auth")], [b"nope"])):
        cases.append(("hs-x", "1.1", {}, ("retry", inner)))
    for pv in (None, b"h2c-tunnel", b"WebSocket2", b""):
        for dec in (("accept", None, None), ("close",)):
            cases.append(("hs-x", "2", {"h2_protocol": pv}, dec))
    closing = [c for c in cases if c[0] in ("close", "nonws", "hs-x")]
    hs = [c for c in cases if c[0] != "close"]
    rng.shuffle(hs)
    if tier == "quick":
        hs = hs[:2600]
    cases = closing + hs
    n = 0
    for c in cases:
        n += 1
        if c[0] == "hs":
            yield _hs_case(rng, n, *c[1:])
        elif c[0] == "hs-x":
            _, hv, opt, dec = c
            pr = [b"chat", b"superchat"] if opt.get("split_protos") else None
            case = _hs_case(rng, n, b"13", "valid", b"Upgrade", b"websocket", hv, pr, None, dec)
            case["family"] += ".x"
            if opt.get("split_protos"):
                case["truth"]["split_protos"] = True
                if hv == "2":
                    fb = FrameBuilder()
                    hdrs = [(b":method", b"CONNECT"), (b":protocol", b"websocket"), (b":scheme", b"http"), (b":path", b"/t%d" % n), (b":authority", b"ws.example"),
                            (b"sec-websocket-version", b"13"), (b"sec-websocket-protocol", b"chat"), (b"sec-websocket-protocol", b"superchat")]
                    case["client"] = [["feed", client_preface(fb, {}) + fb.headers(1, hdrs, end_stream=False)], ["settle"]]
                else:
                    data = ws.handshake(path=b"/t%d" % n, key=KEY, extra=[(b"Sec-WebSocket-Protocol", b"chat"), (b"Sec-WebSocket-Protocol", b"superchat")])
                    case["client"] = [["feed", data], ["settle"]]
            if "h2_protocol" in opt:
                fb = FrameBuilder()
                if opt["h2_protocol"] is None:
                    # an ordinary CONNECT (RFC 7540 8.3): neither :scheme nor :path
                    hdrs = [(b":method", b"CONNECT"), (b":authority", b"ws.example:80"), (b"sec-websocket-version", b"13")]
                else:
                    hdrs = [(b":method", b"CONNECT"), (b":protocol", opt["h2_protocol"]), (b":scheme", b"http"), (b":path", b"/t%d" % n),
                            (b":authority", b"ws.example"), (b"sec-websocket-version", b"13")]
                case["client"] = [["feed", client_preface(fb, {}) + fb.headers(1, hdrs, end_stream=False)], ["settle"]]
                case["truth"]["h2_protocol"] = opt["h2_protocol"] if opt["h2_protocol"] is not None else "absent"
            yield case
        elif c[0] == "nonws":
            _, method, upg, conn, dec = c
            data = ws.handshake(path=b"/t%d" % n, method=method, upgrade=upg, connection=conn)
            if method in (b"POST", b"PUT"):
                data = data[:-2] + b"Content-Length: 0\r\n\r\n"
            yield {"family": "nonws.h1", "backends": ["asyncio", "trio"], "config": {"keep_alive_timeout": 5000}, "conn": {},
                   "apps": {"default": [["recv_until_end"], ["respond", 200, [], b"plain-http"]], "websocket": _decision_script(dec)},
                   "client": [["feed", data], ["settle"]], "reactor": {"kind": "ws", "echo_close": True},
                   "truth": {"kind": "nonws", "method": method, "upgrade": upg, "connection": conn, "hv": "1.1"},
                   "sched": {"seed": rng.randrange(1 << 30)}, "horizon": 50.0}
        else:
            yield _close_case(rng, n, *c[1:])


def _h2_open(fb, path, ver, pr, ex, extra_key=None, end_stream=False):
    hdrs = [(b":method", b"CONNECT"), (b":protocol", b"websocket"), (b":scheme", b"http"), (b":path", path), (b":authority", b"ws.example")]
    if ver is not None:
        hdrs.append((b"sec-websocket-version", ver))
    if pr:
        hdrs.append((b"sec-websocket-protocol", b", ".join(pr)))
    if ex:
        hdrs.append((b"sec-websocket-extensions", ex))
    if extra_key:
        # not needed on HTTP/2, but allowed (a proxy translating an HTTP/1.1 handshake would carry it along)
        hdrs.append((b"sec-websocket-key", extra_key))
    return client_preface(fb, {}) + fb.headers(1, hdrs, end_stream=end_stream)


def _hs_case(rng, n, ver, key, conn, upg, hv, pr, ex, dec):
    path = b"/t%d" % n
    script = _decision_script(dec)
    truth = {"kind": "hs", "ver": ver, "key": key, "hv": hv, "protos": pr, "ext": ex, "dec": dec}
    apps = {"default": [["recv_until_end"], ["respond", 200, [], b"plain-http"]], "websocket": script}
    if hv == "2":
        fb = FrameBuilder()
        client = [["feed", _h2_open(fb, path, ver, pr, ex, extra_key=KEY if key in ("valid", "dup") and n % 3 == 0 else None)], ["settle"]]
        return {"family": "hs.h2", "backends": ["asyncio", "trio"], "config": {"keep_alive_timeout": 5000}, "conn": {},
                "apps": apps, "client": client, "reactor": {"kind": "h2", "credit": "auto"}, "truth": truth,
                "sched": {"seed": rng.randrange(1 << 30)}, "horizon": 50.0}
    extra = []
    k = KEY if key in ("valid", "dup") else {"empty": b"", "malformed": b"not-base64-of-16-octets!"}.get(key)
    if key == "dup":
        extra.append((b"Sec-WebSocket-Key", KEY))
    data = ws.handshake(path=path, key=k, version=ver, subprotocols=pr, extensions=ex, extra=extra, upgrade=upg,
                        connection=conn, http_version=hv.encode())
    client = [["feed", data], ["settle"]]
    # (h11_pass_raw_headers: the header names reach the handshake as the client spelled them - Sec-WebSocket-Key, Upgrade ...)
    return {"family": "hs.h1." + hv, "backends": ["asyncio", "trio"], "config": {"keep_alive_timeout": 5000, "h11_pass_raw_headers": rng.random() < 0.25}, "conn": {},
            "apps": apps, "client": client, "reactor": {"kind": "ws", "echo_close": True}, "truth": truth,
            "sched": {"seed": rng.randrange(1 << 30)}, "horizon": 50.0}


def _close_case(rng, n, hv, order, code, reason):
    path = b"/t%d" % n
    truth = {"kind": "close", "hv": hv, "order": order, "code": code, "reason": reason}
    if order in ("server", "server_then_client_silent", "server_write_blocked_then_client"):
        script = _decision_script(("accept_then_close", code if code is not None else 1000, reason))
    else:
        script = _decision_script(("accept", None, None))
    if order == "stream_end_at_open":
        script = [["recv"], ["wait", "go"], ["send", {"type": "websocket.accept"}], ["recv_until_disconnect"]]  # decides after the END_STREAM has been seen
    apps = {"default": script, "websocket": script}
    steps = []
    if order in ("client_code", "client_code_echo_fails"):
        cf = ws.close_frame(code, b"")
    elif order == "client_nocode":
        cf = ws.close_frame(None)
    else:
        cf = None
    if hv == "2":
        fb = FrameBuilder()
        # (stream_end_at_open: the CONNECT itself carries END_STREAM - a tunnel whose client side is over before it began; should the
        #  application accept it all the same, it is a connection that was lost)
        client = [["feed", _h2_open(fb, path, b"13", None, None, end_stream=(order == "stream_end_at_open"))], ["settle"]]
        if cf is not None:
            if order == "client_code_echo_fails":
                client += [["fail_write_at", 1]]
            client += [["feed", fb.data(1, cf)], ["settle"]]
        elif order == "server":
            client += [["trigger", "go"], ["settle"], ["feed", fb.data(1, ws.close_frame(code if code is not None else 1000))], ["settle"]]
        elif order == "server_then_client_silent":
            client += [["trigger", "go"], ["settle"], ["eof"]]
        elif order == "eof":
            client += [["eof"]]
        elif order == "stream_end":
            client += [["feed", fb.data(1, b"", end_stream=True)]]
        elif order == "stream_end_at_open":
            client += [["trigger", "go"], ["settle"]]
        else:
            client += [["reset"]]
        client.append(["settle"])
        return {"family": "close.h2." + order, "backends": ["asyncio", "trio"], "config": {"keep_alive_timeout": 5000}, "conn": {},
                "apps": apps, "client": client, "reactor": {"kind": "h2", "credit": "auto"}, "truth": truth,
                "sched": {"seed": rng.randrange(1 << 30)}, "horizon": 50.0}
    client = [["feed", ws.handshake(path=path)], ["settle"]]
    rspec = {"kind": "ws", "echo_close": order == "server"}
    if cf is not None:
        if order == "client_code_echo_fails":
            client += [["fail_write_at", 1]]  # the client closed first; the server's echo of the close cannot be written any more
        client += [["feed", cf], ["settle"]]
    elif order == "server":
        client += [["trigger", "go"], ["settle"]]
    elif order == "server_then_client_silent":
        client += [["trigger", "go"], ["settle"], ["eof"]]
    elif order == "server_write_blocked_then_client":
        # simultaneous close, the server's first: its Close frame is still waiting to be written (client not reading) when the
        # client's own Close arrives
        rspec["echo_close"] = False
        client += [["pause"], ["trigger", "go"], ["settle"], ["feed", ws.close_frame(1001, b"")], ["settle"], ["resume"], ["settle"]]
    elif order == "eof":
        client += [["eof"]]
    else:
        client += [["reset"]]
    client.append(["settle"])
    return {"family": "close.h1." + order, "backends": ["asyncio", "trio"], "config": {"keep_alive_timeout": 5000}, "conn": {},
            "apps": apps, "client": client, "reactor": rspec, "truth": truth,
            "sched": {"seed": rng.randrange(1 << 30)}, "horizon": 50.0}


def nontrivial(case, obs):
    return True


def _response(case, obs):
    """(status, headers(list lower-cased names), body) of the handshake response, or None."""
    t = case["truth"]
    if t["hv"] == "2":
        s = obs.reactor.streams.get(1)
        if s is None or s.status is None:
            return None
        return s.status, [(n.lower(), v) for n, v in (s.final_headers() or [])], bytes(s.data), s
    rx = obs.reactor
    if rx.status is None:
        return None
    return rx.status, list(rx.headers), bytes(rx.http_body), None


def check(case, obs, tally):
    out = []
    t = case["truth"]
    if obs.handler == "exception":
        tally.inconclusive["handler-crashed(C04)"] += 1
        return out
    ws_starts = [e for e in obs.app_events(kind="start") if e[4]["scope"].get("type") == "websocket"]
    http_starts = [e for e in obs.app_events(kind="start") if e[4]["scope"].get("type") == "http"]
    resp = _response(case, obs)
    if t["kind"] == "nonws":
        tally.clause("validity")
        status = resp[0] if resp else None
        if ws_starts or status == 101:
            out.append({"clause": "validity", "sig": "C11.upgrade-attempted-for-non-opening/%s" % (
                            "method" if t["method"] != b"GET" else "upgrade-fields"),
                        "detail": "%r request with Upgrade %r / Connection %r is not a WebSocket opening, yet %d websocket applications were "
                                  "started and the response status was %r" % (t["method"], t["upgrade"], t["connection"], len(ws_starts), status)})
        return out
    if t["kind"] == "hs":
        hv = t["hv"]
        valid = t["ver"] == b"13" and (hv == "2" or (hv == "1.1" and t["key"] in ("valid", "dup")))
        if "h2_protocol" in t:
            valid = False  # a CONNECT without ':protocol websocket' is not the extended CONNECT of RFC 8441
        tally.clause("validity")
        if http_starts:
            out.append({"clause": "validity", "sig": "C11.classified-as-http", "detail": "a websocket opening started an http application"})
            return out
        if not valid:
            if ws_starts:
                out.append({"clause": "validity", "sig": "C11.invalid-handshake-started-app/h%s" % hv,
                            "detail": "invalid handshake (version %r, key %s, HTTP/%s) started an application" % (t["ver"], t["key"], hv)})
            if resp is None or resp[0] != 400:
                out.append({"clause": "validity", "sig": "C11.invalid-handshake-not-400/h%s" % hv,
                            "detail": "invalid handshake (version %r, key %s, HTTP/%s) answered %r" % (t["ver"], t["key"], hv, resp[0] if resp else None)})
            return out
        if len(ws_starts) != 1:
            out.append({"clause": "validity", "sig": "C11.valid-handshake-not-started/h%s" % hv,
                        "detail": "valid handshake started %d applications; response %r" % (len(ws_starts), resp[0] if resp else None)})
            return out
        inst = ws_starts[0][4]["inst"]
        first = obs.apps.recvs[inst][0] if obs.apps.recvs[inst] else None
        if first is None or first.get("type") != "websocket.connect":
            out.append({"clause": "validity", "sig": "C11.first-message-not-connect", "detail": "first message %r" % (first,)})
        dec = t["dec"]
        if dec[0] == "retry":
            dec = tuple(dec[1])  # the decision that counts is the one made after the refused attempt
        tally.clause("decision")
        if resp is None:
            out.append({"clause": "decision", "sig": "C11.no-response/%s" % dec[0], "detail": "no handshake response on the wire"})
            return out
        status, headers, body = resp[0], resp[1], resp[2]
        hd = {}
        for nme, v in headers:
            hd.setdefault(nme, []).append(v)
        if dec[0] == "accept":
            sub, extra = dec[1], dec[2]
            offered = [p.decode() for p in (t["protos"] or [])]
            bad_sub = sub is not None and sub not in offered
            bad_hdr = bool(extra) and any(bytes(n).strip().lower() == b"sec-websocket-protocol" or n.startswith(b":") for n, _ in extra)
            if bad_sub or bad_hdr:
                if status in (101, 200) and (hv != "2" or status == 200) and _accepted(status, hv):
                    out.append({"clause": "decision", "sig": "C11.accepted-invalid-accept/%s" % ("subprotocol" if bad_sub else "header"),
                                "detail": "accept with %s was rendered as an acceptance: headers %r" % (
                                    "a subprotocol the client did not offer" if bad_sub else "a forbidden header", headers)})
                return out
            tally.clause("accept")
            if not _accepted(status, hv):
                out.append({"clause": "accept", "sig": "C11.accept-not-rendered/h%s" % hv, "detail": "accept gave status %r" % status})
                return out
            if hv != "2":
                tok = hd.get(b"sec-websocket-accept", [])
                if tok != [ws.accept_token(KEY)]:
                    out.append({"clause": "accept", "sig": "C11.accept-token", "detail": "sec-websocket-accept %r expected %r" % (tok, ws.accept_token(KEY))})
            got_sub = hd.get(b"sec-websocket-protocol", [])
            if sub is None and got_sub:
                out.append({"clause": "accept", "sig": "C11.subprotocol-invented", "detail": "response carries subprotocol %r the application did not choose" % got_sub})
            if sub is not None and got_sub != [sub.encode()]:
                out.append({"clause": "accept", "sig": "C11.subprotocol-lost", "detail": "chosen %r, response %r" % (sub, got_sub)})
            for nme, v in (extra or []):
                if v not in hd.get(nme, []):
                    out.append({"clause": "accept", "sig": "C11.extra-header-lost", "detail": "extra header %r missing from %r" % ((nme, v), headers)})
        elif dec[0] in ("close", "close_wait"):
            if dec[0] == "close_wait":
                tally.clause("close-code")
                nd = sum(1 for m in obs.apps.recvs[inst] if m.get("type") == "websocket.disconnect")
                if nd != 1:
                    out.append({"clause": "close-code", "sig": "C11.disconnect-count-%d/refused-then-waiting" % nd,
                                "detail": "the application refused the handshake (websocket.close) and went on to wait for websocket.disconnect: it received %d; "
                                          "client saw status %r, connection closed at %r" % (nd, status, obs.closed_at)})
            if status != 403:
                out.append({"clause": "decision", "sig": "C11.close-not-403/h%s" % hv, "detail": "websocket.close before accept gave %r" % status})
        elif dec[0] == "http":
            st, hs, chunks = dec[1], dec[2] or [], dec[3]
            if hv != "2" and obs.closed_at is not None and not any(n_.lower() == b"connection" and b"close" in v_.lower() for n_, v_ in headers):
                # (HTTP/1.1: a connection that carried a refused handshake is not used again - then the refusal says so)
                out.append({"clause": "decision", "sig": "C11.http-response/close-not-announced",
                            "detail": "the application's own refusal (%r) was sent without 'connection: close' and the server closed the connection after it (at %r): headers %r" % (
                                st, obs.closed_at, headers)})
            if len(dec) > 4 and dec[4] == "wait":
                tally.clause("close-code")
                nd = sum(1 for m in obs.apps.recvs[inst] if m.get("type") == "websocket.disconnect")
                if nd != 1:
                    out.append({"clause": "close-code", "sig": "C11.disconnect-count-%d/refused-then-waiting" % nd,
                                "detail": "the application refused the handshake with a complete response of its own and went on to wait for websocket.disconnect: "
                                          "it received %d; client saw status %r, connection closed at %r" % (nd, status, obs.closed_at)})
            exp_body = b"".join(chunks)
            if status != st:
                out.append({"clause": "decision", "sig": "C11.http-response/status", "detail": "status %r expected %r" % (status, st)})
            got_h = [(nme, v) for nme, v in headers]
            if got_h[:len(hs)] != [(a.lower(), b) for a, b in hs]:
                out.append({"clause": "decision", "sig": "C11.http-response/headers", "detail": "headers %r expected prefix %r" % (got_h, hs)})
            if hv == "2":
                if body != exp_body:
                    out.append({"clause": "decision", "sig": "C11.http-response/body", "detail": "body %r expected %r" % (body[:40], exp_body)})
            else:
                try:
                    rs, _ = h1.parse_responses(obs.outbytes, [("GET", "1.1")], obs.closed_at is not None)
                    if not rs or rs[0].body != exp_body or not rs[0].complete:
                        out.append({"clause": "decision", "sig": "C11.http-response/body",
                                    "detail": "body %r complete=%r expected %r" % (rs[0].body[:40] if rs else None, rs[0].complete if rs else None, exp_body)})
                except h1.Malformed as e:
                    out.append({"clause": "decision", "sig": "C11.http-response/malformed", "detail": str(e)})
        elif dec[0] == "crash":
            if status != 500:
                out.append({"clause": "decision", "sig": "C11.crash-not-500/h%s" % hv, "detail": "crash before accept gave %r" % status})
        return out
    # ---- closing orders ---------------------------------------------------------------------
    if len(ws_starts) != 1:
        tally.inconclusive["close-case-not-started"] += 1
        return out
    inst = ws_starts[0][4]["inst"]
    discs = [m for m in obs.apps.recvs[inst] if m.get("type") == "websocket.disconnect"]
    tally.clause("close-code")
    if len(discs) != 1:
        out.append({"clause": "close-code", "sig": "C11.disconnect-count-%d/%s" % (len(discs), t["order"]),
                    "detail": "application received %d disconnects" % len(discs)})
        return out
    code = discs[0].get("code")
    order = t["order"]
    if order in ("client_code", "client_code_echo_fails"):
        # keyed by who closed first: the client's close frame had been received, whatever happens to the echo
        exp = t["code"] if t["code"] is not None else 1005
    elif order == "client_nocode":
        exp = 1005
    elif order in ("server", "server_then_client_silent", "server_write_blocked_then_client"):
        exp = 1000
    else:
        exp = 1006
    if code != exp:
        out.append({"clause": "close-code", "sig": "C11.close-code/%s" % order.replace("_", "-"),
                    "detail": "closing order %s (code %r): websocket.disconnect code %r, the statement says %r" % (order, t["code"], code, exp)})
    return out


def _accepted(status, hv):
    return status == (200 if hv == "2" else 101)
