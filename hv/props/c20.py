"""C20 — middleware semantics: proxy trust boundary, dispatch routing, HTTPS redirect."""
from __future__ import annotations

import asyncio
import copy
from urllib.parse import urlsplit

ID = "C20"
LEVEL = "exploration"
BUDGET = {"quick": 30, "thorough": 300}
SHARDS = 8
TECHNIQUE = ("reference-model monitors over direct calls of the real middlewares under asyncio and trio: proxy trust rule, "
             "mount router, lifespan fan-out order, redirect URL reconstruction; the ASGI send automaton validates what the "
             "middleware emits for the scope type; metamorphic attacker-prefix check")
LEVEL_TEXT = ("Seeded exploration of forwarding headers (several lines, comma lists, spaces, legacy and RFC 7239 forms, attacker "
              "prefixes) x trusted_hops 0-4 x modes; mount tables of 1-5 prefixes x paths x scope kinds x lifespan completion "
              "orders (asyncio and trio variants); hosts/paths/queries/root_paths x scope kinds x HTTP versions.")
LEVEL_NOTE = "Trusted: urllib.parse.urlsplit for reading the Location header back."
RULE = "cases as above; non-trivial = the middleware had a decision to make (headers present / several mounts / cleartext scope)"
ASSUMPTIONS = ["mounts match by string prefix (statement), not by path segment",
               "RFC 7239 elements are generated in the strict form (no OWS around ';', lower-case parameter names, unquoted)"]
MIN_DECISIVE = {"composed": 10, "proxy-rule": 100, "proxy-no-mutation": 100, "proxy-attacker-prefix": 50, "dispatch-route": 100,
                "dispatch-lifespan": 20, "redirect": 100}
N = {"quick": 4000, "thorough": 60000}


def gen(rng, tier):
    for i in range(N[tier]):
        r = rng.random()
        if r < 0.4:
            yield _gen_proxy(rng, i)
        elif r < 0.7:
            yield _gen_dispatch(rng, i)
        elif r < 0.78:
            yield _gen_lifespan(rng, i)
        elif r < 0.95:
            yield _gen_redirect(rng, i)
        elif r < 0.985:
            yield _gen_composed(rng, i)
        else:
            yield _gen_other_scope(rng, i)


_IPS = ["10.0.0.1", "192.0.2.7", "203.0.113.9", "2001:db8::1", "198.51.100.23", "evil", "[2001:db8:cafe::17]:4711", "192.0.2.43:47011"]
# (the last one: an octet above 0x7f, one character of the strings here - header values are octets, whatever they mean)
_HOSTS = ["example.com", "internal.lan:8080", "a.b.c", "evil.example", "ex\xe4mple.org"]


def _gen_proxy(rng, i):
    mode = rng.choice(["legacy", "modern"])
    hops = rng.choice([0, 1, 1, 2, 3, 4])
    nvals = rng.choice([0, 1, 2, 3, 5])
    elems = []
    for _ in range(nvals):
        elems.append({"for": rng.choice(_IPS), "proto": rng.choice(["http", "https", "ws", "wss"]), "host": rng.choice(_HOSTS),
                      "has": [rng.random() < 0.9, rng.random() < 0.8, rng.random() < 0.8]})
    split = sorted(rng.sample(range(1, nvals), min(nvals - 1, rng.choice([0, 1, 2])))) if nvals > 1 else []
    sp = rng.choice(["", " ", "  "])
    other = rng.choice([0, 0, 0, 1, 2, 5])
    return {"family": "proxy." + mode + (".other-family-present" if other else ""), "kind": "proxy", "mode": mode, "hops": hops, "elems": elems, "split": split, "sp": sp,
            "other_family": other, "style": rng.choice(["plain", "plain", "quoted", "caps", "capitalised"]) if mode == "modern" else "plain",
            "scope_type": rng.choice(["http", "websocket"]), "prefix": [{"for": "6.6.6.6", "proto": "https", "host": "attacker.example", "has": [True, True, True]}
                                                                        for _ in range(rng.choice([1, 2]))],
            # (h11_pass_raw_headers: the request's own Host line reaches the scope in the client's spelling)
            "host_name": rng.choice([b"host", b"host", b"Host", b"HOST"])}


def _proxy_headers(case, elems):
    """Render the forwarding elements as header lines (comma lists split over several lines)."""
    groups, prev = [], 0
    for s in [x for x in case["split"] if x < len(elems)] + [len(elems)]:
        if elems[prev:s]:
            groups.append(elems[prev:s])
        prev = s
    sp = case["sp"]
    hs = [(b"user-agent", b"x")]
    if case["mode"] == "modern":
        for g in groups:
            vals = []
            for e in g:
                parts = []
                # RFC 7239 4: parameter names are case-insensitive, a value is a token or a quoted-string (an IPv6 address or a
                # host with a port cannot be written any other way) - the value is what is inside the quotes
                st = case.get("style", "plain")
                q = (lambda v: '"%s"' % v) if st == "quoted" else (lambda v: v)
                nm = (lambda x: x.upper() if st == "caps" else x.capitalize() if st == "capitalised" else x)
                if e["has"][0]:
                    parts.append("%s=%s" % (nm("for"), q(e["for"])))
                if e["has"][1]:
                    parts.append("%s=%s" % (nm("proto"), q(e["proto"])))
                if e["has"][2]:
                    parts.append("%s=%s" % (nm("host"), q(e["host"])))
                vals.append(";".join(parts) if parts else "by=x")
            hs.append((b"forwarded", ("," + sp).join(vals).encode("latin-1")))
    else:
        for g in groups:
            hs.append((b"x-forwarded-for", ("," + sp).join(e["for"] for e in g).encode()))
            hs.append((b"x-forwarded-proto", ("," + sp).join(e["proto"] for e in g).encode()))
            hs.append((b"x-forwarded-host", ("," + sp).join(e["host"] for e in g).encode("latin-1")))
    if case.get("other_family"):
        # headers of the *other* convention, written by whoever likes (the proxies in front only maintain the configured one): never used
        k = case["other_family"]
        if case["mode"] == "modern":
            hs.append((b"x-forwarded-for", ", ".join(["6.6.6.6"] * k).encode()))
            hs.append((b"x-forwarded-proto", ", ".join(["https"] * k).encode()))
            hs.append((b"x-forwarded-host", ", ".join(["attacker.example"] * k).encode()))
        else:
            hs.append((b"forwarded", ", ".join(["for=6.6.6.6;proto=https;host=attacker.example"] * k).encode()))
    hs.append((case.get("host_name", b"host"), b"original.example"))
    return hs


def _proxy_expected(case, elems):
    """Reference trust rule: the element `hops` from the right, untouched when fewer elements or 0 hops."""
    hops = case["hops"]
    if hops == 0 or len(elems) < hops:
        return None
    e = elems[-hops]
    if case["mode"] == "modern":
        return {"client": e["for"] if e["has"][0] else None, "scheme": e["proto"] if e["has"][1] else None, "host": e["host"] if e["has"][2] else None}
    return {"client": e["for"], "scheme": e["proto"], "host": e["host"]}


def _gen_dispatch(rng, i):
    prefixes = rng.sample(["/api", "/api/v2", "/a", "/ab", "/static", "/", "/x/y", "/api/v2/deep", "/static/", "/v1/", "/v1"], rng.choice([1, 2, 3, 5]))
    path = rng.choice(prefixes + ["/nomatch", "/zzz", "/apix", "/", "/static", "/staticfiles", "/v1"]) + rng.choice(["", "/", "/rest", "/rest/of/path", "x"])
    return {"family": "dispatch", "kind": "dispatch", "prefixes": prefixes, "path": path,
            "scope_type": rng.choice(["http", "http", "websocket"]), "lib": rng.choice(["asyncio", "trio"])}


def _gen_lifespan(rng, i):
    n = rng.choice([1, 2, 3, 5])
    order = list(range(n))
    rng.shuffle(order)
    return {"family": "dispatch.lifespan", "kind": "lifespan", "n": n, "order": order, "lib": rng.choice(["asyncio", "trio"]), "cycles": rng.choice([1, 1, 2]),
            "never": rng.choice([None, None, rng.randrange(n)])}


def _gen_redirect(rng, i):
    host = rng.choice(["example.com", "example.com:8080", "[2001:db8::1]:8443", "xn--bcher-kva.example"])
    raw_path = rng.choice([b"/", b"/abc", b"/abc%3C", b"/a/b%20c", b"/%E2%82%AC", b"/a;p=1", b"/~user/", b"/a%2Fb",
                           # targets a URL *resolver* would rewrite: the redirect is to the same path, not to what it resolves to
                           b"//evil.example/login", b"/a/../b", b"/a/./b/", b"/..", b"/a//b", b"/a/..%2f../c"])
    # (a query is bytes in the scope; over HTTP/2 a client can put any octets there)
    query = rng.choice([b"", b"x=1", b"a=b&c=d%20e", b"q=%3F", b"q=%3F", b"n=caf\xe9", b"b=\xff\xfe"])
    root = rng.choice(["", "", "/root", "/app/v1"])
    stype = rng.choice(["http", "websocket"])
    scheme = rng.choice(["http", "https"]) if stype == "http" else rng.choice(["ws", "wss"])
    return {"family": "redirect", "kind": "redirect", "host": host, "raw_path": raw_path, "query": query, "root_path": root,
            "scope_type": stype, "scheme": scheme, "http_version": rng.choice(["1.1", "2"]), "cfg_host": rng.choice([None, None, "forced.example"]),
            "ext": rng.random() < 0.85,
            # (h11_pass_raw_headers: header names reach the scope in the client's spelling; only HTTP/1.1 has one)
            "host_name": rng.choice([b"host", b"host", b"Host", b"HOST"]),
            # earlier requests served by the same middleware instance (other virtual hosts, a forged Host): each request stands alone
            "prior": [{"host": rng.choice(["first.example", "evil.example:81", "example.com"]), "scope_type": rng.choice(["http", "websocket"]),
                       "secure": rng.random() < 0.3} for _ in range(rng.choice([0, 0, 1, 2]))]}


def _gen_other_scope(rng, i):
    """Scopes that are neither http nor websocket (lifespan, or a type of the future) go through every middleware untouched: "passes
    ... through unchanged" - the wrapped application's start-up and shutdown depend on it."""
    return {"family": "other-scope", "kind": "other-scope", "mw": rng.choice(["redirect", "redirect-host", "proxy-legacy", "proxy-modern"]),
            "scope_type": rng.choice(["lifespan", "lifespan", "x-future"])}


def _gen_composed(rng, i):
    """The documented deployment behind a TLS-terminating proxy: ProxyFixMiddleware(HTTPToHTTPSRedirectMiddleware(app)). The proxy says
    in X-Forwarded-Proto / Forwarded proto= which scheme the client used (http or https - also for a WebSocket opening, which is a GET
    to the proxy); the connection from the proxy is cleartext either way."""
    return {"family": "proxy+redirect", "kind": "composed", "mode": rng.choice(["legacy", "modern"]), "scope_type": rng.choice(["http", "websocket", "websocket"]),
            # (scheme names are case-insensitive, RFC 3986 3.1)
            "proto": rng.choice(["http", "https", "http", "https", "HTTP", "Http", "HTTPS"]), "http_version": rng.choice(["1.1", "2"]), "ext": rng.random() < 0.8}


# ---- execution ----------------------------------------------------------------------------------

def _run(lib, coro_fn):
    if lib == "trio":
        import trio

        return trio.run(coro_fn)
    return asyncio.run(coro_fn())


def _valid_for_scope(scope_type, msgs):
    """Reference: message types a server accepts for the scope type, in a legal order."""
    if scope_type == "http":
        ok = [m["type"] for m in msgs] in (["http.response.start", "http.response.body"],)
        return ok
    kinds = [m["type"] for m in msgs]
    return kinds in (["websocket.close"], ["websocket.http.response.start", "websocket.http.response.body"], ["websocket.accept"])


def run_one(case, tally):
    findings = []
    kind = case["kind"]
    if kind == "proxy":
        from hypercorn.middleware import ProxyFixMiddleware

        seen = {}

        async def inner(scope, receive, send):
            seen["scope"] = scope

        def call(elems):
            scope = {"type": case["scope_type"], "scheme": "http" if case["scope_type"] == "http" else "ws", "client": ("127.0.0.1", 5000),
                     "headers": _proxy_headers(case, elems), "path": "/", "state": {"k": [1]}}
            before = copy.deepcopy(scope)
            mw = ProxyFixMiddleware(inner, mode=case["mode"], trusted_hops=case["hops"])
            asyncio.run(mw(scope, None, None))
            return before, scope, seen["scope"]

        before, after, got = call(case["elems"])
        tally.clause("proxy-no-mutation")
        if after != before:
            findings.append({"clause": "proxy-no-mutation", "sig": "C20.proxy/caller-scope-mutated", "detail": "caller's scope changed: %r -> %r" % (before, after)})
        exp = _proxy_expected(case, case["elems"])
        tally.clause("proxy-rule")

        def view(sc):
            host = [v for n, v in sc["headers"] if n.lower() == b"host"]
            return {"client": sc["client"], "scheme": sc["scheme"], "host": host}

        base = view(before)
        want = dict(base)
        if exp is not None:
            if exp["client"] is not None:
                want["client"] = (exp["client"], 0)
            if exp["scheme"] is not None:
                want["scheme"] = exp["scheme"]
            if exp["host"] is not None:
                want["host"] = [exp["host"].encode("latin-1")]
        gv = view(got)
        if case["scope_type"] == "websocket" and exp is not None and exp["scheme"] is not None:
            # the value comes from the trusted element either way; for a WebSocket scope it may be given in the scope's own vocabulary
            # (proxies report http/https for the opening request, the scope says ws/wss)
            if gv["scheme"] == {"http": "ws", "https": "wss"}.get(exp["scheme"].lower()):
                want["scheme"] = gv["scheme"]
        if gv != want:
            findings.append({"clause": "proxy-rule", "sig": "C20.proxy/%s/rule" % case["mode"],
                             "detail": "mode %s hops %d headers %r: got %r, trust rule says %r" % (case["mode"], case["hops"], _proxy_headers(case, case["elems"]), gv, want)})
        # metamorphic: attacker-prepended elements never matter when enough trusted elements exist
        if exp is not None:
            tally.clause("proxy-attacker-prefix")
            c2 = dict(case)
            c2["split"] = [x + len(case["prefix"]) for x in case["split"]]
            _, _, got2 = call_with(case, c2, case["prefix"] + case["elems"], inner, seen)
            if view(got2) != gv:
                findings.append({"clause": "proxy-attacker-prefix", "sig": "C20.proxy/attacker-prefix-changes-outcome",
                                 "detail": "prepending %r changed the result from %r to %r" % (case["prefix"], gv, view(got2))})
    elif kind == "dispatch":
        findings += _dispatch(case, tally)
    elif kind == "lifespan":
        findings += _lifespan(case, tally)
    elif kind == "composed":
        findings += _composed(case, tally)
    elif kind == "other-scope":
        findings += _other_scope(case, tally)
    else:
        findings += _redirect(case, tally)
    return findings, [None]


def _other_scope(case, tally):
    from hypercorn.middleware import HTTPToHTTPSRedirectMiddleware, ProxyFixMiddleware

    called, sent = [], []

    async def inner(scope, receive, send):
        called.append(scope)
        await send({"type": "lifespan.startup.complete"})

    async def send(m):
        sent.append(m)

    async def receive():
        return {"type": "lifespan.startup"}

    mw = {"redirect": lambda: HTTPToHTTPSRedirectMiddleware(inner, None), "redirect-host": lambda: HTTPToHTTPSRedirectMiddleware(inner, "example.com"),
          "proxy-legacy": lambda: ProxyFixMiddleware(inner, mode="legacy", trusted_hops=1),
          "proxy-modern": lambda: ProxyFixMiddleware(inner, mode="modern", trusted_hops=1)}[case["mw"]]()
    scope = {"type": case["scope_type"], "asgi": {"version": "3.0"}, "state": {}}
    before = copy.deepcopy(scope)
    tally.clause("other-scope")
    try:
        asyncio.run(mw(scope, receive, send))
    except Exception as e:
        return [{"clause": "other-scope", "sig": "C20.other-scope/%s/raised-%s" % (case["mw"].split("-")[0], type(e).__name__),
                 "detail": "a %s scope through %s: %r instead of being passed to the application" % (case["scope_type"], case["mw"], e)}]
    if len(called) != 1 or called[0] != before or scope != before or sent != [{"type": "lifespan.startup.complete"}]:
        return [{"clause": "other-scope", "sig": "C20.other-scope/%s/not-passed-through" % case["mw"].split("-")[0],
                 "detail": "a %s scope through %s: application called %d times, scope %r, messages %r" % (case["scope_type"], case["mw"], len(called), called[:1], sent)}]
    return []


def _composed(case, tally):
    from hypercorn.middleware import HTTPToHTTPSRedirectMiddleware, ProxyFixMiddleware

    called, sent = [], []

    async def inner(scope, receive, send):
        called.append(scope)

    async def send(m):
        sent.append(m)

    ws = case["scope_type"] == "websocket"
    hdrs = [(b"host", b"internal:8000"), (b"user-agent", b"x")]
    if case["mode"] == "legacy":
        hdrs += [(b"x-forwarded-for", b"203.0.113.9"), (b"x-forwarded-proto", case["proto"].encode()), (b"x-forwarded-host", b"public.example")]
    else:
        hdrs += [(b"forwarded", b"for=203.0.113.9;proto=%s;host=public.example" % case["proto"].encode())]
    scope = {"type": case["scope_type"], "scheme": "ws" if ws else "http", "http_version": case["http_version"], "path": "/chat", "raw_path": b"/chat",
             "query_string": b"room=1", "root_path": "", "client": ("10.0.0.2", 4000), "server": ("10.0.0.1", 8000), "headers": hdrs,
             "extensions": {"websocket.http.response": {}} if (ws and case["ext"]) else {}}
    mw = ProxyFixMiddleware(HTTPToHTTPSRedirectMiddleware(inner, None), mode=case["mode"], trusted_hops=1)
    asyncio.run(mw(scope, None, send))
    tally.clause("composed")
    out = []
    if case["proto"].lower() == "https":
        if len(called) != 1 or sent:
            out.append({"clause": "composed", "sig": "C20.composed/secure-not-passed-through",
                        "detail": "the client used %s towards the proxy: application called %d times, sent %r" % (case["proto"], len(called), sent)})
        return out
    if called:
        out.append({"clause": "composed", "sig": "C20.composed/cleartext-%s-passed" % case["scope_type"],
                    "detail": "a %s request the client made over cleartext (proxy says proto=http) reached the application with scheme %r instead of being redirected"
                    % (case["scope_type"], called[0].get("scheme"))})
        return out
    if ws and not case["ext"]:
        if [m.get("type") for m in sent] != ["websocket.close"]:
            out.append({"clause": "composed", "sig": "C20.composed/ws-no-extension", "detail": "sent %r" % sent})
        return out
    loc = [v for n, v in (sent[0].get("headers", []) if sent else []) if n == b"location"]
    want = (b"https" if (not ws or case["http_version"] == "2") else b"wss") + b"://public.example/chat?room=1"
    if not sent or sent[0].get("status") not in (301, 302, 307, 308) or loc != [want]:
        out.append({"clause": "composed", "sig": "C20.composed/location", "detail": "sent %r, expected a redirect to %r" % (sent, want)})
    return out


def call_with(case, c2, elems, inner, seen):
    from hypercorn.middleware import ProxyFixMiddleware

    scope = {"type": case["scope_type"], "scheme": "http" if case["scope_type"] == "http" else "ws", "client": ("127.0.0.1", 5000),
             "headers": _proxy_headers(c2, elems), "path": "/", "state": {"k": [1]}}
    before = copy.deepcopy(scope)
    mw = ProxyFixMiddleware(inner, mode=case["mode"], trusted_hops=case["hops"])
    asyncio.run(mw(scope, None, None))
    return before, scope, seen["scope"]


def _dispatch(case, tally):
    from hypercorn.middleware.dispatcher import AsyncioDispatcherMiddleware, TrioDispatcherMiddleware

    out = []
    hits = []

    def mk(prefix):
        async def app(scope, receive, send):
            hits.append((prefix, scope["path"]))
        return app

    mounts = {p: mk(p) for p in case["prefixes"]}
    cls = TrioDispatcherMiddleware if case["lib"] == "trio" else AsyncioDispatcherMiddleware
    mw = cls(mounts)
    sent = []

    async def send(m):
        sent.append(m)

    scope = {"type": case["scope_type"], "path": case["path"], "headers": []}

    async def go():
        await mw(scope, None, send)

    _run(case["lib"], go)
    tally.clause("dispatch-route")
    first = next((p for p in case["prefixes"] if case["path"].startswith(p)), None)
    if first is not None:
        want_path = case["path"][len(first):] or "/"
        if hits != [(first, want_path)] or sent:
            out.append({"clause": "dispatch-route", "sig": "C20.dispatch/route",
                        "detail": "mounts %r path %r: routed %r sent %r, expected mount %r with path %r" % (case["prefixes"], case["path"], hits, sent, first, want_path)})
    else:
        if hits:
            out.append({"clause": "dispatch-route", "sig": "C20.dispatch/unmatched-routed", "detail": "no mount matches %r but %r was called" % (case["path"], hits)})
        if case["scope_type"] == "http":
            if [m.get("type") for m in sent] != ["http.response.start", "http.response.body"] or sent[0].get("status") != 404:
                out.append({"clause": "dispatch-route", "sig": "C20.dispatch/no-404", "detail": "unmatched http request answered %r" % sent})
        else:
            status = next((m.get("status") for m in sent if "status" in m), None)
            if not _valid_for_scope("websocket", sent):
                out.append({"clause": "dispatch-route", "sig": "C20.dispatcher/websocket-404",
                            "detail": "unmatched websocket scope answered with %r: not valid messages for a websocket scope" % [m.get("type") for m in sent]})
    return out


def _lifespan(case, tally):
    from hypercorn.middleware.dispatcher import AsyncioDispatcherMiddleware, TrioDispatcherMiddleware

    out = []
    n = case["n"]
    log = []
    lib = case["lib"]
    holder = {}

    def mk(i):
        async def app(scope, receive, send):
            while True:
                m = await receive()
                if m["type"] == "lifespan.startup":
                    await holder["gates"][i].wait()
                    log.append(("mount-startup-complete", i))
                    await send({"type": "lifespan.startup.complete"})
                elif m["type"] == "lifespan.shutdown":
                    await holder["sgates"][i].wait()
                    log.append(("mount-shutdown-complete", i))
                    await send({"type": "lifespan.shutdown.complete"})
                    return
        return app

    # one middleware object for every lifespan of the case: the same application object served again (an in-process restart, a test
    # suite) goes through a lifespan of its own each time
    mw = (TrioDispatcherMiddleware if lib == "trio" else AsyncioDispatcherMiddleware)({"/m%d" % i: mk(i) for i in range(n)})

    async def run():
        if lib == "trio":
            import trio

            Event, sleep = trio.Event, trio.sleep
        else:
            Event, sleep = asyncio.Event, asyncio.sleep
        gates = holder["gates"] = [Event() for _ in range(n)]
        sgates = holder["sgates"] = [Event() for _ in range(n)]
        inbox = []
        inbox_ev = Event()

        async def receive():
            while not inbox:
                await sleep(0.0005)
            return inbox.pop(0)

        async def send(m):
            log.append(("upstream", m["type"]))

        async def driver():
            inbox.append({"type": "lifespan.startup"})
            inbox_ev.set()
            for i in case["order"]:
                await sleep(0.001)
                if case["never"] == i:
                    continue
                gates[i].set()
            await sleep(0.01)
            log.append(("after-startup-phase",))
            for i in range(n):
                gates[i].set()
            await sleep(0.005)
            inbox.append({"type": "lifespan.shutdown"})
            inbox_ev.set()
            for i in case["order"]:
                await sleep(0.001)
                sgates[i].set()
            await sleep(0.01)

        if lib == "trio":
            import trio

            async with trio.open_nursery() as nursery:
                nursery.start_soon(mw, {"type": "lifespan"}, receive, send)
                await driver()
                nursery.cancel_scope.cancel()
        else:
            t = asyncio.ensure_future(mw({"type": "lifespan"}, receive, send))
            await driver()
            t.cancel()
            try:
                await t
            except BaseException:
                pass

    for cycle in range(case.get("cycles", 1)):
        del log[:]
        _run(lib, run)
        out += _lifespan_judge(case, log, n, tally, cycle)
    return out


def _lifespan_judge(case, log, n, tally, cycle):
    out = []
    tally.clause("dispatch-lifespan")
    # startup.complete upstream exactly once, after every mount completed
    def pos(ev):
        return [k for k, e in enumerate(log) if e == ev]
    up = pos(("upstream", "lifespan.startup.complete"))
    mounts_done = [pos(("mount-startup-complete", i)) for i in range(n)]
    marker = pos(("after-startup-phase",))[0]
    if len(up) != 1:
        out.append({"clause": "dispatch-lifespan", "sig": "C20.dispatch/lifespan-startup-count-%d" % len(up), "detail": "lifespan #%d of the instance: log %r" % (cycle + 1, log)})
    else:
        if any(not m or m[0] > up[0] for m in mounts_done):
            out.append({"clause": "dispatch-lifespan", "sig": "C20.dispatch/lifespan-startup-early",
                        "detail": "startup.complete sent upstream before every mount completed: %r" % log})
        if case["never"] is not None and up[0] < marker:
            out.append({"clause": "dispatch-lifespan", "sig": "C20.dispatch/lifespan-startup-early",
                        "detail": "startup.complete sent upstream while mount %d had not completed: %r" % (case["never"], log)})
    sd = pos(("upstream", "lifespan.shutdown.complete"))
    sdone = [pos(("mount-shutdown-complete", i)) for i in range(n)]
    if len(sd) != 1 or any(not m or m[0] > sd[0] for m in sdone):
        out.append({"clause": "dispatch-lifespan", "sig": "C20.dispatch/lifespan-shutdown", "detail": "log %r" % log})
    return out


def _redirect(case, tally):
    from hypercorn.middleware import HTTPToHTTPSRedirectMiddleware

    out = []
    called = []

    async def inner(scope, receive, send):
        called.append(scope)

    mw = HTTPToHTTPSRedirectMiddleware(inner, case["cfg_host"])
    scope = {"type": case["scope_type"], "scheme": case["scheme"], "http_version": case["http_version"], "path": "/ignored",
             "raw_path": case["raw_path"], "query_string": case["query"], "root_path": case["root_path"],
             "headers": [(b"user-agent", b"x"), (case.get("host_name", b"host") if case["http_version"] == "1.1" else b"host", case["host"].encode())], "extensions": {"websocket.http.response": {}} if case["ext"] else {}}
    before = copy.deepcopy(scope)
    sent = []

    async def send(m):
        sent.append(m)

    async def session():
        for pr in case.get("prior", []):
            st = pr["scope_type"]
            psc = {"type": st, "scheme": ("https" if st == "http" else "wss") if pr["secure"] else ("http" if st == "http" else "ws"),
                   "http_version": "1.1", "path": "/p", "raw_path": b"/prior", "query_string": b"", "root_path": "",
                   "headers": [(b"host", pr["host"].encode())], "extensions": {"websocket.http.response": {}}}

            async def sink(m):
                pass
            await mw(psc, None, sink)
        called.clear()
        await mw(scope, None, send)

    try:
        asyncio.run(session())
    except Exception as e:
        tally.clause("redirect")
        return [{"clause": "redirect", "sig": "C20.redirect/raised-%s" % type(e).__name__,
                 "detail": "%s request, raw_path %r, query %r: the middleware raised %r instead of redirecting" % (case["scope_type"], case["raw_path"], case["query"], e)}]
    tally.clause("redirect")
    secure = case["scheme"] in ("https", "wss")
    if secure:
        if len(called) != 1 or called[0] is not scope or scope != before or sent:
            out.append({"clause": "redirect", "sig": "C20.redirect/secure-not-passed-through", "detail": "secure request altered or answered: %r" % sent})
        return out
    if called:
        out.append({"clause": "redirect", "sig": "C20.redirect/cleartext-passed", "detail": "cleartext request reached the application"})
        return out
    if case["scope_type"] == "websocket" and not case["ext"]:
        if [m.get("type") for m in sent] != ["websocket.close"]:
            out.append({"clause": "redirect", "sig": "C20.redirect/ws-no-extension", "detail": "sent %r" % sent})
        return out
    if not _valid_for_scope(case["scope_type"], sent):
        out.append({"clause": "redirect", "sig": "C20.redirect/invalid-messages", "detail": "messages %r are not valid for a %s scope" % ([m.get("type") for m in sent], case["scope_type"])})
        return out
    loc = [v for n, v in sent[0].get("headers", []) if n == b"location"]
    if sent[0].get("status") not in (301, 302, 307, 308) or len(loc) != 1:
        out.append({"clause": "redirect", "sig": "C20.redirect/not-a-redirect", "detail": "%r" % sent})
        return out
    if case["query"] and not loc[0].endswith(b"?" + case["query"]):
        out.append({"clause": "redirect", "sig": "C20.redirect/location", "detail": "Location %r does not end with the query %r" % (loc[0], case["query"])})
        return out
    u = urlsplit(loc[0].decode("latin-1"))
    want_scheme = "https" if case["scope_type"] == "http" or case["http_version"] == "2" else "wss"
    want_host = case["cfg_host"] or case["host"]
    want_path = case["root_path"] + case["raw_path"].decode()
    if (u.scheme, u.netloc, u.path, u.query) != (want_scheme, want_host, want_path, case["query"].decode("latin-1")):
        out.append({"clause": "redirect", "sig": "C20.redirect/location", "detail": "Location %r parses to %r, expected %r" % (
            loc[0], (u.scheme, u.netloc, u.path, u.query), (want_scheme, want_host, want_path, case["query"].decode("latin-1")))})
    return out


def nontrivial(case, obs):
    return True


def check(case, obs, tally):
    return []
