"""C14 — lifespan protocol ordering, failure handling and state isolation (tier B: real serve())."""
from __future__ import annotations

import time

from ..world.realnet import ServeHarness, recv_all, recv_until

ID = "C14"
LEVEL = "fault_enumeration"
BUDGET = {"quick": 60, "thorough": 600}
TECHNIQUE = ("causal-order monitor over one process-global trace of the real serve(): accept() shadow on the socket class, "
             "per-connection server construction hook, scripted lifespan and request applications, clients hammering "
             "connect() during start-up; per-connection state-copy check")
LEVEL_TEXT = ("Enumerates lifespan scripts (complete, complete slowly, failed, failed then keeps running, raise before/after "
              "receive, hang, unknown message) at start-up and (complete, slow, failed, failed-and-lingers, raise, hang, unknown message, "
              "return early) at shutdown x client activity (none, "
              "connect attempts throughout, in-flight request at the trigger) x both workers on real loopback sockets.")
LEVEL_NOTE = ("Trusted: Python-level socket._accept shadow sees every accept of both runtimes; verdicts are on event order, wall "
              "clock only bounds waiting (exceeded => inconclusive).")
RULE = "cases = lifespan script x phase x client activity x worker; non-trivial = the lifespan application was started; distinct = case hash"
ASSUMPTIONS = ["the kernel may complete TCP handshakes in the listen backlog before accept(); only accept() is judged",
               "whether serving starts after an application returns from lifespan without completing start-up is not judged (statement is silent); only that the worker does not fail internally"]
MIN_DECISIVE = {"order": 8, "failure-aborts": 4, "shutdown-once": 6, "state-isolation": 2}
SHARDS = 16

LS_OK = [["recv"], ["set_state", "from_lifespan", "L"], ["send", {"type": "lifespan.startup.complete"}], ["recv"],
         ["send", {"type": "lifespan.shutdown.complete"}]]


def _startup_scripts():
    return {
        "complete": LS_OK,
        "complete_slow": [["recv"], ["sleep", 0.35], ["set_state", "from_lifespan", "L"], ["send", {"type": "lifespan.startup.complete"}],
                          ["recv"], ["send", {"type": "lifespan.shutdown.complete"}]],
        "failed": [["recv"], ["sleep", 0.15], ["send", {"type": "lifespan.startup.failed", "message": "nope"}]],
        "failed_keeps_running": [["recv"], ["sleep", 0.15], ["try_send", {"type": "lifespan.startup.failed", "message": "nope"}], ["sleep", 1.0]],
        "failed_then_returns": [["recv"], ["sleep", 0.15], ["try_send", {"type": "lifespan.startup.failed", "message": "nope"}], ["return"]],
        # ... says it has failed and then leaves with an exception of another kind; also at once, before it ever waits for anything
        "failed_then_raises": [["recv"], ["sleep", 0.15], ["try_send", {"type": "lifespan.startup.failed", "message": "nope"}], ["raise", "Exception"]],
        "failed_at_once_then_raises": [["try_send", {"type": "lifespan.startup.failed", "message": "nope"}], ["raise", "Exception"]],
        "failed_nomsg_keeps_running": [["recv"], ["sleep", 0.15], ["try_send", {"type": "lifespan.startup.failed"}], ["sleep", 1.0]],
        "failed_emptymsg_keeps_running": [["recv"], ["sleep", 0.15], ["try_send", {"type": "lifespan.startup.failed", "message": ""}], ["sleep", 1.0]],
        "raise_before_receive": [["sleep", 0.15], ["raise", "Exception"]],
        "raise_after_receive": [["recv"], ["sleep", 0.15], ["raise", "Exception"]],
        "hang": [["recv"], ["sleep", 30.0]],
        # ... without ever asking for the start-up message (run with an application queue that holds nothing: max_app_queue_size 0)
        "hang_no_receive": [["sleep", 30.0]],
        # leaves the lifespan scope without a word: like raising, it will never complete start-up, and must not take the worker down
        "return_immediately": [["return"]],
        "return_after_receive": [["recv"], ["sleep", 0.15], ["return"]],
        "unknown_message": [["recv"], ["sleep", 0.15], ["send", {"type": "lifespan.bogus"}]],
    }


def _shutdown_scripts():
    return {
        "complete": LS_OK,
        "shutdown_raise": LS_OK[:4] + [["raise", "Exception"]],
        "shutdown_hang": LS_OK[:4] + [["sleep", 30.0]],
        "shutdown_slow": LS_OK[:4] + [["sleep", 0.2], ["send", {"type": "lifespan.shutdown.complete"}]],
        "shutdown_failed": LS_OK[:4] + [["try_send", {"type": "lifespan.shutdown.failed", "message": "cleanup failed"}]],
        "shutdown_failed_then_lingers": LS_OK[:4] + [["try_send", {"type": "lifespan.shutdown.failed"}], ["sleep", 0.3]],
        "shutdown_unknown": LS_OK[:4] + [["try_send", {"type": "lifespan.bogus"}]],
        "shutdown_return_early": LS_OK[:4],
        # completes its start-up without having read the start-up message: with a queue of one (max_app_queue_size 1) there is no room for
        # the shutdown message - the shutdown timeout still has to end the wait
        "shutdown_queue_full": [["send", {"type": "lifespan.startup.complete"}], ["sleep", 30.0]],
    }


def gen(rng, tier):
    reps = 1 if tier == "quick" else 3
    for rep in range(reps):
        for be in ("asyncio", "trio"):
            for name in _startup_scripts():
                for activity in ("hammer", "none"):
                    if tier == "quick" and activity == "none" and name not in ("complete", "failed"):
                        continue
                    yield {"family": "startup.%s.%s" % (name, activity), "backend": be, "phase": "startup", "script": name, "activity": activity, "rep": rep}
            # an application that has left the lifespan scope without a word (as one that ignores it does), a queue that holds one message:
            # nothing is wrong - start-up, serving and shutdown go through, serve() returns
            yield {"family": "startup.return_immediately.queue1", "backend": be, "phase": "startup", "script": "return_immediately", "activity": "hammer", "rep": rep, "queue1": True}
            for name in _shutdown_scripts():
                for activity in ("inflight", "idle_conn", "none", "stuck"):
                    if tier == "quick" and activity == "none" and name != "complete":
                        continue
                    if activity == "stuck" and name not in ("complete", "shutdown_slow"):
                        continue
                    yield {"family": "shutdown.%s.%s" % (name, activity), "backend": be, "phase": "shutdown", "script": name, "activity": activity, "rep": rep}
            for k in range(2):
                yield {"family": "state", "backend": be, "phase": "state", "script": "complete", "activity": "two_conns", "rep": rep * 10 + k}
            # ... behind the middlewares the package ships (they wrap the whole application, its lifespan scope included)
            for mw in ("proxyfix", "http_to_https"):
                if mw == "proxyfix":  # (the redirect middleware answers plain-http requests itself: no request reaches the application)
                    yield {"family": "state.behind-" + mw, "backend": be, "phase": "state", "script": "complete", "activity": "two_conns", "rep": rep, "mw": mw}
                yield {"family": "startup.failed.behind-" + mw, "backend": be, "phase": "startup", "script": "failed", "activity": "hammer", "rep": rep, "mw": mw}
                yield {"family": "shutdown.complete.behind-" + mw, "backend": be, "phase": "shutdown", "script": "complete", "activity": "none", "rep": rep, "mw": mw}
            # ... also when the lifespan application stored nothing, or there is no lifespan support at all
            yield {"family": "state.empty", "backend": be, "phase": "state", "script": "complete_empty", "activity": "two_conns", "rep": rep}
            yield {"family": "state.no-lifespan", "backend": be, "phase": "state", "script": "raise_before_receive", "activity": "two_conns", "rep": rep}
            # the real master process and its spawn-ed workers
            for which, workers in ((("failing", 1), ("failing", 2), ("raising", 1), ("ok", 2), ("failing-one", 2)) if tier == "quick" else
                                   (("failing", 1), ("failing", 2), ("failing", 3), ("raising", 1), ("raising", 2), ("ok", 1), ("ok", 2), ("failing-one", 2), ("failing-one", 3))):
                yield {"family": "process.%s.w%d" % (which, workers), "backend": be, "phase": "process", "script": which, "workers": workers, "activity": "probe", "rep": rep}


REQ = b"GET /t%d HTTP/1.1\r\nHost: h\r\n\r\n"


def _process_startup(case, tally):
    """The real master (python -m hypercorn) with spawn-ed workers and a real importable application.  failing: start-up fails
    (lifespan.startup.failed) - the server has to abort *with an error* (a non-zero exit status is the only error a supervisor sees) and no
    request may be served; raising: no lifespan support - serving works, SIGTERM ends the master with status 0; ok: every worker's
    lifespan.startup precedes every request it takes on.  Counts and order from the application's own log; wall clock only as a watchdog."""
    import os, shutil, signal, socket, subprocess, sys, tempfile

    findings = []
    be, workers, which = case["backend"], case["workers"], case["script"]
    d = tempfile.mkdtemp(prefix="hv-c14p-")
    path, logf = os.path.join(d, "s.sock"), os.path.join(d, "log")
    target = {"failing": "hv.apps.procapp:failing_app", "raising": "hv.apps.procapp:raising_app", "ok": "hv.apps.procapp:app",
              "failing-one": "hv.apps.procapp:failing_once_app"}[which]
    cmd = [sys.executable, "-m", "hypercorn", "--bind", "unix:" + path, "--workers", str(workers), "--worker-class", be, "--graceful-timeout", "2", target]
    proc = subprocess.Popen(cmd, env=dict(os.environ, HV_PROC_LOG=logf, HV_PROC_LOCK=os.path.join(d, "lock")), stdout=subprocess.PIPE, stderr=subprocess.STDOUT, cwd=d,
                            start_new_session=True)  # (its own process group: workers the master leaves behind can be cleared away with it)
    served, rc, out = [], None, b""

    def ask(i):
        c = socket.socket(socket.AF_UNIX)
        c.settimeout(3.0)
        try:
            c.connect(path)
            c.sendall(b"GET /p%d HTTP/1.1\r\nHost: h\r\nConnection: close\r\n\r\n" % i)
            buf = b""
            while True:
                x = c.recv(65536)
                if not x:
                    break
                buf += x
            return buf
        except OSError:
            return None
        finally:
            c.close()

    try:
        if which in ("failing", "failing-one"):
            end = time.monotonic() + 25.0
            i = 0
            while time.monotonic() < end and proc.poll() is None:
                i += 1
                r = ask(i) if os.path.exists(path) else None
                if r:
                    served.append(r[:40])
                time.sleep(0.05)
            if proc.poll() is None:
                rc = "timeout"
            else:
                rc = proc.returncode
        else:
            end = time.monotonic() + 20.0
            got = 0
            i = 0
            while time.monotonic() < end and got < 3 * workers and proc.poll() is None:
                i += 1
                r = ask(i) if os.path.exists(path) else None
                if r and r.startswith(b"HTTP/1.1 200"):
                    got += 1
                    served.append(r[:40])
                else:
                    time.sleep(0.05)
            proc.send_signal(signal.SIGTERM)
            try:
                out, _ = proc.communicate(timeout=20.0)
                rc = proc.returncode
            except subprocess.TimeoutExpired:
                rc = "timeout"
    finally:
        try:
            os.killpg(proc.pid, signal.SIGKILL)
        except (ProcessLookupError, PermissionError):
            pass
        if proc.poll() is None:
            proc.kill()
        try:
            proc.communicate(timeout=10.0)
        except subprocess.TimeoutExpired:
            pass
        log = [ln.split() for ln in (open(logf).read().splitlines() if os.path.exists(logf) else [])]
        shutil.rmtree(d, ignore_errors=True)
    log = [f for f in log if len(f) == 4]
    tally.events["proc.log-lines"] += len(log)
    if rc == "timeout" and which not in ("failing", "failing-one"):
        tally.inconclusive["process-run-did-not-finish"] += 1
        return findings, [None]
    tally.clause("process-startup")
    if which == "failing-one":
        # start-up failed in one worker and completed in another: the server aborts with an error all the same, and the worker that did
        # start is shut down in order - told to stop, its lifespan.shutdown delivered (once) - not left serving until it is killed
        failed = {f[1] for f in log if f[2] == "lifespan" and f[3] == "startup-failing"}
        good = {f[1] for f in log if f[2] == "lifespan" and f[3] == "startup"}
        if not failed or not good:
            tally.inconclusive["process-run-no-asymmetric-failure"] += 1
            return findings, [None]
        if rc == "timeout":
            findings.append({"clause": "failure-aborts", "sig": "C14.process/not-aborted-after-one-worker-failed/%s" % be, "backend": be,
                             "detail": "lifespan.startup.failed in worker(s) %s, completed in %s: the master was still running 25 s later" % (sorted(failed), sorted(good))})
        elif rc == 0:
            findings.append({"clause": "failure-aborts", "sig": "C14.process/exit-status-0-after-startup-failed/%s" % be, "backend": be,
                             "detail": "lifespan.startup.failed in one of %d workers: the master ended with exit status 0" % workers})
        for pid in sorted(good):
            n = sum(1 for f in log if f[1] == pid and f[2] == "lifespan" and f[3] == "shutdown")
            if n != 1 and rc != "timeout":
                findings.append({"clause": "shutdown-once", "sig": "C14.process/sibling-shutdown-count-%d/%s" % (n, be), "backend": be,
                                 "detail": "worker %s had completed its start-up when another worker's failed: it received lifespan.shutdown %d times before the server ended" % (pid, n)})
        return findings, [None]
    if which == "failing":
        if not any(f[2] == "lifespan" and f[3] == "startup" for f in log):
            tally.inconclusive["process-run-lifespan-never-started"] += 1
            return findings, [None]
        if served or any(f[2] == "start" for f in log):
            findings.append({"clause": "failure-aborts", "sig": "C14.process/served-after-startup-failed/%s" % be, "backend": be,
                             "detail": "lifespan.startup.failed, yet requests were served: %r" % served[:3]})
        if rc == "timeout":
            findings.append({"clause": "failure-aborts", "sig": "C14.process/not-aborted/%s" % be, "backend": be,
                             "detail": "lifespan.startup.failed in every worker and the master was still running 25 s later (workers=%d)" % workers})
        elif rc == 0:
            findings.append({"clause": "failure-aborts", "sig": "C14.process/exit-status-0-after-startup-failed/%s" % be, "backend": be,
                             "detail": "lifespan.startup.failed: the master process ended with exit status 0, i.e. without an error (workers=%d)" % workers})
    else:
        if not served:
            findings.append({"clause": "serves-without-lifespan" if which == "raising" else "order", "sig": "C14.process/nothing-served/%s/%s" % (which, be), "backend": be,
                             "detail": "no request was answered within 20 s (workers=%d)" % workers})
        for pid in sorted({f[1] for f in log}):
            mine = [f for f in log if f[1] == pid]
            if which == "ok":
                su = [k for k, f in enumerate(mine) if f[2] == "lifespan" and f[3] == "startup"]
                st = [k for k, f in enumerate(mine) if f[2] == "start"]
                if st and (not su or su[0] > st[0]):
                    findings.append({"clause": "order", "sig": "C14.process/request-before-startup/%s" % be, "backend": be,
                                     "detail": "worker %s took on a request before its lifespan.startup" % pid})
                if len(su) > 1:
                    findings.append({"clause": "order", "sig": "C14.process/startup-count-%d/%s" % (len(su), be), "backend": be, "detail": "worker %s" % pid})
        if rc != 0:
            findings.append({"clause": "shutdown-once", "sig": "C14.process/exit-status-after-sigterm/%s/%s" % (which, be), "backend": be,
                             "detail": "SIGTERM after an orderly run: the master exited with status %r" % rc})
    return findings, [None]


def run_one(case, tally):
    findings = []
    be = case["backend"]
    if case["phase"] == "process":
        return _process_startup(case, tally)
    phase = case["phase"]
    scripts = _startup_scripts() if phase in ("startup", "state") else _shutdown_scripts()
    scripts = dict(scripts, complete_empty=[["recv"], ["send", {"type": "lifespan.startup.complete"}], ["recv"], ["send", {"type": "lifespan.shutdown.complete"}]])
    apps = {
        "lifespan": scripts.get(case["script"], LS_OK),
        "default": [["recv_until_end"], ["respond", 200, [(b"content-length", b"2")], b"ok"]],
        "by_path": {
            "/slow": [["recv_until_end"], ["wait", "finish"], ["respond", 200, [(b"content-length", b"4")], b"slow"]],
            "/mutate": [["recv_until_end"], ["set_state", "x", "mutated"], ["respond", 200, [(b"content-length", b"2")], b"ok"]],
        },
    }
    cfg = {"startup_timeout": 0.6 if case["script"] in ("hang", "hang_no_receive") else 5.0, "shutdown_timeout": 0.6, "graceful_timeout": 2.0, "keep_alive_timeout": 5.0}
    if case["script"] == "hang_no_receive":
        cfg["max_app_queue_size"] = 0
    if case["script"] == "shutdown_queue_full":
        cfg["max_app_queue_size"] = 1
    if case.get("queue1"):
        cfg["max_app_queue_size"] = 1
    h = ServeHarness(be, cfg, apps)
    h.middleware = case.get("mw")
    served = []
    try:
        h.start()
        tr = h.trace
        if phase == "startup":
            deadline = time.monotonic() + 1.6
            k = 0
            while time.monotonic() < deadline and not h.done.is_set():
                if case["activity"] == "hammer":
                    s = h.connect(timeout=0.3)
                    if s is not None:
                        k += 1
                        try:
                            s.sendall(REQ % k)
                            data = recv_until(s, timeout=0.25)
                            if data:
                                served.append(data[:12])
                                tr.ev("client", "response", n=len(data))
                        except OSError:
                            pass
                        finally:
                            s.close()
                    time.sleep(0.02)
                else:
                    time.sleep(0.05)
            h.trigger_shutdown()
            finished = h.wait_done(6.0)
        elif phase == "shutdown":
            ok = h.wait_event(lambda e: e[2] == "app" and e[3] == "send." and True, 3.0)
            h.wait_ready()
            socks = []
            if case["activity"] in ("inflight", "stuck"):
                s = h.connect()
                s.sendall(b"GET /slow HTTP/1.1\r\nHost: h\r\n\r\n")
                socks.append(s)
                h.wait_event(lambda e: e[2] == "app" and e[3] == "start" and e[4]["scope"].get("path") == "/slow", 2.0)
            elif case["activity"] == "idle_conn":
                s = h.connect()
                s.sendall(REQ % 1)
                recv_until(s, b"ok", timeout=1.0)
                socks.append(s)
            h.trigger_shutdown()
            if case["activity"] == "inflight":
                time.sleep(0.25)
                tr.ev("client", "release-inflight")
                h.apps.trigger("finish")
                data, eof = recv_all(socks[0], timeout=2.0)
                tr.ev("client", "inflight-response", n=len(data), complete=data.endswith(b"slow"))
            finished = h.wait_done(14.0 if case["activity"] == "stuck" else 12.0 if case["script"] in ("shutdown_hang", "shutdown_queue_full") else 6.0)
            for s in socks:
                s.close()
        else:  # state isolation
            h.wait_event(lambda e: e[2] == "app" and e[3] == "send.", 3.0)
            h.wait_ready()
            for path in (b"/mutate", b"/t2", b"/t3"):
                s = h.connect()
                s.sendall(b"GET %s HTTP/1.1\r\nHost: h\r\n\r\n" % path)
                recv_until(s, b"ok", timeout=1.0)
                # a second request on the same connection sees the connection's own state
                if path == b"/mutate":
                    s.sendall(b"GET /same-conn HTTP/1.1\r\nHost: h\r\n\r\n")
                    recv_until(s, b"ok", timeout=1.0)
                s.close()
            h.trigger_shutdown()
            finished = h.wait_done(6.0)
        if not finished and case["script"] not in ("hang", "hang_no_receive", "shutdown_hang", "shutdown_queue_full"):
            tally.inconclusive["serve-did-not-return-in-6s(%s)" % case["family"]] += 1
    finally:
        h.close()
    ev = h.trace.events
    for e in ev:
        tally.events[e[2] + "." + e[3]] += 1

    def first(pred):
        return next((e for e in ev if pred(e)), None)

    ls_start = first(lambda e: e[2] == "app" and e[3] == "start" and e[4]["scope"].get("type") == "lifespan")
    if ls_start is None:
        took = [e for e in ev if (e[2] == "net" and e[3] == "accept") or (e[2] == "app" and e[3] == "start" and e[4]["scope"].get("type") == "http")]
        if took:
            # connections were taken on although the application was never handed its lifespan scope (nothing it could complete or fail)
            tally.clause("order")
            findings.append({"clause": "order", "sig": "C14.order/served-without-lifespan-scope" + ("/behind-" + case["mw"] if case.get("mw") else ""), "backend": be,
                             "detail": "%s: %d connections/requests were taken on and the application never saw a lifespan scope (%s)" % (be, len(took), case["family"])})
        else:
            tally.inconclusive["lifespan-app-not-started"] += 1
        return findings, [None]
    ls_inst = ls_start[4]["inst"]
    # the instant serving may begin: startup.complete sent, or the lifespan application raised
    complete = None
    for i, e in enumerate(ev):
        if e[2] == "app" and e[3] == "send?" and e[4]["inst"] == ls_inst and e[4]["msg"].get("type") == "lifespan.startup.complete":
            complete = e[0]
            break
    ls_exit = first(lambda e: e[2] == "app" and e[3] == "exit" and e[4]["inst"] == ls_inst)
    raised = ls_exit[0] if ls_exit is not None and ls_exit[4]["outcome"] != "return" else None
    if case["script"] in ("return_immediately", "return_after_receive") and ls_exit is not None:
        raised = ls_exit[0]  # left the scope without a word: nothing before that instant may be served; afterwards is not judged
    gate = min([x for x in (complete, raised) if x is not None], default=None)
    http_starts = [e for e in ev if e[2] == "app" and e[3] == "start" and e[4]["scope"].get("type") == "http"]
    accepts = [e for e in ev if e[2] == "net" and e[3] == "accept"]
    servers = [e for e in ev if e[2] == "srv" and e[3] == "tcpserver"]
    script = case["script"]
    if phase == "startup":
        tally.clause("order")
        early = [e for e in accepts + servers + http_starts if gate is None or e[0] < gate]
        must_abort = script in ("failed", "failed_keeps_running", "failed_then_returns", "failed_nomsg_keeps_running", "failed_emptymsg_keeps_running", "hang",
                                "hang_no_receive", "failed_then_raises", "failed_at_once_then_raises")
        if script in ("hang", "hang_no_receive") and not finished:
            # start-up timeout 0.6 s; the observation window (1.6 s of probing + 6 s) is more than ten times that
            findings.append({"clause": "failure-aborts", "sig": "C14.failure/startup-timeout-not-enforced/%s" % be, "backend": be,
                             "detail": "the lifespan application neither completed nor failed its start-up (%s, max_app_queue_size %r) and startup_timeout is 0.6 s: "
                                       "serve() was still waiting 7 s later" % (script, cfg.get("max_app_queue_size", 10))})
        if early and not must_abort:
            out_sig = "C14.order/served-before-startup-complete"
            findings.append({"clause": "order", "sig": out_sig, "backend": be,
                             "detail": "%s: %s at seq %d precedes start-up completion (seq %r); script %s" % (
                                 be, early[0][2] + "." + early[0][3], early[0][0], gate, script)})
        if must_abort:
            tally.clause("failure-aborts")
            if http_starts or servers or accepts or served:
                findings.append({"clause": "failure-aborts", "sig": "C14.failure/served-after-%s" % script.replace("_", "-"), "backend": be,
                                 "detail": "start-up %s but %d accepts, %d connections, %d requests were served" % (script, len(accepts), len(servers), len(http_starts))})
            if h.result == "returned":
                findings.append({"clause": "failure-aborts", "sig": "C14.failure/no-error-%s" % script.replace("_", "-"), "backend": be,
                                 "detail": "start-up %s but serve() returned normally" % script})
        elif script in ("complete", "complete_slow") and case["activity"] == "hammer":
            if not http_starts:
                tally.inconclusive["no-request-served-after-startup"] += 1
        elif script in ("return_immediately", "return_after_receive"):
            # the statement does not say whether serving starts; an internal error of the worker is not an answer either way
            tally.clause("return-early-no-crash")
            if case.get("queue1") and isinstance(h.result, tuple):
                findings.append({"clause": "order", "sig": "C14.return-early/serve-raised/%s" % be, "backend": be,
                                 "detail": "lifespan application returned at once (max_app_queue_size 1): serve() ended with %s" % h.result[1].strip().splitlines()[-1][:200]})
            elif isinstance(h.result, tuple) and "LifespanFailureError" not in h.result[1] and "LifespanTimeoutError" not in h.result[1]:
                findings.append({"clause": "order", "sig": "C14.return-early/worker-crashed/%s" % be, "backend": be,
                                 "detail": "lifespan application returned without completing start-up (%s); serve() raised %s" % (
                                     script, h.result[1].strip().splitlines()[-1][:200])})
        elif script in ("raise_before_receive", "raise_after_receive") and case["activity"] == "hammer":
            # an application that raises has shown that it does not support lifespan: serving starts (the client hammered for 1.6 s,
            # the application raised after 0.15 s; start-up timeout is 5 s)
            tally.clause("serves-without-lifespan")
            if isinstance(h.result, tuple) or not http_starts:
                findings.append({"clause": "order", "sig": "C14.no-lifespan-support/not-served/%s" % be, "backend": be,
                                 "detail": "lifespan application raised (%s) but %d requests were served in the following 1.4 s; serve() result %r" % (
                                     script, len(http_starts), h.result if not isinstance(h.result, tuple) else h.result[1][-200:])})
    elif phase == "shutdown":
        tally.clause("shutdown-once")
        sd = [e for e in ev if e[2] == "app" and e[3] == "recv" and e[4]["inst"] == ls_inst and e[4]["msg"].get("type") == "lifespan.shutdown"]
        if script == "shutdown_queue_full":
            pass  # this application never asks for a message: how many it would have been handed is not observable
        elif len(sd) != 1:
            findings.append({"clause": "shutdown-once", "sig": "C14.shutdown/count-%d" % len(sd), "backend": be,
                             "detail": "lifespan.shutdown delivered %d times (%s)%s" % (len(sd), case["family"],
                                       "" if case["activity"] != "stuck" else "; a request handler outlasted the grace period (2.0 s), serve() %s within 14 s of the trigger" % (
                                           "returned" if finished else "had not returned"))})
        else:
            trig = first(lambda e: e[2] == "client" and e[3] == "trigger-shutdown")
            if sd[0][0] < trig[0]:
                findings.append({"clause": "shutdown-once", "sig": "C14.shutdown/before-trigger", "backend": be, "detail": "lifespan.shutdown before the trigger"})
            if case["activity"] == "stuck":
                # a handler that outlasts the grace period: "... or the graceful timeout has elapsed" - not before, and then it does come
                if sd[0][1] - trig[1] < 2.0 - 0.05:
                    findings.append({"clause": "shutdown-once", "sig": "C14.shutdown/before-drain", "backend": be,
                                     "detail": "lifespan.shutdown at %.3f s after the trigger while a request was still in flight and the grace period (2.0 s) had not elapsed" % (sd[0][1] - trig[1])})
            if case["activity"] == "inflight":
                ex = first(lambda e: e[2] == "app" and e[3] == "exit" and e[4]["inst"] != ls_inst)
                t_trig = trig[1]
                # drained means the in-flight application returned; otherwise the grace period (2.0 s) must have elapsed
                if (ex is None or sd[0][0] < ex[0]) and sd[0][1] - t_trig < 2.0 - 0.05:
                    findings.append({"clause": "shutdown-once", "sig": "C14.shutdown/before-drain", "backend": be,
                                     "detail": "lifespan.shutdown at %.3f s after the trigger while a request was still in flight and the grace period (2.0 s) had not elapsed" % (sd[0][1] - t_trig)})
                resp = first(lambda e: e[2] == "client" and e[3] == "inflight-response")
                if resp is not None and not resp[4]["complete"]:
                    findings.append({"clause": "shutdown-once", "sig": "C14.shutdown/inflight-truncated", "backend": be,
                                     "detail": "request released inside the grace period was not delivered in full"})
        if script in ("shutdown_hang", "shutdown_queue_full") and not finished:
            findings.append({"clause": "shutdown-once", "sig": "C14.shutdown/timeout-not-enforced/%s" % be, "backend": be,
                             "detail": "the lifespan application did not complete its shutdown (%s) and shutdown_timeout is 0.6 s: serve() had not ended 12 s after "
                                       "the trigger" % script})
        if script == "shutdown_hang" and h.result == "returned":
            tally.notes["shutdown-hang-returned-normally"] += 1
    else:
        tally.clause("state-isolation")
        snaps = {}
        for e in http_starts:
            snaps.setdefault(e[4]["scope"].get("path"), []).append(e[4]["scope"].get("state"))
        if not all(p in snaps for p in ("/mutate", "/t2", "/t3", "/same-conn")):
            tally.inconclusive["state-requests-missing"] += 1
        else:
            for p in ("/mutate", "/t2", "/t3"):
                st = snaps[p][0]
                if case["script"] == "complete" and (not isinstance(st, dict) or st.get("from_lifespan") != "L"):
                    findings.append({"clause": "state-isolation", "sig": "C14.state/lifespan-state-missing", "backend": be,
                                     "detail": "scope state of %s is %r; the lifespan application had set from_lifespan" % (p, st)})
                if p != "/mutate" and isinstance(st, dict) and "x" in st:
                    findings.append({"clause": "state-isolation", "sig": "C14.state/leaked-between-connections", "backend": be,
                                     "detail": "connection for %s sees the other connection's mutation: %r" % (p, st)})
            ls_state = h.apps.scopes[ls_inst].get("state")
            if isinstance(ls_state, dict) and "x" in ls_state:
                findings.append({"clause": "state-isolation", "sig": "C14.state/leaked-into-lifespan", "backend": be,
                                 "detail": "a connection's mutation is visible in the lifespan state: %r" % ls_state})
    return findings, [None]


def nontrivial(case, obs):
    return True


def check(case, obs, tally):
    return []
