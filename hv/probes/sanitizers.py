"""Python-level sanitizers: loop exception handler, unraisable hook, warnings, logging capture."""
from __future__ import annotations

import logging
import sys
import traceback
import warnings


class Sanitizers:
    def __init__(self, trace):
        self.trace = trace
        self.reports = []
        self._old_unraisable = None
        self._warn_ctx = None
        self._warns = None

    def report(self, kind, text):
        self.reports.append((kind, text))
        self.trace.ev("srv", "sanitizer", what=kind, text=text[:400])

    def loop_handler(self, loop, context):
        exc = context.get("exception")
        msg = context.get("message", "")
        text = msg
        if exc is not None:
            text += " | " + "".join(traceback.format_exception_only(type(exc), exc)).strip()
        self.report("loop", text)

    def __enter__(self):
        self._old_unraisable = sys.unraisablehook

        def hook(unraisable):
            # exceptions swallowed by the interpreter (finalizers, __del__, callbacks): which object and which code, so that a report can
            # be tied to the server's code - or recognised as the collection of some earlier case's leftovers
            try:
                where = "".join(traceback.format_tb(unraisable.exc_traceback)[-4:]) if unraisable.exc_traceback else ""
            except Exception:
                where = ""
            self.report(
                "unraisable",
                "%s: %r %r object=%.120r\n%s" % (unraisable.err_msg, unraisable.exc_type, unraisable.exc_value, unraisable.object, where),
            )

        sys.unraisablehook = hook
        self._warn_ctx = warnings.catch_warnings(record=True)
        self._warns = self._warn_ctx.__enter__()
        warnings.simplefilter("always")
        return self

    def __exit__(self, *a):
        sys.unraisablehook = self._old_unraisable
        for w in self._warns or []:
            if issubclass(w.category, (RuntimeWarning, ResourceWarning)):
                self.report("warning", "%s: %s" % (w.category.__name__, w.message))
        self._warn_ctx.__exit__(*a)


class ListHandler(logging.Handler):
    def __init__(self, trace, channel, san):
        super().__init__()
        self.trace, self.channel, self.san = trace, channel, san
        self.records = []

    def emit(self, record):
        try:
            text = record.getMessage()
        except Exception as e:  # formatting failure inside the real AccessLogAtoms / format
            self.san.report("log-format", "%s: %r" % (self.channel, e))
            text = "<format error>"
        exc = None
        if record.exc_info and record.exc_info[1] is not None:
            exc = repr(record.exc_info[1])
        atoms = None
        if self.channel == "access" and isinstance(record.args, dict):
            a = record.args
            try:
                atoms = {k: a[k] for k in ("s", "U", "q", "m", "H", "h", "r", "R", "S")}
            except Exception as e:
                self.san.report("log-format", "atoms: %r" % (e,))
        self.records.append({"level": record.levelname, "text": text, "exc": exc, "atoms": atoms})
        self.trace.ev("log", self.channel, level=record.levelname, text=text[:300], exc=exc, atoms=atoms)


def make_loggers(trace, san):
    acc = logging.Logger("hv.access", logging.INFO)
    err = logging.Logger("hv.error", logging.DEBUG)
    ah, eh = ListHandler(trace, "access", san), ListHandler(trace, "error", san)
    acc.addHandler(ah)
    err.addHandler(eh)
    acc.propagate = False
    err.propagate = False
    return acc, err, ah, eh
