#!/usr/bin/env python3
"""selftest/mkprompts.py <round-tag> <outdir> [IDs…]  — writes one self-contained prompt per property for an independent sub-agent
(the prompt carries only the property text, the location of a scratch worktree and — from round 2 on — a one-line description of
the changes earlier authors delivered for that property, so that the new one uses another mechanism).  Nothing from /verif's
machinery is mentioned.  Worktrees are created by the caller:  git -C /repo worktree add --detach /tmp/wt<round>-<ID> HEAD"""
import glob, json, os, sys

tag, out = sys.argv[1:3]
ids = sys.argv[3:] or ["C%02d" % i for i in range(1, 21)]
props = {json.loads(l)["id"]: json.loads(l) for l in open("/verif/properties.jsonl")}
TEMPLATE = open(os.path.join(os.path.dirname(__file__), "prompt_template.txt")).read()
os.makedirs(out, exist_ok=True)
for pid in ids:
    p = props[pid]
    wt = "/tmp/wt%s-%s" % (tag, pid)
    prev = []
    for d in sorted(glob.glob("/verif/seeded/%s-*" % pid)):
        m = json.load(open(d + "/meta.json"))
        files = sorted({l[6:].strip() for l in open(d + "/patch.diff") if l.startswith("+++ b/")})
        prev.append("  - %s (files: %s): %s" % (os.path.basename(d), ", ".join(files), m.get("needs_to_manifest", "")))
    txt = TEMPLATE.format(wt=wt, out=os.path.join(out, pid), pid=pid, title=p["title"], statement=p["statement"],
                          over=", ".join(p["quantifier"]["over"]), qtext=p["quantifier"]["text"])
    if prev:
        txt += ("\n\nIMPORTANT - earlier engineers already delivered the following changes for this property; yours must be DIFFERENT from all of them: "
                "use another mechanism (preferably another function or file, another trigger) so that it is independent:\n" + "\n".join(prev) +
                "\nAlso prefer breaking a clause of the property statement that none of them broke.\n")
    os.makedirs(os.path.join(out, pid), exist_ok=True)
    open(os.path.join(out, pid + ".prompt.txt"), "w").write(txt)
    print(pid, len(txt))
