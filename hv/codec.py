"""JSON codec for cases/observations: bytes -> {"$b": hex}, tuples -> {"$t": [...]}, sets sorted."""
from __future__ import annotations

import hashlib
import json


def enc(o):
    if isinstance(o, (bytes, bytearray, memoryview)):
        b = bytes(o)
        if len(b) > 4096:
            return {"$bl": len(b), "$sha": hashlib.sha1(b).hexdigest(), "$head": b[:32].hex()}
        return {"$b": b.hex()}
    if isinstance(o, tuple):
        return {"$t": [enc(x) for x in o]}
    if isinstance(o, list):
        return [enc(x) for x in o]
    if isinstance(o, (set, frozenset)):
        return {"$s": sorted((enc(x) for x in o), key=repr)}
    if isinstance(o, dict):
        return {str(k): enc(v) for k, v in o.items()}
    if isinstance(o, float):
        if o != o or o in (float("inf"), float("-inf")):
            return {"$f": repr(o)}
        return o
    if o is None or isinstance(o, (str, int, bool)):
        return o
    return {"$r": repr(o)}


def enc_full(o):
    """Lossless variant (no truncation of long byte strings) for replay files."""
    if isinstance(o, (bytes, bytearray, memoryview)):
        return {"$b": bytes(o).hex()}
    if isinstance(o, tuple):
        return {"$t": [enc_full(x) for x in o]}
    if isinstance(o, list):
        return [enc_full(x) for x in o]
    if isinstance(o, dict):
        return {str(k): enc_full(v) for k, v in o.items()}
    if isinstance(o, float) and (o != o or o in (float("inf"), float("-inf"))):
        return {"$f": repr(o)}
    if o is None or isinstance(o, (str, int, bool, float)):
        return o
    return {"$r": repr(o)}


def dec(o):
    if isinstance(o, list):
        return [dec(x) for x in o]
    if isinstance(o, dict):
        if "$b" in o and len(o) == 1:
            return bytes.fromhex(o["$b"])
        if "$t" in o and len(o) == 1:
            return tuple(dec(x) for x in o["$t"])
        if "$f" in o and len(o) == 1:
            return float(o["$f"])
        return {k: dec(v) for k, v in o.items()}
    return o


def dumps(o, full=False):
    return json.dumps(enc_full(o) if full else enc(o), sort_keys=True)


def case_hash(o):
    return hashlib.blake2b(dumps(o, full=True).encode(), digest_size=8).hexdigest()
