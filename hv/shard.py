"""Shard worker entry point: python -m hv.shard <ID> <tier> <seed> <shard> <nshards> <budget_s> <out>"""
import faulthandler
import sys

from .probes import linecov
from .runner import run_shard

if __name__ == "__main__":
    pid, tier, seed, shard, nshards, budget, out = sys.argv[1:8]
    linecov.install()
    faulthandler.dump_traceback_later(float(budget) * 3 + 100, exit=True)
    run_shard(pid, tier, int(seed), int(shard), int(nshards), float(budget), out)
