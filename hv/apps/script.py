"""Backend-neutral scripted ASGI applications.

A script is data (a list of steps); one interpreter runs it on asyncio and on trio.  Every
receive() result and every send() call/outcome is recorded in the trace, so an oracle can see a
send that never returned, a message delivered after disconnect, etc.
"""
from __future__ import annotations

import copy
import hashlib

import sniffio

_PAT_CACHE = {}


def pattern(tag, off, n):
    """Position-dependent byte stream for `tag`: bytes [off, off+n)."""
    need = off + n
    key = tag
    cur = _PAT_CACHE.get(key)
    if cur is None or len(cur) < need:
        size = max(need, 1 << 16)
        cur = hashlib.shake_128(repr(tag).encode()).digest(size)
        if len(_PAT_CACHE) > 64:
            _PAT_CACHE.clear()
        _PAT_CACHE[key] = cur
    return cur[off:need]


class AppCrash(Exception):
    pass


class AppBaseCrash(BaseException):
    pass


class _Shim:
    def __init__(self):
        self.lib = sniffio.current_async_library()
        if self.lib == "trio":
            import trio

            self.trio = trio
        else:
            import asyncio

            self.asyncio = asyncio

    async def sleep(self, dt):
        if self.lib == "trio":
            await self.trio.sleep(dt)
        else:
            await self.asyncio.sleep(dt)

    async def checkpoint(self):
        if self.lib == "trio":
            await self.trio.lowlevel.checkpoint()
        else:
            await self.asyncio.sleep(0)

    def new_event(self):
        return self.trio.Event() if self.lib == "trio" else self.asyncio.Event()

    async def recv_timeout(self, receive, t):
        """receive() with a (virtual) timeout; returns None on timeout."""
        if self.lib == "trio":
            with self.trio.move_on_after(t):
                return await receive()
            return None
        try:
            return await self.asyncio.wait_for(receive(), t)
        except self.asyncio.TimeoutError:
            return None

    async def in_child(self, fn):
        """Run the coroutine function in a child task of the application's (as applications built on task groups do) and wait for it."""
        if self.lib == "trio":
            async with self.trio.open_nursery() as nursery:
                nursery.start_soon(fn)
        else:
            await self.asyncio.create_task(fn())

    def cancel_self(self):
        if self.lib == "trio":
            raise NotImplementedError
        self.asyncio.current_task().cancel()


def scope_snapshot(scope):
    s = {}
    for k, v in scope.items():
        if k == "state":
            s[k] = dict(v) if isinstance(v, dict) else repr(v)
        elif k == "headers":
            s[k] = [(bytes(a), bytes(b)) for a, b in v]
        else:
            try:
                s[k] = copy.deepcopy(v)
            except Exception:
                s[k] = repr(v)
    return s


def _msg_summary(m):
    if not isinstance(m, dict):
        return m
    out = {}
    for k, v in m.items():
        if isinstance(v, (bytes, bytearray, memoryview)) and len(v) > 256:
            out[k] = ("$bytes", len(v), hashlib.sha1(bytes(v)).hexdigest())
        else:
            out[k] = v
    return out


class ScriptedApps:
    """The ASGI callable handed to hypercorn.  Picks a script per scope and interprets it."""

    def __init__(self, trace, apps, triggers=None):
        self.trace = trace
        self.apps = apps
        self.n = 0
        self.triggers = triggers if triggers is not None else {}
        self.fired = set()
        self.alive = 0
        self.max_alive = 0
        self.bodies = {}  # inst -> bytearray of received http.request bodies
        self.recvs = {}  # inst -> list of received messages (full)
        self.scopes = {}
        self.ended = {}  # inst -> the request body end (or a disconnect) has been received

    def pick(self, scope, inst):
        apps = self.apps
        if scope["type"] == "lifespan":
            return apps.get("lifespan")
        bi = apps.get("by_index")
        if bi and str(inst) in bi:
            return bi[str(inst)]
        bt = apps.get("by_tag")
        if bt:
            import re

            m = re.match(rb"/+t(\d+)", scope.get("raw_path") or b"")  # (a target may legally begin with empty segments: //t5/...)
            if m is None:
                m = re.match(rb"hvtag=(\d+)", scope.get("query_string") or b"")  # (... or have no path at all: http://host?hvtag=5)
            if m and m.group(1).decode() in bt:
                return bt[m.group(1).decode()]
        bp = apps.get("by_path")
        if bp:
            p = scope.get("path")
            if p in bp:
                return bp[p]
        if scope["type"] == "websocket" and "websocket" in apps:
            return apps["websocket"]
        return apps["default"]

    def trigger(self, name):
        self.fired.add(name)
        ev = self.triggers.get(name)
        if ev is not None:
            ev.set()

    async def __call__(self, scope, receive, send):
        if scope["type"] == "lifespan" and "lifespan" not in self.apps:
            raise AppCrash("lifespan unsupported")
        inst = self.n
        self.n += 1
        shim = _Shim()
        tr = self.trace
        script = self.pick(scope, inst)
        self.scopes[inst] = scope
        self.recvs[inst] = []
        self.bodies[inst] = bytearray()
        tr.ev("app", "start", inst=inst, scope=scope_snapshot(scope))
        self.alive += 1
        self.max_alive = max(self.max_alive, self.alive)
        outcome = "return"
        try:
            await self._run(script, scope, receive, send, inst, shim)
        except AppCrash as e:
            outcome = "raise"
            raise
        except ExceptionGroup as e:
            outcome = "raise"
            raise
        except BaseException as e:
            outcome = "base:" + type(e).__name__
            raise
        finally:
            self.alive -= 1
            tr.ev("app", "exit", inst=inst, outcome=outcome)

    async def _recv(self, receive, inst):
        m = await receive()
        self.recvs[inst].append(m)
        if isinstance(m, dict) and m.get("type") == "http.request":
            self.bodies[inst] += m.get("body", b"")
            if not m.get("more_body", False):
                self.ended[inst] = True
        elif isinstance(m, dict) and m.get("type") in ("http.disconnect", "websocket.disconnect"):
            self.ended[inst] = True
        self.trace.ev("app", "recv", inst=inst, msg=_msg_summary(m))
        return m

    async def _send(self, send, inst, msg):
        tr = self.trace
        tr.ev("app", "send?", inst=inst, msg=_msg_summary(msg))
        try:
            await send(msg)
        except BaseException as e:
            tr.ev("app", "send!", inst=inst, exc=type(e).__name__, text=str(e)[:200])
            raise
        tr.ev("app", "send.", inst=inst)

    async def _run(self, script, scope, receive, send, inst, shim):
        seen_disc = False
        for step in script:
            op = step[0]
            if op == "recv":
                m = await self._recv(receive, inst)
            elif op == "recv_n":
                for _ in range(step[1]):
                    await self._recv(receive, inst)
            elif op == "recv_until_end":
                while not self.ended.get(inst):
                    m = await self._recv(receive, inst)
                    t = m.get("type")
                    if t in ("http.disconnect", "websocket.disconnect"):
                        seen_disc = True
                        break
                    if t == "http.request" and not m.get("more_body", False):
                        break
                    if t not in ("http.request",):
                        break
                if seen_disc and len(step) > 1 and step[1] == "exit_on_disconnect":
                    return
            elif op == "recv_slow_until_end":
                while True:
                    m = await self._recv(receive, inst)
                    t = m.get("type")
                    if t != "http.request" or not m.get("more_body", False):
                        break
                    for _ in range(step[1]):
                        await shim.checkpoint()
            elif op == "send":
                await self._send(send, inst, step[1])
            elif op == "try_send":
                try:
                    await self._send(send, inst, step[1])
                except Exception:
                    pass
            elif op == "respond":
                status, headers, body = step[1], step[2], step[3]
                await self._send(send, inst, {"type": "http.response.start", "status": status, "headers": headers})
                await self._send(send, inst, {"type": "http.response.body", "body": body, "more_body": False})
            elif op == "send_stream":
                # ["send_stream", tag, total, chunk, end]
                tag, total, chunk, end = step[1], step[2], step[3], step[4]
                off = 0
                while off < total:
                    n = min(chunk, total - off)
                    last = end and off + n >= total
                    await self._send(
                        send, inst,
                        {"type": "http.response.body", "body": pattern(tag, off, n), "more_body": not last},
                    )
                    off += n
                if total == 0 and end:
                    await self._send(send, inst, {"type": "http.response.body", "body": b"", "more_body": False})
            elif op == "send_chunks":
                # ["send_chunks", tag, [sizes...], pause_k]: body messages of the given sizes (0 allowed);
                # the last one carries more_body=False
                tag, sizes = step[1], step[2]
                k = step[3] if len(step) > 3 else 0
                off = 0
                for i, n in enumerate(sizes):
                    await self._send(send, inst, {"type": "http.response.body", "body": pattern(tag, off, n),
                                                  "more_body": i < len(sizes) - 1})
                    off += n
                    for _ in range(k):
                        await shim.checkpoint()
            elif op == "child":
                # ["child", [steps...]]: the given steps run in a child task of the application's
                async def _sub(steps=step[1]):
                    await self._run(steps, scope, receive, send, inst, shim)
                await shim.in_child(_sub)
            elif op == "sleep":
                await shim.sleep(step[1])
            elif op == "yield":
                for _ in range(step[1]):
                    await shim.checkpoint()
            elif op == "wait":
                name = step[1]
                if getattr(self, "polling", False):
                    # tier B: triggers are fired from another thread; poll instead of sharing loop-bound events
                    while name not in self.fired:
                        await shim.sleep(0.003)
                elif name not in self.fired:
                    ev = self.triggers.get(name)
                    if ev is None:
                        ev = self.triggers[name] = shim.new_event()
                    await ev.wait()
            elif op == "raise":
                kind = step[1] if len(step) > 1 else "Exception"
                if kind == "BaseException":
                    raise AppBaseCrash("scripted base crash")
                if kind == "ExceptionGroup":
                    # what an application built on task groups / nurseries raises when one of its child tasks fails
                    raise ExceptionGroup("scripted crash in a child task", [AppCrash("scripted crash")])
                raise AppCrash("scripted crash")
            elif op == "return":
                return
            elif op == "cancel_self":
                shim.cancel_self()
                await shim.checkpoint()
            elif op == "linger":
                # keep receiving until nothing arrives for step[1] virtual seconds
                while True:
                    m = await shim.recv_timeout(lambda: self._recv(receive, inst), step[1])
                    if m is None:
                        break
            elif op == "ws_echo":
                while True:
                    m = await self._recv(receive, inst)
                    t = m.get("type")
                    if t == "websocket.disconnect":
                        break
                    if t == "websocket.receive":
                        out = {"type": "websocket.send"}
                        if m.get("bytes") is not None:
                            out["bytes"] = m["bytes"]
                        else:
                            out["text"] = m["text"]
                        await self._send(send, inst, out)
            elif op == "recv_until_disconnect":
                while True:
                    m = await self._recv(receive, inst)
                    if m.get("type") in ("http.disconnect", "websocket.disconnect"):
                        break
            elif op == "set_state":
                scope["state"][step[1]] = step[2]
            elif op == "count_and_respond_state":
                # what a visit counter kept in the connection's state looks like from this request: the value before, then incremented
                st = scope.get("state")
                before = st.get("visits", 0) if isinstance(st, dict) else None
                if isinstance(st, dict):
                    st["visits"] = before + 1
                body = ("visits-before=%r keys=%r" % (before, sorted(st) if isinstance(st, dict) else None)).encode()
                await self._send(send, inst, {"type": "http.response.start", "status": 200, "headers": [(b"content-length", b"%d" % len(body))]})
                await self._send(send, inst, {"type": "http.response.body", "body": body, "more_body": False})
            elif op == "note":
                self.trace.ev("app", "note", inst=inst, text=step[1])
            else:
                raise RuntimeError("unknown script op %r" % (op,))
