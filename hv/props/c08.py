"""C08 — send backpressure is applied, bounded, and always released."""
from __future__ import annotations

import time

from ..apps.script import pattern
from ..wire import h1
from ..wire.h2raw import FrameBuilder, client_preface

ID = "C08"
LEVEL = "fault_enumeration"
BUDGET = {"quick": 45, "thorough": 600}
TECHNIQUE = ("conservation monitor at the boundary (bytes of returned send() calls minus bytes the client accepted) at the "
             "stall quiescence, against a fixed bound; open-send monitor at the quiescence that follows each release event; "
             "tagged sibling streams")
LEVEL_TEXT = ("Enumerates response size x chunk size x stall kind (HTTP/1 transport pause, HTTP/2 stream window 0, connection "
              "window exhausted, transport pause under HTTP/2) x stall point (first chunk, mid-body, final drain) x release "
              "event (resume, credit, SETTINGS growth, RST_STREAM, client EOF, reset) x siblings, on both workers.")
LEVEL_NOTE = ("Trusted: in-memory transport's pause/resume model (asyncio pause_writing/resume_writing; trio send_all blocking); "
              "'held' is a lower bound (wire overhead counted as delivered), so a reported excess is real.")
RULE = ("full cross product of the enumerated dimensions (sampled in quick); non-trivial = the client really withheld "
        "acceptance while the application still had data to send; distinct = distinct case hash")
ASSUMPTIONS = ["HTTP/1 half-close by the client is not a connection close (release demanded on reset / resume only)",
               "other connections are not modelled in the connection tier (sibling streams are)"]
MIN_DECISIVE = {"bounded": 20, "released": 20, "siblings": 5, "end-needs-no-credit": 8, "wsgi-bounded": 4, "real-bounded": 6, "real-released": 6}
BOUND_BASE = 256 * 1024


def gen(rng, tier):
    sizes = [512 * 1024, 3 * 1024 * 1024] if tier == "quick" else [512 * 1024, 4 * 1024 * 1024, 16 * 1024 * 1024]
    chunks = [1024, 16 * 1024, 64 * 1024, 1024 * 1024]
    n = 0
    cases = []
    for size in sizes:
        for chunk in chunks:
            if size // chunk > (600 if tier == "quick" else 5000):
                continue
            for point in ("first", "mid", "final"):
                # ---- HTTP/1 transport pause
                # (eof: the client has finished sending - half-closed - and takes nothing: it is not waited for beyond the time an idle
                #  connection is kept)
                # (eof_pipelined: the same, with a second request already pipelined behind the one whose response is being written)
                for release in ("resume", "reset", "protocol_error", "eof", "protocol_error_partial", "eof_pipelined"):
                    cases.append(("h1.pause", size, chunk, point, release, 0))
                # ---- HTTP/2
                for kind in ("h2.stream0", "h2.conn0", "h2.pause"):
                    rels = {"h2.stream0": ["credit", "settings_grow", "rst", "eof", "reset"],
                            "h2.conn0": ["credit", "eof", "reset", "rst"],
                            # (eof: the client finishes sending - half-close - while it still takes nothing: the connection is over)
                            # (ping_rst: a PING, which the server has to answer - into a transport that takes nothing - and only then the RST_STREAM)
                            "h2.pause": ["resume", "reset", "goaway", "eof", "ping_rst"]}[kind]
                    for release in rels:
                        if release == "goaway" and point != "mid":
                            continue  # paused from the very first byte the server never gets past its own SETTINGS: nothing to observe
                        for sib in (0, 2):
                            cases.append((kind, size, chunk, point, release, sib))
    # ---- END_STREAM needs no credit: a send that has nothing left to transmit must not wait for a window ------------
    for rep in range(2 if tier == "quick" else 12):
        for variant in ("exact_stream_window", "exact_conn_window", "empty_sibling_conn0", "empty_sibling_stream0_self"):
            n += 1
            yield _build_endzero(rng, 900000 + n, variant)
    # ---- WebSocket over HTTP/2: control frames arriving while the stream's send buffer is full must not stop the reader, or the very
    # WINDOW_UPDATE that would drain the buffer is never read
    for rep in range(2 if tier == "quick" else 12):
        for what in ("ping", "pings", "text", "close", "oversize"):
            n += 1
            yield _build_wsping(rng, 960000 + n, what)
    # ---- WSGI applications stream through the same back-pressure: the iterable is consumed only as fast as the client accepts data ----
    for rep in range(1 if tier == "quick" else 6):
        for proto in ("h1", "h2"):
            for be in ("asyncio", "trio"):
                n += 1
                yield _build_wsgi(rng, 950000 + n, proto, be)
    # ---- the same property against the real transports: real serve(), loopback TCP, the kernel's socket buffers ----
    for rep in range(1 if tier == "quick" else 4):
        for be in ("asyncio", "trio"):
            for carrier in ("h1", "h2", "ws"):
                for release in ("read", "close"):
                    n += 1
                    yield {"family": "real-sockets.%s.%s" % (carrier, release), "tierb": True, "backend": be, "carrier": carrier, "release": release,
                           "total": 96 * 1024 * 1024, "chunk": rng.choice([64 * 1024, 256 * 1024]), "rep": rep, "tag": 970000 + n}
    rng.shuffle(cases)
    if tier == "quick":
        cases = cases[:360]
    for (kind, size, chunk, point, release, sib) in cases:
        n += 1
        yield _build(rng, n, kind, size, chunk, point, release, sib)


def _build_wsping(rng, n, what):
    from ..wire import ws as _ws

    fb = FrameBuilder()
    rspec = {"kind": "h2", "credit": "none"}
    nmsg, size = rng.choice([(8, 60000), (40, 16000), (4, 200000)])
    app = [["recv"], ["send", {"type": "websocket.accept"}]] + [["send", {"type": "websocket.send", "bytes": b"x" * size}] for _ in range(nmsg)] + \
          [["recv_until_disconnect"]]
    hd = [(b":method", b"CONNECT"), (b":protocol", b"websocket"), (b":scheme", b"http"), (b":path", b"/t%d" % n), (b":authority", b"h"),
          (b"sec-websocket-version", b"13")]
    during = {"close": _ws.close_frame(1000), "ping": _ws.frame(_ws.OP_PING, b"are-you-there"), "pings": b"".join(_ws.frame(_ws.OP_PING, b"p%d" % k) for k in range(50)),
              "text": _ws.message_frames(_ws.OP_TEXT, b"hello"),
              # a message over websocket_max_message_size (set to 1000 below): the server itself has to say goodbye (1009) - into a full buffer
              "oversize": _ws.message_frames(_ws.OP_BIN, b"o" * 3000)}[what]
    total = nmsg * (size + 14) + 10000
    client = [["feed", client_preface(fb, rspec) + fb.headers(1, hd, end_stream=False)], ["settle"], ["feed", fb.data(1, during)], ["settle"],
              ["mark", "stall"], ["react", "window_update", 1, total], ["react", "window_update", 0, total], ["settle"]]
    if what in ("close", "oversize"):
        client += [["advance", 1.0], ["eof"], ["settle"]]
    return {"family": "wsh2.%s-under-backpressure" % what, "backends": ["asyncio", "trio"],
            "config": dict({"keep_alive_timeout": 5000}, **({"websocket_max_message_size": 1000} if what == "oversize" else {})), "conn": {},
            "apps": {"default": app, "websocket": app}, "client": client, "reactor": rspec,
            "truth": {"kind": "wsh2", "what": what, "size": nmsg * size, "chunk": size, "tag": n, "sib": [], "nmsg": nmsg, "release": "credit"},
            "sched": {"seed": rng.randrange(1 << 30)}, "horizon": 100.0}


def _build_wsgi(rng, n, proto, be):
    nchunks, chunk = rng.choice([(128, 16384), (64, 65536), (600, 4096)])
    spec = {"shape": "stream", "status": "200 OK", "headers": [("X-W", "v%d" % n)], "nchunks": nchunks, "chunk": chunk, "max_body": 65536, "via": "wrapper"}
    truth = {"kind": "wsgi." + proto, "size": nchunks * chunk, "chunk": chunk, "tag": n, "sib": [], "release": "resume" if proto == "h1" else "credit"}
    if proto == "h1":
        client = [["pause"], ["feed", b"GET /t%d HTTP/1.1\r\nHost: h\r\n\r\n" % n], ["settle"], ["mark", "stall"], ["resume"], ["settle"]]
        return {"family": "wsgi.h1.pause", "backends": [be], "config": {"keep_alive_timeout": 5000}, "conn": {}, "wsgi": spec, "apps": {},
                "client": client, "truth": truth, "sched": {"seed": rng.randrange(1 << 30)}, "horizon": 100.0}
    fb = FrameBuilder()
    rspec = {"kind": "h2", "credit": "none"}
    blob = client_preface(fb, rspec) + fb.headers(1, [(b":method", b"GET"), (b":scheme", b"http"), (b":path", b"/t%d" % n), (b":authority", b"h")], end_stream=True)
    total = nchunks * chunk + 100
    client = [["feed", blob], ["settle"], ["mark", "stall"], ["react", "window_update", 1, total], ["react", "window_update", 0, total], ["settle"]]
    truth["sid"] = 1
    return {"family": "wsgi.h2.no-credit", "backends": [be], "config": {"keep_alive_timeout": 5000}, "conn": {}, "wsgi": spec, "apps": {},
            "client": client, "reactor": rspec, "truth": truth, "sched": {"seed": rng.randrange(1 << 30)}, "horizon": 100.0}


def _build_endzero(rng, n, variant):
    tag = n
    fb = FrameBuilder()
    rspec = {"kind": "h2", "credit": "none"}
    by_tag = {}
    if variant == "exact_stream_window":
        iw = rng.choice([1, 1000, 16384, 40000])
        rspec["initial_window"] = iw
        size = iw
    elif variant == "exact_conn_window":
        rspec["initial_window"] = 1 << 20
        size = 65535
    else:
        rspec["initial_window"] = (1 << 24) if variant == "empty_sibling_conn0" else 0
        size = 300000 if variant == "empty_sibling_conn0" else 5000
    chunk = rng.choice([size, max(1, size // 3), 1000])
    by_tag[str(tag)] = [["recv_until_end"], ["send", {"type": "http.response.start", "status": 200, "headers": [(b"x-tag", b"%d" % tag)]}],
                        ["send_stream", ("c8z", tag), size, chunk, True]]
    blob = bytearray(client_preface(fb, rspec))
    blob += fb.headers(1, [(b":method", b"GET"), (b":scheme", b"http"), (b":path", b"/t%d" % tag), (b":authority", b"h")], end_stream=True)
    sibs = []
    if variant.startswith("empty_sibling"):
        stag = tag + 500000
        sibs.append((stag, 3))
        by_tag[str(stag)] = [["recv_until_end"], ["wait", "sib"], ["respond", rng.choice([200, 204]), [], b""]]
        blob += fb.headers(3, [(b":method", b"GET"), (b":scheme", b"http"), (b":path", b"/t%d" % stag), (b":authority", b"h")], end_stream=True)
    client = [["feed", bytes(blob)], ["settle"], ["mark", "stall"]]
    if sibs:
        client += [["trigger", "sib"], ["settle"]]
    return {"family": "h2.endzero." + variant, "backends": ["asyncio", "trio"], "config": {"keep_alive_timeout": 5000}, "conn": {},
            "apps": {"default": [["recv_until_end"], ["respond", 200, [], b"d"]], "by_tag": by_tag},
            "client": client, "reactor": rspec,
            "truth": {"kind": "h2.endzero", "variant": variant, "size": size, "chunk": chunk, "tag": tag, "sib": sibs, "sid": 1},
            "sched": {"seed": rng.randrange(1 << 30)}, "horizon": 100.0}


def _build(rng, n, kind, size, chunk, point, release, sib):
    tag = n
    if point == "final":
        # a response small enough to be accepted whole: only the final end-of-body drain can wait
        size_eff = min(size, 20000)
        chunk_eff = min(chunk, 8000)
    else:
        size_eff, chunk_eff = size, chunk
    script = [["recv_until_end"],
              ["send", {"type": "http.response.start", "status": 200, "headers": [(b"x-tag", b"%d" % tag)]}]]
    if point == "mid":
        script += [["send_stream", ("c8", tag), 40000, 8000, False], ["wait", "go"],
                   ["send_stream", ("c8b", tag), size_eff, chunk_eff, True]]
    else:
        script += [["send_stream", ("c8b", tag), size_eff, chunk_eff, True]]
    by_tag = {str(tag): script}
    truth = {"kind": kind, "size": size_eff, "chunk": chunk_eff, "point": point, "release": release, "tag": tag, "sib": []}
    if kind == "h1.pause":
        req = b"GET /t%d HTTP/1.1\r\nHost: h\r\n\r\n" % tag
        if release in ("protocol_error", "protocol_error_partial"):
            # the server itself decides to close while the send is parked: the request body (still being uploaded) turns out malformed
            # (_partial: ... and the client takes a little of what is pending while the server waits for it, then nothing more)
            req = b"POST /t%d HTTP/1.1\r\nHost: h\r\nTransfer-Encoding: chunked\r\n\r\n5\r\nhello\r\n" % tag
            script[0] = ["recv"]
        if release == "eof_pipelined":
            req += b"GET /second HTTP/1.1\r\nHost: h\r\n\r\n"
        client = []
        if point == "mid":
            client += [["feed", req], ["settle"], ["pause"], ["trigger", "go"], ["settle"]]
        else:
            client += [["pause"], ["feed", req], ["settle"]]
        client += [["mark", "stall"]]
        client += {"resume": [["resume"]], "reset": [["reset"]], "protocol_error": [["feed", b"zz\r\nnot-a-chunk\r\n"]], "eof": [["eof"]], "eof_pipelined": [["eof"]],
                   "protocol_error_partial": [["feed", b"zz\r\nnot-a-chunk\r\n"], ["settle"], ["advance", 2.5], ["take", 1000]]}[release]
        client += [["settle"]]
        return {"family": "%s.%s.%s" % (kind, point, release), "backends": ["asyncio", "trio"] if release != "protocol_error_partial" else ["asyncio"],
                # (a close the server itself decides on is still owed what it had written: a client that takes none of it is waited for as
                #  long as an idle connection is kept, here 5 s of virtual time, not for ever)
                "config": {"keep_alive_timeout": 5000 if release not in ("protocol_error", "eof", "protocol_error_partial", "eof_pipelined") else 5}, "conn": {}, "apps": {"default": script, "by_tag": by_tag},
                "client": client, "truth": truth, "sched": {"seed": rng.randrange(1 << 30)}, "horizon": 100.0}
    fb = FrameBuilder()
    rspec = {"kind": "h2", "credit": "none"}
    sid = 1
    if kind == "h2.stream0":
        rspec["initial_window"] = 0 if point != "mid" else 65535
    elif kind == "h2.conn0":
        rspec["initial_window"] = 1 << 24
    else:
        rspec["credit"] = "auto"
    blob = bytearray(client_preface(fb, rspec))
    unread = 0
    if release in ("rst", "eof", "reset") and rng.random() < 0.35:
        # the request is an upload the application never reads: its receive queue is (all but) full of body messages when the release comes,
        # so whatever the server still wants to tell the application (the disconnect) has no room - and must not hold up the release
        unread = rng.choice([9, 10, 10])
        script.pop(0)
        blob += fb.headers(sid, [(b":method", b"POST"), (b":scheme", b"http"), (b":path", b"/t%d" % tag), (b":authority", b"h")], end_stream=False)
        for j in range(unread):
            blob += fb.data(sid, b"u%02d" % j, end_stream=False)
        truth["unread"] = unread
    else:
        blob += fb.headers(sid, [(b":method", b"GET"), (b":scheme", b"http"), (b":path", b"/t%d" % tag), (b":authority", b"h")], end_stream=True)
    sibs = []
    for k in range(sib):
        ssid = 3 + 2 * k
        stag = 100000 + n * 10 + k
        sibs.append((stag, ssid))
        by_tag[str(stag)] = [["recv_until_end"], ["wait", "sib"], ["respond", 200, [], b"sib-%d" % stag]]
        blob += fb.headers(ssid, [(b":method", b"GET"), (b":scheme", b"http"), (b":path", b"/t%d" % stag), (b":authority", b"h")], end_stream=True)
    truth["sib"] = sibs
    truth["sid"] = sid
    client = []
    if kind == "h2.pause":
        if point == "mid":
            client += [["feed", bytes(blob)], ["settle"], ["pause"], ["trigger", "go"], ["settle"]]
        else:
            client += [["pause"], ["feed", bytes(blob)], ["settle"]]
    else:
        if kind == "h2.stream0":
            # only the stream window shall bind: plenty of connection-level credit up front
            blob += fb.window_update(0, 1 << 28)
        client += [["feed", bytes(blob)], ["settle"]]
        if point == "mid":
            # the first 40000 bytes fit the initial windows; then the client stops granting credit
            client += [["trigger", "go"], ["settle"]]
    client += [["mark", "stall"]]
    # siblings must be able to complete while the main stream is stalled (they get their own credit)
    if sibs and kind != "h2.pause":
        for stag, ssid in sibs:
            client.append(["react", "window_update", ssid, 1000])
        if kind == "h2.conn0":
            pass  # the connection window is exhausted: siblings cannot send either; not demanded
        client += [["trigger", "sib"], ["settle"], ["mark", "sib"]]
    elif sibs:
        client += [["trigger", "sib"], ["settle"]]
    total = size_eff + 40000 + 100
    if release == "credit" and rng.random() < 0.4:
        # the credit and, in the same segment right behind it, a PRIORITY frame for the stream (a client re-weighting the download it has
        # just resumed): credit is credit
        truth["prio_after_credit"] = True
        client += [["react", "credit_only", sid, total], ["react", "credit_only", 0, total],
                   ["feed", fb.window_update(sid, total) + fb.window_update(0, total) + fb.priority(sid, dep=0, weight=rng.randrange(256))]]
    elif release == "credit":
        client += [["react", "window_update", sid, total], ["react", "window_update", 0, total]]
    elif release == "settings_grow":
        # (h2.stream0 has all the connection-level credit it needs: the growth of the initial window is then the only thing that arrives)
        client += [["react", "settings", {"4": total}]] + ([["react", "window_update", 0, total]] if kind != "h2.stream0" else [])
    elif release == "rst":
        client += [["react", "rst", sid]]
    elif release == "eof":
        client += [["eof"]]
    elif release == "reset":
        client += [["reset"]]
    elif release == "resume":
        client += [["resume"]]
    elif release == "goaway":
        client += [["feed", fb.goaway(last=sid, code=0)]]
    elif release == "ping_rst":
        client += [["feed", fb.ping(b"12345678")], ["settle"], ["react", "rst", sid]]
    client += [["settle"]]
    if sibs and kind == "h2.pause":
        pass
    return {"family": "%s.%s.%s.sib%d%s" % (kind, point, release, sib, ".unread-upload" if unread else ""), "backends": ["asyncio", "trio"],
            "config": {"keep_alive_timeout": 5000 if release != "goaway" else 5}, "conn": {},
            "apps": {"default": [["recv_until_end"], ["respond", 200, [], b"d"]], "by_tag": by_tag},
            "client": client, "reactor": rspec, "truth": truth,
            "sched": {"seed": rng.randrange(1 << 30)}, "horizon": 100.0}


REAL_BOUND = 48 * 1024 * 1024


def _real_sockets(case, tally):
    """Real serve() on loopback.  The application wants to send `total` (96 MiB) to a client that does not read.  Monitors: the number of
    application sends that have *returned* (the hook is the ScriptedApps trace) and what the client has received.  Decided without timing:
    "bounded" is violated if the application's sends for more than REAL_BOUND (half of the total, an order of magnitude above what the
    kernel's loopback buffers hold) have returned while the client has read nothing at all; "released" is violated if, after the client has
    read everything / has closed, the application is still inside a send when the trace has shown no progress for 5 s.  A slow machine can
    only make the run inconclusive."""
    import socket as _socket

    from ..wire import ws as _ws
    from ..wire.h2raw import FrameBuilder, FrameReader, client_preface
    from ..world.realnet import ServeHarness

    findings = []
    be, carrier, release, total, chunk, tag = case["backend"], case["carrier"], case["release"], case["total"], case["chunk"], case["tag"]
    if carrier == "ws":
        msg = chunk
        big = [["recv"], ["send", {"type": "websocket.accept"}]] + [["send", {"type": "websocket.send", "bytes": b"w" * msg}]] * (total // msg) + \
              [["send", {"type": "websocket.close", "code": 1000}]]
        apps = {"default": [["recv_until_end"], ["respond", 200, [], b"d"]], "websocket": big}
    else:
        body = {"type": "http.response.body", "body": b"b" * chunk, "more_body": True}
        apps = {"default": [["recv_until_end"], ["send", {"type": "http.response.start", "status": 200, "headers": []}]] +
                           [["send", body]] * (total // chunk) + [["send", {"type": "http.response.body", "body": b"", "more_body": False}]]}
    h = ServeHarness(be, {"keep_alive_timeout": 60.0, "graceful_timeout": 0.5, "websocket_max_message_size": 1 << 30}, apps)
    sock = None
    try:
        h.start()
        h.wait_ready()
        tr = h.trace
        sock = h.connect()
        if sock is None:
            tally.inconclusive["no-connection-established"] += 1
            return findings, [None]
        sock.setsockopt(_socket.SOL_SOCKET, _socket.SO_RCVBUF, 65536)
        if carrier == "h1":
            sock.sendall(b"GET /t%d HTTP/1.1\r\nHost: h\r\n\r\n" % tag)
        elif carrier == "h2":
            fb = FrameBuilder()
            # flow-control windows far above the total: only the transport can hold the server back
            sock.sendall(client_preface(fb, {"initial_window": (1 << 31) - 1}) + fb.window_update(0, (1 << 31) - 1 - 65535) +
                         fb.headers(1, [(b":method", b"GET"), (b":scheme", b"http"), (b":path", b"/t%d" % tag), (b":authority", b"h")], end_stream=True))
        else:
            sock.sendall(_ws.handshake(path=b"/t%d" % tag))

        def returned():
            return sum(1 for e in tr.events if e[2] == "app" and e[3] == "send.")

        # plateau: no send has returned for 0.6 s (the application is held) - or everything has been sent
        last, since = -1, time.monotonic()
        end = time.monotonic() + 60.0
        while time.monotonic() < end:
            r = returned()
            if r != last:
                last, since = r, time.monotonic()
            elif time.monotonic() - since > 0.6 and r > 0:
                break
            time.sleep(0.02)
        held_bytes = max(0, (last - 1)) * chunk  # the first returned send is the response start / the accept
        exited = any(e[2] == "app" and e[3] == "exit" for e in tr.events)
        tally.events["real.sends-returned-before-any-read"] += last
        tally.clause("real-bounded")
        if exited or held_bytes > REAL_BOUND:
            findings.append({"clause": "bounded", "sig": "C08.real/unbounded/%s/%s" % (carrier, be), "backend": be,
                             "detail": "the client has not read a byte, yet application sends for %d MiB of %d MiB have returned (application exited: %r)" % (
                                 held_bytes >> 20, total >> 20, exited)})
            return findings, [None]
        # ---- release ----
        got = 0
        if release == "read":
            sock.settimeout(20.0)
            try:
                while True:
                    x = sock.recv(1 << 20)
                    if not x:
                        break
                    got += len(x)
                    if carrier in ("h2", "ws") and got >= total and any(e[2] == "app" and e[3] == "exit" for e in tr.events):
                        break  # these connections stay open after the response
            except _socket.timeout:
                pass
            except OSError:
                pass
        else:
            sock.setsockopt(_socket.SOL_SOCKET, _socket.SO_LINGER, __import__("struct").pack("ii", 1, 0))
            sock.close()
            sock = None
        # the application must get out of its send: wait while the trace still moves
        n_ev, since = len(tr.events), time.monotonic()
        end = time.monotonic() + 60.0
        done = False
        while time.monotonic() < end:
            if any(e[2] == "app" and e[3] == "exit" for e in tr.events):
                done = True
                break
            if len(tr.events) != n_ev:
                n_ev, since = len(tr.events), time.monotonic()
            elif time.monotonic() - since > 5.0:
                break
            time.sleep(0.02)
        tally.clause("real-released")
        if not done:
            if time.monotonic() - since > 5.0:
                findings.append({"clause": "released", "sig": "C08.real/not-released/%s/%s/%s" % (carrier, release, be), "backend": be,
                                 "detail": "after the client had %s (received %d of %d bytes) the application was still held in a send and nothing moved for 5 s "
                                           "(sends returned: %d)" % ("read everything it was sent" if release == "read" else "reset the connection", got, total, returned())})
            else:
                tally.inconclusive["real-sockets-too-slow"] += 1
        elif release == "read" and got < total:
            findings.append({"clause": "released", "sig": "C08.real/short-delivery/%s/%s" % (carrier, be), "backend": be,
                             "detail": "the application completed all its sends but the client received %d of at least %d bytes" % (got, total)})
    finally:
        if sock is not None:
            try:
                sock.close()
            except OSError:
                pass
        h.trigger_shutdown()
        h.wait_done(5.0)
        h.close()
    return findings, [None]


def run_one(case, tally):
    if case.get("tierb"):
        return _real_sockets(case, tally)
    import sys

    from ..runner import default_run_one

    return default_run_one(sys.modules[__name__], case, tally)


def nontrivial(case, obs):
    if obs is None:
        return True

    return "stall" in obs.marks


def _app_sent_until(obs, inst, seq):
    """Body bytes of send() calls of `inst` that had returned before trace position `seq`."""
    total = 0
    pending = None
    for e in obs.trace.events:
        if e[0] >= seq:
            break
        if e[2] != "app" or e[4].get("inst") != inst:
            continue
        if e[3] == "send?":
            m = e[4]["msg"]
            b = m.get("body") if isinstance(m, dict) else None
            pending = (b[1] if isinstance(b, tuple) else len(b)) if b is not None else 0
        elif e[3] == "send." and pending is not None:
            total += pending
            pending = None
    return total


def check(case, obs, tally):
    out = []
    t = case["truth"]
    if obs.handler == "exception":
        tally.inconclusive["handler-crashed(C04)"] += 1
        return out
    if "stall" not in obs.marks:
        tally.inconclusive["stall-mark-missing"] += 1
        return out
    if t["kind"] == "h2.endzero":
        tally.clause("end-needs-no-credit")
        rx = obs.reactor
        want = {}
        if t["variant"].startswith("exact"):
            want[t["sid"]] = t["size"]
        for stag, ssid in t["sib"]:
            want[ssid] = 0
        paths = {e[4]["inst"]: e[4]["scope"].get("path") for e in obs.app_events(kind="start")}
        for sid_, size_ in want.items():
            s_ = rx.streams.get(sid_)
            if s_ is None or len(s_.data) != size_ or s_.ended != 1:
                out.append({"clause": "end-needs-no-credit", "sig": "C08.end-stream-withheld/%s" % t["variant"],
                            "detail": "stream %d has nothing left that needs flow-control credit (%d of %d body bytes delivered) but END_STREAM was "
                                      "not sent while the window is 0: %r" % (sid_, len(s_.data) if s_ else -1, size_, None if s_ is None else (s_.status, s_.ended))})
        stuck = [e for e in obs.open_sends() if (t["variant"].startswith("exact") or paths.get(e[4]["inst"]) != "/t%d" % t["tag"])]
        if stuck and not out:
            out.append({"clause": "end-needs-no-credit", "sig": "C08.not-released/h2/end-without-credit",
                        "detail": "send(%r) of %s still waiting although nothing of it needs credit" % (stuck[0][4]["msg"].get("type"), paths.get(stuck[0][4]["inst"]))})
        return out
    if t["kind"] == "wsh2":
        from ..wire import ws as _ws

        tally.clause("released")
        tally.clause("ws-control-under-backpressure")
        s_ = obs.reactor.streams.get(1)
        p_ = _ws.FrameParser(False, False)
        if s_ is not None and s_.status == 200:
            p_.feed(bytes(s_.data))
        got = sum(len(v) for k, v in p_.messages if k == "bytes")
        stuck = obs.open_sends()
        if t["what"] == "oversize":
            # the server says goodbye (1009): what still arrives of the data is not demanded, but nothing may be left hanging
            if stuck or obs.handler != "ok":
                out.append({"clause": "released", "sig": "C08.not-released/wsh2/oversize-while-buffer-full",
                            "detail": "WebSocket over HTTP/2, send buffer full, the client sends a message over the size limit (the server must close with "
                                      "1009), grants credit and finally EOF: %d application send(s) still waiting, connection handler %s" % (len(stuck), obs.handler)})
            return out
        if t["what"] == "close":
            # the client has said goodbye: what still arrives of the data is not demanded, but nothing may be left hanging
            if stuck or obs.handler != "ok":
                out.append({"clause": "released", "sig": "C08.not-released/wsh2/close-while-buffer-full",
                            "detail": "WebSocket over HTTP/2, send buffer full, the client sends Close, grants credit and finally EOF: %d application "
                                      "send(s) still waiting, connection handler %s" % (len(stuck), obs.handler)})
            return out
        if got != t["size"] or stuck:
            out.append({"clause": "released", "sig": "C08.not-released/wsh2/%s-while-buffer-full" % t["what"],
                        "detail": "WebSocket over HTTP/2, send buffer full (no credit), the client sends %s and then grants all the credit: %d of %d "
                                  "message bytes arrived, %d application send(s) still waiting" % (t["what"], got, t["size"], len(stuck))})
        return out
    if t["kind"].startswith("wsgi."):
        mk = obs.marks["stall"]
        taken = max([e[4]["total"] for e in obs.trace.events if e[2] == "app" and e[3] == "wsgi-yield" and e[0] < mk["seq"]] + [0])
        delivered = mk["outlen"]
        bound = BOUND_BASE + 2 * t["chunk"]
        tally.clause("bounded")
        tally.clause("wsgi-bounded")
        if taken == 0:
            tally.inconclusive["wsgi-app-not-streaming"] += 1
            return out
        if taken - delivered > bound:
            out.append({"clause": "bounded", "sig": "C08.unbounded/wsgi-%s" % t["kind"].split(".")[1],
                        "detail": "while the client accepted nothing more the WSGI iterable had been advanced to %d bytes and the client holds %d: "
                                  "held >= %d > bound %d (response %d, chunk %d)" % (taken, delivered, taken - delivered, bound, t["size"], t["chunk"])})
        tally.clause("released")
        if t["kind"] == "wsgi.h1":
            try:
                resps, _ = h1.parse_responses(obs.outbytes, [("GET", "1.1")], True)
                ok = bool(resps) and resps[0].complete and len(resps[0].body) == t["size"]
            except h1.Malformed:
                ok = False
        else:
            s_ = obs.reactor.streams.get(1)
            ok = s_ is not None and len(s_.data) == t["size"] and s_.ended == 1
        if not ok:
            out.append({"clause": "released", "sig": "C08.incomplete-after-release/wsgi-%s" % t["kind"].split(".")[1],
                        "detail": "pressure abated but the streamed WSGI response is not complete at the client"})
        return out
    mk = obs.marks["stall"]
    inst = None
    for e in obs.app_events(kind="start"):
        if e[4]["scope"].get("path") == "/t%d" % t["tag"]:
            inst = e[4]["inst"]
    if inst is None:
        tally.inconclusive["main-instance-not-started"] += 1
        return out
    sent = _app_sent_until(obs, inst, mk["seq"])
    delivered = mk["outlen"]  # all bytes the client had accepted at the stall point (>= this stream's body bytes)
    held_lb = sent - delivered
    bound = BOUND_BASE + 2 * t["chunk"]
    proto = t["kind"].split(".")[0]
    expected_total = t["size"] + (40000 if t["point"] == "mid" else 0)
    tally.clause("bounded")
    if held_lb > bound:
        mech = {"h2.stream0": "zero-window", "h2.conn0": "connection-window", "h2.pause": "transport-paused", "h1.pause": "transport-paused"}[t["kind"]]
        out.append({"clause": "bounded", "sig": "C08.unbounded/%s/%s" % (proto, mech),
                    "detail": "while the client accepted nothing the server took %d bytes from the application and the client holds %d: "
                              "held >= %d > bound %d (response %d, chunk %d, stall point %s)" % (
                                  sent, delivered, held_lb, bound, expected_total, t["chunk"], t["point"])})
    # ---- siblings progress while the main stream is stalled -------------------------------
    if t["sib"] and t["kind"] == "h2.stream0":
        tally.clause("siblings")
        rx = obs.reactor
        for stag, ssid in t["sib"]:
            s = rx.streams.get(ssid)
            if s is None or bytes(s.data) != b"sib-%d" % stag or s.ended != 1:
                out.append({"clause": "siblings", "sig": "C08.sibling-blocked/h2",
                            "detail": "sibling stream %d did not complete while stream %d was stalled: %r" % (
                                ssid, t["sid"], None if s is None else (s.status, bytes(s.data)[:12], s.ended))})
                break
    # ---- release ---------------------------------------------------------------------------
    tally.clause("released")
    open_main = [e for e in obs.open_sends() if e[4]["inst"] == inst]
    if open_main:
        m = open_main[0][4]["msg"]
        final = m.get("type") == "http.response.body" and not m.get("more_body", False)
        out.append({"clause": "released", "sig": "C08.not-released/%s/%s" % (proto, _rel_name(t)),
                    "detail": "after %s the application's send(%s%s) is still waiting at permanent quiescence (kind %s, point %s); handler=%s" % (
                        t["release"], m.get("type"), " final" if final else "", t["kind"], t["point"], obs.handler)})
    elif t["release"] in ("resume", "credit", "settings_grow"):
        # pressure abated: the whole response must now be at the client
        if proto == "h1":
            try:
                resps, _ = h1.parse_responses(obs.outbytes, [("GET", "1.1")], True)
                ok = bool(resps) and resps[0].complete and len(resps[0].body) == expected_total
            except h1.Malformed:
                ok = False
        else:
            s = obs.reactor.streams.get(t["sid"])
            ok = s is not None and len(s.data) == expected_total and s.ended == 1
        if not ok:
            out.append({"clause": "released", "sig": "C08.incomplete-after-release/%s/%s" % (proto, t["release"]),
                        "detail": "pressure abated (%s) but the response is not complete at the client" % t["release"]})
    return out


def _rel_name(t):
    return {"eof": "client-eof", "eof_pipelined": "client-eof-behind-pipelined-request", "rst": "rst-stream", "reset": "client-reset", "resume": "resume", "credit": "credit",
            "settings_grow": "settings-growth", "protocol_error": "server-closes-on-protocol-error", "protocol_error_partial": "server-closes-client-takes-a-little", "goaway": "client-goaway", "ping_rst": "paused-ping-then-rst-stream"}[t["release"]]
