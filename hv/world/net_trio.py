"""In-memory network for the trio worker: a Stream with trio.SocketStream's documented semantics
(checkpoints, ClosedResourceError / BrokenResourceError / BusyResourceError) and network-side
controls for pausing, failing and resetting."""
from __future__ import annotations

import trio

from .net_asyncio import make_sock


class _Conflict:
    def __init__(self, msg):
        self._held = False
        self._msg = msg

    def __enter__(self):
        if self._held:
            raise trio.BusyResourceError(self._msg)
        self._held = True

    def __exit__(self, *a):
        self._held = False


class SimStream(trio.abc.HalfCloseableStream):
    def __init__(self, trace, conn, jitter=None):
        self.socket = make_sock(conn)
        self.trace = trace
        self._in = bytearray()
        self._in_eof = False
        self._in_wake = trio.Event()
        self._closed = False
        self._broken = False
        self._send_c = _Conflict("another task is sending")
        self._recv_c = _Conflict("another task is receiving")
        self.out = []
        self.paused = False
        self._out_wake = trio.Event()
        self.fail_write_at = None
        self.nwrites = 0
        self.eof_written = False
        self.eof_at = None
        self.closed_at = None
        self.jitter = jitter
        self.bytes_written = 0
        self.inflight = 0  # bytes handed to send_all and not yet accepted by the client
        # opt-in (conn["write_buffer"]): bytes the "kernel" takes off the sender's hands while the client is not reading
        self.capacity = conn.get("write_buffer")
        self.kbuf = bytearray()
        self._held = bytearray()  # what a send_all() in progress has not yet got rid of (the client is not reading, or reads slowly)

    def _now(self):
        return trio.current_time()

    # ---- Stream API ---------------------------------------------------------------------
    async def send_all(self, data):
        with self._send_c:
            if self._closed:
                raise trio.ClosedResourceError("stream closed")
            await trio.lowlevel.checkpoint()
            if self._closed:
                raise trio.ClosedResourceError("stream closed")
            if self._broken:
                raise trio.BrokenResourceError("peer gone")
            self.nwrites += 1
            if self.fail_write_at is not None and self.nwrites >= self.fail_write_at:
                self._broken = True
                if self.closed_at is None:
                    self.closed_at = self._now()
                self.trace.ev("net", "write_error", n=len(data))
                self._wake_in()
                raise trio.BrokenResourceError("injected write failure")
            data = bytes(data)
            taken = 0
            self.bytes_written += len(data)
            self.inflight = len(data)
            try:
                if self.jitter is not None:
                    for _ in range(self.jitter()):
                        await trio.lowlevel.checkpoint()
                if self.paused and self.capacity and len(self.kbuf) + len(data) <= self.capacity:
                    self.kbuf += data
                    self.trace.ev("net", "write_buffered", n=len(data))
                    return
                if self.paused:
                    self.trace.ev("net", "write_held", n=len(data))
                    self._held = bytearray(data)
                    while self.paused and self._held and not self._closed and not self._broken:
                        self._out_wake = trio.Event()
                        await self._out_wake.wait()
                    taken = len(data) - len(self._held)
                    data = bytes(self._held)  # (a slow reader may have taken some, or all, of it: net_take)
                if self._closed:
                    raise trio.ClosedResourceError("stream closed while sending")
                if self._broken:
                    raise trio.BrokenResourceError("peer gone while sending")
                if data or not taken:
                    self.out.append((self._now(), data))
                    self.trace.ev("net", "write", n=len(data))
            finally:
                self.inflight = 0
                self._held = bytearray()

    async def wait_send_all_might_not_block(self):
        with self._send_c:
            await trio.lowlevel.checkpoint()
            while self.paused and not self._closed and not self._broken:
                self._out_wake = trio.Event()
                await self._out_wake.wait()
            if self._closed:
                raise trio.ClosedResourceError("stream closed")

    async def send_eof(self):
        with self._send_c:
            await trio.lowlevel.checkpoint()
            if self.eof_written:
                return
            if self._closed:
                raise trio.ClosedResourceError("stream closed")
            self.eof_written = True
            self.eof_at = self._now()
            self.trace.ev("net", "srv_eof")

    async def receive_some(self, max_bytes=None):
        with self._recv_c:
            if self._closed:
                raise trio.ClosedResourceError("stream closed")
            await trio.lowlevel.checkpoint()
            while True:
                if self._closed:
                    raise trio.ClosedResourceError("stream closed")
                if self._broken:
                    raise trio.BrokenResourceError("connection reset")
                if self._in:
                    n = len(self._in) if max_bytes is None else min(max_bytes, len(self._in))
                    data = bytes(self._in[:n])
                    del self._in[:n]
                    self.trace.ev("net", "read", n=len(data))
                    return data
                if self._in_eof:
                    self.trace.ev("net", "read", n=0)
                    return b""
                self._in_wake = trio.Event()
                await self._in_wake.wait()

    async def aclose(self):
        if not self._closed:
            self._closed = True
            self.closed_at = self._now() if self.closed_at is None else self.closed_at
            self.trace.ev("net", "srv_close")
            self._wake_in()
            self._out_wake.set()
        await trio.lowlevel.checkpoint()

    # ---- network-side controls ------------------------------------------------------------
    def _wake_in(self):
        self._in_wake.set()

    def net_feed(self, data):
        if self._closed or self._broken or self._in_eof:
            return False
        self._in += data
        self._wake_in()
        return True

    def net_eof(self):
        self.trace.ev("client", "eof")
        self._in_eof = True
        self._wake_in()

    def net_reset(self):
        self.trace.ev("client", "reset")
        if self._closed:
            return
        self._broken = True
        if self.closed_at is None:
            self.closed_at = self._now()
        self._wake_in()
        self._out_wake.set()

    def net_pause(self):
        if not self.paused:
            self.paused = True
            self.trace.ev("client", "pause")

    def net_take(self, n):
        """A client that reads slowly: while it is 'not reading' it takes n of the bytes held for it - first what the "kernel" buffered,
        then what the send_all() in progress still holds; that send_all() returns when its last byte has gone."""
        if not self.paused or self._closed or self._broken:
            return
        d = bytes(self.kbuf[:n])
        del self.kbuf[:len(d)]
        if len(d) < n and self._held:
            more = bytes(self._held[:n - len(d)])
            del self._held[:len(more)]
            d += more
            self.inflight = len(self._held)
        if d:
            self.trace.ev("client", "take", n=len(d))
            self.out.append((self._now(), d))
        if not self._held:
            self._out_wake.set()

    def net_resume(self):
        if self.paused:
            self.paused = False
            self.trace.ev("client", "resume")
            if self.kbuf and not self._closed and not self._broken:
                d, self.kbuf = bytes(self.kbuf), bytearray()
                self.out.append((self._now(), d))
                self.trace.ev("net", "write", n=len(d))
            self._out_wake.set()

    @property
    def is_closing(self):
        return self._closed


class SimTLSStream(trio.abc.Stream):
    """Stands in for trio.SSLStream: no send_eof, do_handshake(), selected_alpn_protocol(),
    transport_stream.socket.  (Real in-memory TLS is used by the C13 grounding cases.)"""

    def __init__(self, inner: SimStream, alpn):
        self.transport_stream = inner
        self._alpn = alpn

    async def do_handshake(self):
        await trio.lowlevel.checkpoint()

    def selected_alpn_protocol(self):
        return self._alpn

    async def send_all(self, data):
        await self.transport_stream.send_all(data)

    async def wait_send_all_might_not_block(self):
        await self.transport_stream.wait_send_all_might_not_block()

    async def receive_some(self, max_bytes=None):
        data = await self.transport_stream.receive_some(max_bytes)
        if data == b"" and not self.transport_stream._closed:
            # TLS: a clean EOF from the peer ends the session in both directions
            pass
        return data

    async def aclose(self):
        await self.transport_stream.aclose()
