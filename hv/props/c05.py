"""C05 — application failures are contained and never yield a falsely complete response."""
from __future__ import annotations

from .. import gen as G
from ..apps.script import pattern
from ..wire import h1, ws
from ..wire.h2raw import FrameBuilder, client_preface

ID = "C05"
LEVEL = "fault_enumeration"
BUDGET = {"quick": 40, "thorough": 400}
TECHNIQUE = ("crash-point enumeration of scripted applications; strict client-side parse of what reached the wire at "
             "post-crash quiescence (complete 500 / visibly truncated + closed / RST_STREAM), error-log monitor, tagged siblings")
LEVEL_TEXT = ("Every step index of 2-8 step scripted applications is crossed with raise / early return / self-cancel for "
              "HTTP/1.1 (content-length, chunked, keep-alive second request), HTTP/2 with siblings, and WebSocket handshake "
              "and session, on both workers; the oracle decides from the bytes the client holds at quiescence.")
LEVEL_NOTE = "Trusted: hv/wire parsers; quiescence of the closed world stands in for 'promptly'."
RULE = ("cases = script template x crash step (every index) x failure kind x protocol x worker; non-trivial = the "
        "application instance reached its crash step; distinct = distinct case hash")
ASSUMPTIONS = ["close-delimited bodies cannot be visibly truncated and are excluded",
               "a crash after all declared content-length bytes were sent counts as complete",
               "an early return without exception is not required to be logged"]
MIN_DECISIVE = {"pre-start-500": 10, "truncated": 10, "logged": 10, "siblings": 5, "server-keeps-working": 4}


def _http_template(rng, tag, framing):
    sizes = [rng.choice([1, 10, 500, 20000]) for _ in range(rng.choice([1, 2, 3]))]
    total = sum(sizes)
    headers = [(b"x-tag", b"%d" % tag)]
    if framing == "cl":
        headers.append((b"content-length", b"%d" % total))
    steps = [["recv_until_end"], ["send", {"type": "http.response.start", "status": 200, "headers": headers}]]
    off = 0
    for i, n in enumerate(sizes):
        steps.append(["send", {"type": "http.response.body", "body": pattern(("c5", tag), off, n),
                               "more_body": i < len(sizes) - 1}])
        off += n
    return steps, total, sizes


def _inject(steps, at, kind):
    fail = {"raise": ["raise", "Exception"], "raise_group": ["raise", "ExceptionGroup"], "return": ["return"], "cancel": ["cancel_self"]}[kind]
    return steps[:at] + [["note", "crash-point"], fail] + steps[at:]


def _progress(steps, at):
    """What the app managed to send before the crash point: (started, body_bytes_sent, completed)."""
    started, sent, completed = False, 0, False
    trailers = any(st[0] == "send" and st[1].get("type") == "http.response.start" and st[1].get("trailers") for st in steps)
    for st in steps[:at]:
        if st[0] == "send":
            m = st[1]
            if m["type"] == "http.response.start":
                started = True
            elif m["type"] == "http.response.body":
                sent += len(m.get("body", b""))
                if not m.get("more_body", False) and not trailers:
                    completed = True
            elif m["type"] == "http.response.trailers" and not m.get("more_trailers", False):
                completed = True
    return started, sent, completed


def gen(rng, tier):
    yield from _gen_bad_accept(rng, tier)
    yield from _gen_ws_h2(rng, tier)
    yield from _gen_many_failures(rng, tier)
    for be in ("asyncio", "trio"):
        for paths in ([b"/crash0", b"/ok1"], [b"/crash1", b"/ok2"], [b"/crash0", b"/crash1", b"/crash0", b"/ok3"]):
            yield {"family": "serve-smoke", "kind": "serve-smoke", "backend": be, "paths": paths}
    # WSGI applications failing part-way through their iterable, behind the real WSGIWrapper (executor threads)
    for k in range(60 if tier == "quick" else 1500):
        version = rng.choice(["1.1", "2"])
        shape = rng.choice(["generator", "iter_close", "lazy_iter_close"])
        chunks = [b"chunk-%d-" % j * rng.choice([1, 40, 400]) for j in range(rng.choice([1, 2, 4]))]
        raise_at = rng.randint(0, len(chunks) - 1)
        tag = 900000 + k
        spec = {"shape": shape, "status": "200 OK", "headers": [("X-W", "v%d" % tag)], "chunks": chunks, "raise_at": raise_at,
                "max_body": 65536, "via": "wrapper"}
        if version == "2":
            fb = FrameBuilder()
            data = client_preface(fb, {}) + fb.headers(1, [(b":method", b"GET"), (b":scheme", b"http"), (b":path", b"/t%d" % tag),
                                                           (b":authority", b"h")], end_stream=True)
            extra = {"reactor": {"kind": "h2", "credit": "auto"}}
        else:
            data = h1.build_request(b"GET", b"/t%d" % tag, [(b"Host", b"h")])
            extra = {}
        for be in ("asyncio", "trio"):
            yield dict({"family": "wsgi.%s.h%s" % (shape, version), "backends": [be], "config": {"keep_alive_timeout": 5000}, "conn": {},
                        "wsgi": spec, "apps": {}, "client": [["feed", data], ["settle"]],
                        "truth": {"proto": "wsgi", "kind": "raise", "version": version, "chunks": chunks, "raise_at": raise_at, "shape": shape,
                                  "tag": tag},
                        "sched": {"seed": rng.randrange(1 << 30)}, "horizon": 30.0}, **extra)
    # an application that completes "normally" with fewer bytes than the content-length it declared
    for k in range(20 if tier == "quick" else 400):
        tag = 800000 + k
        steps, total, sizes = _http_template(rng, tag, "cl")
        declared = total + rng.choice([1, 7, 5000])
        steps[1] = ["send", dict(steps[1][1], headers=[(b"x-tag", b"%d" % tag), (b"content-length", b"%d" % declared)])]
        script = steps + [["note", "crash-point"]]
        req = h1.build_request(b"POST", b"/t%d" % tag, [(b"Host", b"h")], body=b"abc", framing="cl")
        yield {"family": "h1.cl-short", "backends": ["asyncio", "trio"], "config": {"keep_alive_timeout": 5000}, "conn": {},
               "apps": {"default": [["recv_until_end"], ["respond", 200, [(b"content-length", b"2")], b"ok"]], "by_tag": {str(tag): script}},
               "client": [["feed", req], ["settle"]],
               "truth": {"proto": "h1", "framing": "cl", "at": len(steps), "kind": "short-body", "tag": tag, "total": declared,
                         "progress": (True, total, False), "first": False},
               "sched": {"seed": rng.randrange(1 << 30)}, "horizon": 100.0}
    # applications that fail before the request body has arrived: the client (which cannot know yet) keeps uploading on those streams, and
    # a later upload on another stream of the same connection must still get through ("the connection's other streams keep working")
    for k in range(6 if tier == "quick" else 200):
        fb = FrameBuilder()
        rspec = {"kind": "h2", "credit": "auto", "uploads_wait": True}
        nfail = rng.choice([2, 3, 4])
        per = rng.choice([25000, 33000, 60000])
        kind = rng.choice(["raise", "return", "raise_group"])
        base = 600000 + k * 10
        blob = bytearray(client_preface(fb, rspec))
        uploads, by_tag = {}, {}

        def add(tag, sid, size):
            nonlocal blob
            blob += fb.headers(sid, [(b":method", b"POST"), (b":scheme", b"http"), (b":path", b"/t%d" % tag), (b":authority", b"h")], end_stream=False)
            q, off = [], 0
            body = pattern(("c5u", tag), 0, size)
            while off < size:
                n_ = min(16000, size - off)
                q.append([fb.data(sid, body[off:off + n_], end_stream=(off + n_ >= size)), n_])
                off += n_
            uploads[sid] = q

        for i in range(nfail):
            by_tag[str(base + i)] = _inject([["recv_until_end"]], 0, kind)
            add(base + i, 1 + 2 * i, per)
        stag, ssid = base + 9, 1 + 2 * nfail
        ssize = rng.choice([2000, 30000, 70000])
        by_tag[str(stag)] = [["recv_until_end"], ["respond", 200, [], b"sib-%d" % stag]]
        add(stag, ssid, ssize)
        rspec["uploads"] = uploads
        yield {"family": "h2.fail-then-late-upload." + kind, "backends": ["asyncio", "trio"], "config": {"keep_alive_timeout": 5000}, "conn": {},
               "apps": {"default": [["recv_until_end"], ["respond", 200, [], b"d"]], "by_tag": by_tag},
               "client": [["feed", bytes(blob)], ["settle"], ["react", "pump"], ["settle"]], "reactor": rspec,
               "truth": {"proto": "h2", "at": 0, "kind": kind, "tag": base, "sid": 1, "total": 0, "progress": (False, 0, False),
                         "siblings": [(stag, ssid)], "sibling_upload": ssize},
               "sched": {"seed": rng.randrange(1 << 30)}, "horizon": 100.0}
    # the failure happens *inside* the application's first send: a response start the server refuses (raises into the application,
    # which lets it propagate) - no response had been started, so the client is owed the 500
    bad_starts = [
        {"type": "http.response.start", "status": 200, "headers": [("x-str", "not-bytes")]},
        {"type": "http.response.start", "status": 200, "headers": [(b"x-a", b"1\r\nx-evil: 2")]},
        {"type": "http.response.start", "status": 200, "headers": [(b":status", b"200")]},
        {"type": "http.response.start", "status": "200 OK", "headers": []},
        {"type": "http.response.start", "status": 200, "headers": [(b"x bad", b"1")]},
        {"type": "http.response.start", "status": 200, "headers": [(b"content-length", b"abc")]},
        {"type": "http.response.start", "status": 200, "headers": [(b"x-a", 5)]},
        {"type": "http.response.start", "headers": []},
    ]
    for k in range(len(bad_starts) * (1 if tier == "quick" else 6)):
        bad = bad_starts[k % len(bad_starts)]
        tag = 700000 + k
        for proto in ("h1", "h2"):
            if proto == "h2" and k % len(bad_starts) in (4, 5):
                continue  # refused by h11 only; HTTP/2 has no reason to object
            script = [["recv_until_end"], ["note", "crash-point"], ["send", bad], ["send", {"type": "http.response.body", "body": b"never"}]]
            if proto == "h1":
                first = rng.random() < 0.5
                client = ([["feed", h1.build_request(b"GET", b"/t0", [(b"Host", b"h")])]] if first else []) + \
                         [["feed", h1.build_request(b"POST", b"/t%d" % tag, [(b"Host", b"h")], body=b"abc", framing="cl")], ["settle"]]
                yield {"family": "h1.bad-start", "backends": ["asyncio", "trio"], "config": {"keep_alive_timeout": 5000}, "conn": {},
                       "apps": {"default": [["recv_until_end"], ["respond", 200, [(b"content-length", b"2")], b"ok"]], "by_tag": {str(tag): script}},
                       "client": client,
                       "truth": {"proto": "h1", "framing": "cl", "at": 1, "kind": "raise", "tag": tag, "total": 0, "progress": (False, 0, False),
                                 "first": first, "bad_start": k % len(bad_starts)},
                       "sched": {"seed": rng.randrange(1 << 30)}, "horizon": 100.0}
            else:
                fb = FrameBuilder()
                blob = client_preface(fb, {}) + fb.headers(3, [(b":method", b"GET"), (b":scheme", b"http"), (b":path", b"/t%d" % tag),
                                                               (b":authority", b"h")], end_stream=True)
                yield {"family": "h2.bad-start", "backends": ["asyncio", "trio"], "config": {"keep_alive_timeout": 5000}, "conn": {},
                       "apps": {"default": [["recv_until_end"], ["respond", 200, [], b"d"]], "by_tag": {str(tag): script}},
                       "client": [["feed", blob], ["settle"]], "reactor": {"kind": "h2", "credit": "auto"},
                       "truth": {"proto": "h2", "at": 1, "kind": "raise", "tag": tag, "sid": 3, "total": 0, "progress": (False, 0, False),
                                 "siblings": [], "bad_start": k % len(bad_starts)},
                       "sched": {"seed": rng.randrange(1 << 30)}, "horizon": 100.0}
    n = 0
    reps = 4 if tier == "quick" else 30
    for rep in range(reps):
        for proto in ("h1.cl", "h1.chunked", "h1.keepalive2", "h2", "ws.handshake", "ws.session"):
            for kind in ("raise", "raise_group", "return", "cancel"):
                for variant in range(3 if tier == "quick" else 5):
                    n += 1
                    tag = n
                    if proto.startswith("h1"):
                        framing = "cl" if proto == "h1.cl" else rng.choice(["cl", "chunked"]) if proto == "h1.keepalive2" else "chunked"
                        steps, total, sizes = _http_template(rng, tag, framing)
                        for at in range(len(steps) + 1):
                            script = _inject(steps, at, kind)
                            req = h1.build_request(b"POST", b"/t%d" % tag, [(b"Host", b"h")], body=b"abc", framing="cl")
                            if variant == 2:
                                # a body that arrives as more messages than the application queue holds, all before the application runs
                                nchunks = rng.choice([9, 11, 12, 30])
                                req = (b"POST /t%d HTTP/1.1\r\nHost: h\r\nTransfer-Encoding: chunked\r\n\r\n" % tag +
                                       b"".join(b"4\r\nc%03d\r\n" % k for k in range(nchunks)) + b"0\r\n\r\n")
                            client = []
                            by_tag = {str(tag): script}
                            first = None
                            if proto == "h1.keepalive2":
                                first = h1.build_request(b"GET", b"/t0", [(b"Host", b"h")])
                                client.append(["feed", first])
                            behind = rng.random() < 0.3
                            # (a further request already waiting behind the failing one: the connection's reader is parked on it)
                            client.append(["feed", req + (b"GET /behind HTTP/1.1\r\nHost: h\r\n\r\n" if behind else b"")])
                            client.append(["settle"])
                            yield {
                                "family": proto + "." + kind + (".pipelined-behind" if behind else ""), "backends": ["asyncio", "trio"] if kind != "cancel" else ["asyncio"],
                                "config": {"keep_alive_timeout": 5000}, "conn": {},
                                "apps": {"default": [["recv_until_end"], ["respond", 200, [(b"content-length", b"2")], b"ok"]], "by_tag": by_tag},
                                "client": client,
                                "truth": {"proto": "h1", "framing": framing, "at": at, "kind": kind, "tag": tag, "total": total,
                                          "progress": _progress(steps, at), "first": first is not None},
                                "sched": {"seed": rng.randrange(1 << 30)}, "horizon": 100.0,
                            }
                    elif proto == "h2":
                        steps, total, sizes = _http_template(rng, tag, rng.choice(["cl", "none"]))
                        if rng.random() < 0.4:
                            # response that announces trailers: it is complete only once the trailers have been sent
                            steps[1] = ["send", dict(steps[1][1], trailers=True, headers=[h for h in steps[1][1]["headers"] if h[0] != b"content-length"])]
                            steps.append(["send", {"type": "http.response.trailers", "headers": [(b"x-t", b"1")], "more_trailers": False}])
                        for at in range(len(steps) + 1):
                            script = _inject(steps, at, kind)
                            fb = FrameBuilder()
                            blob = bytearray(client_preface(fb, {}))
                            sib = []
                            # (lonely: the failing request is all there is, and the client says nothing after it - no WINDOW_UPDATE, no
                            #  other stream whose frames would carry the reset out along with them: "promptly" cannot wait for those)
                            lonely = rng.random() < 0.3
                            order = [("sib", 1), ("odd", 3), ("sib", 5)] if not lonely else [("odd", 1)]
                            if lonely:
                                script = script[:1] + [["sleep", 1.0]] + script[1:]  # (the SETTINGS exchange is over by the time it fails)
                            by_tag = {str(tag): script}
                            for what, sid in order:
                                if what == "sib":
                                    stag = 100000 + n * 10 + sid
                                    sib.append((stag, sid))
                                    by_tag[str(stag)] = [["recv_until_end"], ["yield", 2], ["respond", 200, [], b"sib-%d" % stag]]
                                    path = b"/t%d" % stag
                                else:
                                    path = b"/t%d" % tag
                                blob += fb.headers(sid, [(b":method", b"GET"), (b":scheme", b"http"), (b":path", path),
                                                         (b":authority", b"h"), (b"te", b"trailers")], end_stream=True)
                            yield {
                                "family": "h2." + kind, "backends": ["asyncio", "trio"] if kind != "cancel" else ["asyncio"],
                                "config": {"keep_alive_timeout": 5000}, "conn": {},
                                "apps": {"default": [["recv_until_end"], ["respond", 200, [], b"d"]], "by_tag": by_tag},
                                "client": [["feed", bytes(blob)], ["settle"]], "reactor": {"kind": "h2", "credit": "auto" if not lonely else "none"},
                                "truth": {"proto": "h2", "at": at, "kind": kind, "tag": tag, "sid": 3 if not lonely else 1, "total": total,
                                          "progress": _progress(steps, at), "siblings": sib},
                                "sched": {"seed": rng.randrange(1 << 30)}, "horizon": 100.0,
                            }
                    else:
                        if proto == "ws.handshake":
                            steps = [["recv"]]
                        else:
                            steps = [["recv"], ["send", {"type": "websocket.accept"}], ["recv"],
                                     ["send", {"type": "websocket.send", "text": "hello"}], ["recv"]]
                        for at in list(range(len(steps) + 1)) + (["denial-announced"] if proto == "ws.handshake" else []):
                            if proto == "ws.session" and at < 2:
                                continue
                            if at == "denial-announced":
                                # websocket.http.response.start is only taken note of, nothing is on the wire before the first body message:
                                # failing between the two, the application has started no response
                                steps = [["recv"], ["send", {"type": "websocket.http.response.start", "status": 401, "headers": [(b"x-why", b"auth")]}]]
                                at = 2
                            script = _inject(steps, at, kind)
                            data = ws.handshake(path=b"/t%d" % tag)
                            client = [["feed", data], ["settle"]]
                            if proto == "ws.session":
                                client += [["feed", ws.message_frames(ws.OP_TEXT, b"m1")], ["settle"],
                                           ["feed", ws.message_frames(ws.OP_TEXT, b"m2")], ["settle"]]
                            yield {
                                "family": proto + "." + kind, "backends": ["asyncio", "trio"] if kind != "cancel" else ["asyncio"],
                                "config": {"keep_alive_timeout": 5000}, "conn": {},
                                "apps": {"default": script, "websocket": script},
                                "client": client, "reactor": {"kind": "ws"},
                                "truth": {"proto": "ws", "at": at, "kind": kind, "tag": tag, "accepted": proto == "ws.session" and at >= 2,
                                          "steps": len(steps)},
                                "sched": {"seed": rng.randrange(1 << 30)}, "horizon": 100.0,
                            }


def _gen_bad_accept(rng, tier):
    """The failure happens *inside* the application's accept: the server refuses the websocket.accept (a subprotocol the client never
    offered, a pseudo header, str instead of bytes, the subprotocol smuggled in as a header) and the application lets that error propagate.
    No response had been started: the client gets a 500, the connection handler survives."""
    bads = [{"type": "websocket.accept", "subprotocol": "never-offered"},
            {"type": "websocket.accept", "headers": [(b":status", b"200")]},
            {"type": "websocket.accept", "headers": [("x-str", "v")]},
            {"type": "websocket.accept", "headers": [(b"sec-websocket-protocol", b"chat")]},
            {"type": "websocket.accept", "headers": [(b"x-a", b"1"), (b"bad name", b"v")]}]
    for rep in range(1 if tier == "quick" else 6):
        for k, bad in enumerate(bads):
            tag = 7700000 + rep * 10 + k
            script = [["recv"], ["send", bad], ["recv"]]
            yield {"family": "ws.handshake.bad-accept", "backends": ["asyncio", "trio"], "config": {"keep_alive_timeout": 5000}, "conn": {},
                   "apps": {"default": script, "websocket": script}, "client": [["feed", ws.handshake(path=b"/t%d" % tag)], ["settle"]],
                   "reactor": {"kind": "ws"}, "truth": {"proto": "ws", "at": 1, "kind": "refused-accept-%d" % k, "tag": tag, "accepted": False, "steps": 3},
                   "sched": {"seed": rng.randrange(1 << 30)}, "horizon": 100.0}


def _gen_many_failures(rng, tier):
    """'... the connection's other streams, later connections and the server itself keep working': a thousand applications failing in
    mid-response on one HTTP/2 connection must leave nothing behind that a later, healthy request trips over."""
    from ..wire.h2raw import FrameBuilder, client_preface

    for rep in range(1 if tier == "quick" else 3):
        fb = FrameBuilder()
        nfail = 1050
        client = [["feed", client_preface(fb, {})], ["settle"]]
        sid = 1
        for b in range(0, nfail, 50):
            blob = b""
            for _ in range(50):
                blob += fb.headers(sid, [(b":method", b"GET"), (b":scheme", b"http"), (b":path", b"/fail"), (b":authority", b"h")], end_stream=True)
                sid += 2
            client += [["feed", blob], ["settle"]]
        ok_sid = sid
        client += [["feed", fb.headers(ok_sid, [(b":method", b"GET"), (b":scheme", b"http"), (b":path", b"/ok"), (b":authority", b"h")], end_stream=True)], ["settle"]]
        # the same with WebSocket sessions (extended CONNECT) whose application fails right after accepting
        fbw = FrameBuilder()
        clientw = [["feed", client_preface(fbw, {})], ["settle"]]
        sidw = 1
        for b in range(0, nfail, 50):
            blob = b""
            for _ in range(50):
                blob += fbw.headers(sidw, [(b":method", b"CONNECT"), (b":protocol", b"websocket"), (b":scheme", b"http"), (b":path", b"/wsfail"), (b":authority", b"h"),
                                           (b"sec-websocket-version", b"13")], end_stream=False)
                sidw += 2
            clientw += [["feed", blob], ["settle"]]
        clientw += [["feed", fbw.headers(sidw, [(b":method", b"GET"), (b":scheme", b"http"), (b":path", b"/ok"), (b":authority", b"h")], end_stream=True)], ["settle"]]
        yield {"family": "h2.many-ws-failures", "backends": ["asyncio", "trio"], "config": {"keep_alive_timeout": 5000, "keep_alive_max_requests": 100000, "h2_max_concurrent_streams": 100000},
               "conn": {}, "apps": {"default": [["recv_until_end"], ["respond", 200, [], b"fine"]],
                                    "websocket": [["recv"], ["send", {"type": "websocket.accept"}], ["note", "crash-point"], ["raise", "Exception"]]},
               "client": clientw, "reactor": {"kind": "h2", "credit": "auto"}, "truth": {"proto": "h2-many", "kind": "raise", "ok_sid": sidw, "nfail": nfail},
               "sched": {"seed": rng.randrange(1 << 30)}, "horizon": 1000.0}
        yield {"family": "h2.many-failures", "backends": ["asyncio", "trio"], "config": {"keep_alive_timeout": 5000, "keep_alive_max_requests": 100000, "h2_max_concurrent_streams": 100},
               "conn": {}, "apps": {"default": [["recv_until_end"], ["respond", 200, [], b"fine"]],
                                    "by_path": {"/fail": [["recv_until_end"], ["send", {"type": "http.response.start", "status": 200, "headers": []}], ["note", "crash-point"], ["raise", "Exception"]]}},
               "client": client, "reactor": {"kind": "h2", "credit": "auto"}, "truth": {"proto": "h2-many", "kind": "raise", "ok_sid": ok_sid, "nfail": nfail},
               "sched": {"seed": rng.randrange(1 << 30)}, "horizon": 1000.0}


def _gen_ws_h2(rng, tier):
    """WebSocket over HTTP/2 (extended CONNECT): the application fails (a) after accept - the client must see the session end (a close frame
    and/or the end or reset of the stream), (b) in the middle of an HTTP response to the handshake - the stream is reset, never left open.
    A sibling request on the same connection keeps working."""
    from ..wire.h2raw import FrameBuilder, client_preface

    for rep in range(2 if tier == "quick" else 20):
        for where in ("after-accept", "after-accept-and-send", "mid-rejection-body", "after-rejection-start"):
            for kind in ("raise", "return"):
                tag = 7800000 + rep * 100 + len(where) * 2 + (kind == "raise")
                if where.startswith("after-accept"):
                    steps = [["recv"], ["send", {"type": "websocket.accept"}]] + ([["send", {"type": "websocket.send", "text": "hi"}]] if where.endswith("send") else [])
                else:
                    steps = [["recv"], ["send", {"type": "websocket.http.response.start", "status": 401, "headers": [(b"x-why", b"auth")]}]] + \
                            ([["send", {"type": "websocket.http.response.body", "body": b"par", "more_body": True}]] if where == "mid-rejection-body" else [])
                script = steps + [["note", "crash-point"], ["raise", "Exception"] if kind == "raise" else ["return"]]
                fb = FrameBuilder()
                hd = [(b":method", b"CONNECT"), (b":protocol", b"websocket"), (b":scheme", b"http"), (b":path", b"/t%d" % tag), (b":authority", b"h"),
                      (b"sec-websocket-version", b"13")]
                first = client_preface(fb, {}) + fb.headers(1, hd, end_stream=False)  # (HPACK: encoded in the order they are sent)
                sib = fb.headers(3, [(b":method", b"GET"), (b":scheme", b"http"), (b":path", b"/sib"), (b":authority", b"h")], end_stream=True)
                client = [["feed", first], ["settle"], ["feed", sib], ["settle"]]
                yield {"family": "wsh2.%s.%s" % (where, kind), "backends": ["asyncio", "trio"], "config": {"keep_alive_timeout": 5000}, "conn": {},
                       "apps": {"default": [["recv_until_end"], ["respond", 200, [], b"sib-ok"]], "websocket": script}, "client": client,
                       "reactor": {"kind": "h2", "credit": "auto"},
                       "truth": {"proto": "wsh2", "where": where, "kind": kind, "tag": tag}, "sched": {"seed": rng.randrange(1 << 30)}, "horizon": 100.0}


def nontrivial(case, obs):
    if obs is None:
        return True
    if case.get("truth", {}).get("kind") == "short-body":
        return any(e[3] == "exit" for e in obs.trace.events if e[2] == "app")
    if str(case.get("truth", {}).get("kind", "")).startswith("refused-accept"):
        # the failure is the server's refusal raised out of the application's send
        return any(e[3] == "send!" for e in obs.trace.events if e[2] == "app")
    if case.get("truth", {}).get("proto") == "wsgi":
        rec = obs.apps if isinstance(obs.apps, dict) else {}
        return bool(rec.get("calls"))
    return any(e[3] == "note" for e in obs.trace.events if e[2] == "app")


def run_one(case, tally):
    """Tier A cases go through the default executor; the 'server keeps working' smoke runs the real serve()."""
    from ..runner import default_run_one
    import sys

    if case.get("kind") != "serve-smoke":
        return default_run_one(sys.modules[__name__], case, tally)
    from ..world.realnet import ServeHarness, recv_all

    findings = []
    be = case["backend"]
    apps = {"lifespan": [["recv"], ["send", {"type": "lifespan.startup.complete"}], ["recv"], ["send", {"type": "lifespan.shutdown.complete"}]],
            "default": [["recv_until_end"], ["respond", 200, [(b"content-length", b"2")], b"ok"]],
            "by_path": {"/crash0": [["recv_until_end"], ["raise", "Exception"]],
                        "/crash1": [["recv_until_end"], ["send", {"type": "http.response.start", "status": 200, "headers": [(b"content-length", b"10")]}],
                                    ["send", {"type": "http.response.body", "body": b"12345", "more_body": True}], ["raise", "Exception"]]}}
    h = ServeHarness(be, {"graceful_timeout": 0.5, "shutdown_timeout": 0.5, "keep_alive_timeout": 5.0}, apps)
    try:
        h.start()
        h.wait_event(lambda e: e[2] == "app" and e[3] == "send.", 3.0)
        h.wait_ready()
        results = []
        for path in case["paths"]:
            s = h.connect()
            if s is None:
                results.append((path, None))
                continue
            s.sendall(b"GET %s HTTP/1.1\r\nHost: h\r\n\r\n" % path)
            d, eof = recv_all(s, timeout=1.0)
            results.append((path, d[:12]))
            s.close()
        alive = not h.done.is_set()
        h.trigger_shutdown()
        h.wait_done(4.0)
    finally:
        h.close()
    tally.clause("server-keeps-working")
    for path, head in results:
        if path.startswith(b"/ok") and (head is None or b" 200" not in head):
            findings.append({"clause": "server-keeps-working", "sig": "C05.later-connection-broken/%s" % be, "backend": be,
                             "detail": "after an application failure a fresh connection got %r for %r (all: %r)" % (head, path, results)})
    if not alive or (isinstance(h.result, tuple)):
        findings.append({"clause": "server-keeps-working", "sig": "C05.server-died/%s" % be, "backend": be,
                         "detail": "serve() ended after an application failure: %r" % (h.result,)})
    return findings, [None]


def _logged(obs):
    return any(r["level"] in ("ERROR", "CRITICAL") and (r["exc"] or "crash" in r["text"].lower() or "error" in r["text"].lower())
               for r in obs.errors)


def check(case, obs, tally):
    out = []
    t = case["truth"]
    kind = t["kind"]
    if obs.handler == "exception":
        out.append({"clause": "contained", "sig": "C05.handler-crashed/%s/%s" % (t["proto"], kind),
                    "detail": "application failure took the connection handler down: %s" % (obs.handler_exc or "")[-600:]})
        return out
    reached = nontrivial(case, obs)
    if not reached:
        tally.inconclusive["crash-point-not-reached"] += 1
        return out
    if kind in ("raise", "raise_group"):
        tally.clause("logged")
        if not _logged(obs):
            out.append({"clause": "logged", "sig": "C05.not-logged/%s" % t["proto"],
                        "detail": "application raised but no error record was logged"})
    closed = obs.closed_at is not None
    if t["proto"] == "wsgi":
        if t["version"] == "2":
            st = obs.reactor.streams.get(1)
            status, complete, got = (st.status, st.ended == 1, bytes(st.data)) if st else (None, False, b"")
            terminated = bool(st and (st.rst is not None or st.ended))
        else:
            try:
                resps, _ = h1.parse_responses(obs.outbytes, [("GET", "1.1")], closed)
            except h1.Malformed as e:
                out.append({"clause": "truncated", "sig": "C05.wsgi/malformed", "detail": str(e)})
                return out
            r = resps[0] if resps else None
            status, complete, got = (r.status, r.complete, r.body) if r else (None, False, b"")
            terminated = closed
        sent_before = b"".join(t["chunks"][:t["raise_at"]])
        if not sent_before:
            tally.clause("pre-start-500")
            if status != 500 or not complete:
                out.append({"clause": "pre-start-500", "sig": "C05.no-500/wsgi-h%s" % t["version"],
                            "detail": "WSGI iterable raised before yielding any data: client got status %r complete=%r" % (status, complete)})
        else:
            tally.clause("truncated")
            if complete:
                out.append({"clause": "truncated", "sig": "C05.falsely-complete/wsgi-h%s/%s" % (t["version"], t["shape"]),
                            "detail": "WSGI iterable raised at chunk %d after %d bytes had been yielded, but the client parsed a COMPLETE %r response of %d bytes" % (
                                t["raise_at"], len(sent_before), status, len(got))})
            elif not terminated:
                out.append({"clause": "truncated", "sig": "C05.not-terminated/wsgi-h%s" % t["version"],
                            "detail": "WSGI iterable raised mid-response; response truncated but neither reset nor closed at quiescence"})
        return out
    if t["proto"] == "h1":
        started, sent, completed = t["progress"]
        reqs = ([("GET", "1.1")] if t["first"] else []) + [("POST", "1.1")]
        try:
            resps, pos = h1.parse_responses(obs.outbytes, reqs, closed)
        except h1.Malformed as e:
            out.append({"clause": "truncated", "sig": "C05.h1/malformed", "detail": str(e)})
            return out
        mine = resps[1] if t["first"] and len(resps) > 1 else (resps[0] if resps and not t["first"] else None)
        if not started:
            tally.clause("pre-start-500")
            if mine is None or mine.status != 500 or not mine.complete:
                out.append({"clause": "pre-start-500", "sig": "C05.no-500/h1/%s" % kind,
                            "detail": "crash before response start: got %r" % (mine.as_dict() if mine else None)})
            elif not closed or obs.handler != "ok":
                # the 500 announces "connection: close": the failure must not leave the connection (and its task) behind
                out.append({"clause": "pre-start-500", "sig": "C05.not-terminated/h1/after-500/%s" % kind,
                            "detail": "500 sent after the application failed, but at quiescence closed=%r handler=%s tasks_left=%r blocked=%r" % (
                                closed, obs.handler, obs.tasks_left, obs.blocked_puts())})
        elif completed or (t["framing"] == "cl" and sent >= t["total"]):
            tally.clause("complete-ok")
            if mine is None or not mine.complete:
                tally.notes["completed-response-not-complete-on-wire(C02)"] += 1
        else:
            tally.clause("truncated")
            if mine is None:
                out.append({"clause": "truncated", "sig": "C05.h1/no-response", "detail": "started response not on the wire"})
            elif mine.complete:
                out.append({"clause": "truncated", "sig": "C05.falsely-complete/h1/%s/%s" % (t["framing"], kind),
                            "detail": "crash mid-response but the client parsed a COMPLETE response: %r" % (mine.as_dict(),)})
            elif not closed:
                out.append({"clause": "truncated", "sig": "C05.not-terminated/h1/%s/%s" % (t["framing"], kind),
                            "detail": "crash mid-response, response truncated but connection still open at quiescence"})
            elif obs.handler != "ok":
                out.append({"clause": "truncated", "sig": "C05.not-terminated/h1/handler-left-behind/%s" % kind,
                            "detail": "crash mid-response, the connection was closed but its handler never finished: handler=%s tasks_left=%r" % (obs.handler, obs.tasks_left)})
    elif t["proto"] == "h2":
        started, sent, completed = t["progress"]
        rx = obs.reactor
        s = rx.streams.get(t["sid"])
        if not started:
            tally.clause("pre-start-500")
            if s is None or s.status != 500 or s.ended != 1:
                out.append({"clause": "pre-start-500", "sig": "C05.no-500/h2/%s" % kind,
                            "detail": "crash before response start: stream %r" % (None if s is None else (s.status, s.ended, s.rst),)})
        elif completed:
            tally.clause("complete-ok")
        else:
            tally.clause("truncated")
            if s is None:
                out.append({"clause": "truncated", "sig": "C05.h2/no-response", "detail": "started response not on the wire"})
            elif s.ended:
                out.append({"clause": "truncated", "sig": "C05.falsely-complete/h2/%s" % kind,
                            "detail": "crash mid-response but END_STREAM was sent (%d/%d bytes)" % (len(s.data), t["total"])})
            elif s.rst is None and not closed:
                out.append({"clause": "truncated", "sig": "C05.not-terminated/h2/crash-after-response-start",
                            "detail": "crash mid-response (%s): stream %d has neither RST_STREAM nor END_STREAM at quiescence; connection open" % (kind, t["sid"])})
        tally.clause("siblings")
        if t.get("sibling_upload"):
            for stag, sid in t["siblings"]:
                insts = [e[4]["inst"] for e in obs.app_events(kind="start") if e[4]["scope"].get("path") == "/t%d" % stag]
                got = len(obs.apps.bodies.get(insts[0], b"")) if insts else -1
                if got != t["sibling_upload"]:
                    out.append({"clause": "siblings", "sig": "C05.sibling-upload-stalled/h2/%s" % kind,
                                "detail": "after %s failed before reading its body and the client kept uploading on those streams, the upload on stream %d "
                                          "delivered %d of %d bytes to its application" % (kind, sid, got, t["sibling_upload"])})
        for stag, sid in t["siblings"]:
            ss = rx.streams.get(sid)
            if ss is None or ss.status != 200 or bytes(ss.data) != b"sib-%d" % stag or ss.ended != 1:
                out.append({"clause": "siblings", "sig": "C05.sibling-broken/h2/%s" % kind,
                            "detail": "sibling stream %d did not complete: %r" % (sid, None if ss is None else (ss.status, bytes(ss.data)[:20], ss.ended, ss.rst))})
                break
    elif t["proto"] == "h2-many":
        rx = obs.reactor
        s_ = rx.streams.get(t["ok_sid"])
        tally.clause("siblings")
        if s_ is None or s_.status != 200 or bytes(s_.data) != b"fine" or s_.ended != 1:
            out.append({"clause": "siblings", "sig": "C05.later-stream-broken/h2/after-many-failures",
                        "detail": "after %d applications had failed in mid-response on this connection a healthy request got %r (goaway %r)" % (
                            t["nfail"], None if s_ is None else (s_.status, bytes(s_.data)[:20], s_.ended, s_.rst), rx.goaway)})
    elif t["proto"] == "wsh2":
        from ..wire import ws as _ws

        rx = obs.reactor
        s1, s3 = rx.streams.get(1), rx.streams.get(3)
        tally.clause("truncated")
        terminated = s1 is not None and (s1.ended or s1.rst is not None)
        p_ = _ws.FrameParser(False, False)
        if s1 is not None and s1.status == 200:
            p_.feed(bytes(s1.data))
        if not terminated and not (t["where"].startswith("after-accept") and p_.close is not None):
            out.append({"clause": "truncated", "sig": "C05.not-terminated/wsh2/%s" % t["where"],
                        "detail": "WebSocket over HTTP/2, application %s %s: the stream was neither ended nor reset%s (status %r, %d body bytes)" % (
                            "raised" if kind == "raise" else "returned", t["where"], "" if not t["where"].startswith("after-accept") else " and no close frame was sent",
                            None if s1 is None else s1.status, 0 if s1 is None else len(s1.data))})
        if t["where"] == "after-rejection-start":
            # (nothing of the announced response was on the wire: "a 500 response when no response had been started")
            tally.clause("pre-start-500")
            if s1 is None or s1.status != 500:
                out.append({"clause": "pre-start-500", "sig": "C05.no-500/wsh2/denial-announced",
                            "detail": "application %s after websocket.http.response.start, before any body message: stream 1 %r, expected a 500" % (
                                "raised" if kind == "raise" else "returned", None if s1 is None else (s1.status, len(s1.data), s1.ended, s1.rst))})
        if t["where"] == "mid-rejection-body" and s1 is not None and s1.ended and s1.rst is None:
            out.append({"clause": "truncated", "sig": "C05.falsely-complete/wsh2/rejection-body",
                        "detail": "the response to the handshake was cut short by the application's failure but ended with END_STREAM"})
        tally.clause("siblings")
        if s3 is None or s3.status != 200 or bytes(s3.data) != b"sib-ok" or s3.ended != 1:
            out.append({"clause": "siblings", "sig": "C05.sibling-broken/wsh2", "detail": "sibling request: %r" % (None if s3 is None else (s3.status, bytes(s3.data)[:20], s3.ended, s3.rst),)})
    else:
        rx = obs.reactor
        if not t["accepted"] and (t["at"] < 2 or t["steps"] == 2):
            tally.clause("pre-start-500")
            if rx.status != 500:
                out.append({"clause": "pre-start-500", "sig": "C05.no-500/ws/%s" % kind,
                            "detail": "crash before accept: status %r" % rx.status})
        elif t["at"] < t["steps"] or kind in ("raise", "return", "cancel"):
            tally.clause("truncated")
            if rx.status != 101:
                tally.inconclusive["ws-not-accepted"] += 1
            else:
                closed_frame = rx.parser.close is not None
                if not closed_frame and not closed:
                    out.append({"clause": "truncated", "sig": "C05.not-terminated/ws/%s" % kind,
                                "detail": "application ended after accept: neither a close frame nor transport close at quiescence"})
    return out
