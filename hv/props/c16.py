"""C16 — protocol behaviour does not depend on the worker class (differential)."""
from __future__ import annotations

import hashlib
import random
import re
import time

from ..wire import h1
from ..world.driver import run_case

ID = "C16"
LEVEL = "exploration"
BUDGET = {"quick": 50, "thorough": 900}
TECHNIQUE = ("differential monitor: the same case (client bytes, virtual timing, application script) is executed on the asyncio "
             "and the trio worker; normalised observations (application message sequences, parsed client events, whether and "
             "when the server closed) must be equal; racy cases are separated first by re-running each worker under K schedule seeds")
LEVEL_TEXT = ("Case corpora of C01-C12 (sampled by seed) run on both workers under virtual time; each worker is first checked "
              "for self-consistency over 3 schedule seeds and only seed-independent cases are compared.")
LEVEL_NOTE = "Trusted: the two in-memory network models give both workers the same client behaviour; hv/wire parsers."
RULE = ("cases drawn from the generators of C01, C02, C04, C05, C06, C07, C10, C11, C12; an evaluation is one execution; "
        "non-trivial = the case was seed-independent on both workers and therefore compared; distinct = distinct case hash")
ASSUMPTIONS = ["write segmentation and cross-stream frame order are not compared", "the date header is ignored"]
MIN_DECISIVE = {"compared": 100}
N_PER_SOURCE = {"quick": 140, "thorough": 5000}
SOURCES = ["c01", "c02", "c04", "c05", "c06", "c07", "c10", "c11", "c12"]  # c03 races closure against application progress at the same instant by design
K = 3


def _gen_backpressure(rng, tier):
    """More messages pending for one application than its bounded queue (max_app_queue_size) holds while it is not receiving, plus other
    traffic on the same connection behind them: both workers must stall - and resume - the connection's reader at the same points."""
    from ..wire import ws as _ws
    from ..wire.h2raw import FrameBuilder, client_preface

    for i in range(40 if tier == "quick" else 1200):
        qsize = rng.choice([10, 10, 2, 5])
        nmsg = qsize + rng.choice([1, 2, 6, 20])
        wait = rng.choice([0.5, 1.0, 3.0])
        tag = 8000000 + i * 10
        slow = [["sleep", wait], ["recv_until_end"], ["respond", 200, [(b"x-tag", b"%d" % tag)], b"slow-%d" % tag]]
        quick = [["recv_until_end"], ["respond", 200, [(b"x-tag", b"%d" % (tag + 1))], b"quick-%d" % (tag + 1)]]
        carrier = rng.choice(["h2", "h2", "h1", "ws", "h1-early"])
        base = {"backends": ["asyncio", "trio"], "config": {"keep_alive_timeout": 5000, "max_app_queue_size": qsize}, "conn": {},
                "sched": {"seed": rng.randrange(1 << 30)}, "horizon": 100.0, "source": "c16"}
        if carrier == "h2":
            fb = FrameBuilder()
            blob = client_preface(fb, {}) + fb.headers(1, [(b":method", b"POST"), (b":scheme", b"http"), (b":path", b"/t%d" % tag), (b":authority", b"h")], end_stream=False)
            for k in range(nmsg):
                blob += fb.data(1, b"d%03d" % k, end_stream=(k == nmsg - 1))
            blob += fb.headers(3, [(b":method", b"GET"), (b":scheme", b"http"), (b":path", b"/t%d" % (tag + 1)), (b":authority", b"h")], end_stream=True)
            blob += fb.ping(b"pingpong")
            yield dict(base, family="c16:backpressure.h2", apps={"default": quick, "by_tag": {str(tag): slow, str(tag + 1): quick}},
                       client=[["feed", blob], ["settle"], ["advance", wait + 1.0], ["settle"]], reactor={"kind": "h2", "credit": "auto"},
                       truth={"requests": [{"method": "POST"}, {"method": "GET"}]})
        elif carrier == "h1-early":
            # the application answers without having read any of the body and then keeps receiving (as one that watches for the disconnect
            # does): its queue is short of full / exactly full / over full (the reader waiting for room) when its response ends
            nmsg = max(1, qsize + rng.choice([-3, -2, -1, 0, 1, 2, 6]))  # + the end-of-body message
            early = [["sleep", wait], ["respond", 200, [(b"x-tag", b"%d" % tag)], b"early-%d" % tag], ["linger", 5.0]]
            body = b"".join(b"4\r\nc%03d\r\n" % k for k in range(nmsg)) + b"0\r\n\r\n"
            blob = b"POST /t%d HTTP/1.1\r\nHost: h\r\nTransfer-Encoding: chunked\r\n\r\n" % tag + body
            yield dict(base, family="c16:backpressure.h1-early", apps={"default": quick, "by_tag": {str(tag): early}},
                       client=[["feed", blob], ["settle"], ["advance", wait + 1.0], ["settle"], ["advance", 10.0], ["settle"]],
                       truth={"requests": [{"method": "POST"}]})
        elif carrier == "h1":
            body = b"".join(b"4\r\nc%03d\r\n" % k for k in range(nmsg)) + b"0\r\n\r\n"
            blob = b"POST /t%d HTTP/1.1\r\nHost: h\r\nTransfer-Encoding: chunked\r\n\r\n" % tag + body + b"GET /t%d HTTP/1.1\r\nHost: h\r\n\r\n" % (tag + 1)
            yield dict(base, family="c16:backpressure.h1", apps={"default": quick, "by_tag": {str(tag): slow, str(tag + 1): quick}},
                       client=[["feed_split", blob, [len(blob)] if rng.random() < 0.5 else [len(blob) // 2, len(blob) - len(blob) // 2]], ["settle"],
                               ["advance", wait + 1.0], ["settle"], ["eof"], ["settle"]],
                       truth={"requests": [{"method": "POST"}, {"method": "GET"}]})
        else:
            frames = b"".join(_ws.message_frames(_ws.OP_TEXT, b"m%03d" % k) for k in range(nmsg)) + _ws.frame(_ws.OP_PING, b"after")
            app = [["recv"], ["send", {"type": "websocket.accept"}], ["sleep", wait], ["ws_echo"]]
            yield dict(base, family="c16:backpressure.ws", apps={"default": app, "websocket": app},
                       client=[["feed", _ws.handshake(path=b"/t%d" % tag)], ["settle"], ["feed", frames], ["settle"], ["advance", wait + 1.0], ["settle"],
                               ["feed", _ws.close_frame(1000)], ["settle"]],
                       reactor={"kind": "ws", "echo_close": False}, truth={})


def _gen_read_timeout(rng, tier):
    """read_timeout bounds how long the server waits for bytes from the client - not how long it takes to act on them: a reader held
    behind a slow request, a full application queue or a stalled upload must fare the same on both workers."""
    from ..wire import ws as _ws
    from ..wire.h2raw import FrameBuilder, client_preface

    for i in range(30 if tier == "quick" else 900):
        rt = rng.choice([0.2, 0.5, 1.0])
        delay = rng.choice([0.5, 2.0, 3.0]) * rt * 2
        tag = 8500000 + i * 10
        slow = [["recv_until_end"], ["sleep", delay], ["respond", 200, [(b"x-tag", b"%d" % tag)], b"slow-%d" % tag]]
        quick = [["recv_until_end"], ["respond", 200, [(b"x-tag", b"%d" % (tag + 1))], b"quick-%d" % (tag + 1)]]
        # read_timeout = 0 now and then (with the same client timing): whatever a zero means, it means it on both workers
        base = {"backends": ["asyncio", "trio"], "config": {"keep_alive_timeout": 5000, "read_timeout": 0 if i % 8 == 7 else rt}, "conn": {},
                "sched": {"seed": rng.randrange(1 << 30)}, "horizon": 100.0, "source": "c16",
                "apps": {"default": quick, "by_tag": {str(tag): slow, str(tag + 1): quick}}}
        shape = rng.choice(["h1.pipelined", "h1.pipelined", "h1.sequential", "h2.two", "h1.idle-then-request"])
        r1 = b"GET /t%d HTTP/1.1\r\nHost: h\r\n\r\n" % tag
        r2 = b"GET /t%d HTTP/1.1\r\nHost: h\r\n\r\n" % (tag + 1)
        if shape == "h1.pipelined":
            client = [["feed", r1 + r2], ["settle"], ["advance", delay + rt / 4], ["settle"]]
        elif shape == "h1.sequential":
            client = [["feed", r1], ["settle"], ["advance", delay + rt / 4], ["settle"], ["feed", r2], ["settle"]]
        elif shape == "h1.idle-then-request":
            # a genuine read timeout: the client is silent for longer than read_timeout
            client = [["advance", rt * rng.choice([0.5, 2.0])], ["settle"], ["feed", r2], ["settle"]]
        else:
            fb = FrameBuilder()
            blob = client_preface(fb, {}) + fb.headers(1, [(b":method", b"GET"), (b":scheme", b"http"), (b":path", b"/t%d" % tag), (b":authority", b"h")], end_stream=True)
            blob += fb.headers(3, [(b":method", b"GET"), (b":scheme", b"http"), (b":path", b"/t%d" % (tag + 1)), (b":authority", b"h")], end_stream=True)
            yield dict(base, family="c16:read-timeout.h2.two", client=[["feed", blob], ["settle"], ["advance", rt / 2], ["settle"]],
                       reactor={"kind": "h2", "credit": "auto"}, truth={})
            continue
        yield dict(base, family="c16:read-timeout." + shape, client=client, truth={"requests": [{"method": "GET"}, {"method": "GET"}]})


def _gen_peer_gone(rng, tier):
    """The client goes away (a write to it fails) while the connection's reader is held inside the protocol - a pipelined request is
    waiting behind a response that is being streamed slowly.  Only what does not depend on how far either runtime had got is compared:
    which applications were started at all, and whether the one that was streaming was told (http.disconnect)."""
    for i in range(12 if tier == "quick" else 300):
        tag = 8700000 + i * 10
        nchunks = rng.choice([6, 10])
        first = [["recv_until_end"], ["send", {"type": "http.response.start", "status": 200, "headers": [(b"x-tag", b"%d" % tag)]}]]
        for j in range(nchunks):
            first += [["send", {"type": "http.response.body", "body": b"chunk-%d;" % j, "more_body": True}], ["sleep", 0.5]]
        first += [["send", {"type": "http.response.body", "body": b"", "more_body": False}], ["linger", 0.5]]
        second = [["recv_until_end"], ["respond", 200, [(b"x-tag", b"%d" % (tag + 1))], b"second"]]
        blob = b"GET /t%d HTTP/1.1\r\nHost: h\r\n\r\nGET /t%d HTTP/1.1\r\nHost: h\r\n\r\n" % (tag, tag + 1)
        yield {"family": "c16:peer-gone.h1-pipelined", "source": "c16", "backends": ["asyncio", "trio"], "config": {"keep_alive_timeout": 5000}, "conn": {},
               "apps": {"default": second, "by_tag": {str(tag): first, str(tag + 1): second}},
               "client": [["fail_write_at", rng.choice([2, 3, 4])], ["feed", blob], ["settle"], ["advance", nchunks * 0.5 + 2.0], ["settle"]],
               "truth": {}, "reduce": "peer-gone", "sched": {"seed": rng.randrange(1 << 30)}, "horizon": 100.0}


def _gen_ping_burst(rng, tier):
    """Several reads' worth of WebSocket pings arriving at once from a client that takes every pong: both workers answer every one."""
    from ..wire import ws as _ws

    for i in range(2 if tier == "quick" else 20):
        n = rng.choice([12000, 15000]) if tier == "quick" else rng.choice([12000, 30000])
        frames = b"".join(_ws.frame(_ws.OP_PING, b"" if j % 3 else b"%d" % j) for j in range(n))
        yield {"family": "c16:ws-ping-burst", "source": "c16", "backends": ["asyncio", "trio"], "config": {"keep_alive_timeout": 5000}, "conn": {},
               "apps": {"default": [["recv"], ["send", {"type": "websocket.accept"}], ["ws_echo"]], "websocket": [["recv"], ["send", {"type": "websocket.accept"}], ["ws_echo"]]},
               "client": [["feed", _ws.handshake(path=b"/t%d" % (8800000 + i))], ["settle"], ["feed", frames], ["settle"], ["feed", _ws.close_frame(1000)], ["settle"]],
               "reactor": {"kind": "ws", "echo_close": False}, "truth": {}, "sched": {"seed": rng.randrange(1 << 30)}, "horizon": 100.0}


def _gen_big_echo_with_pings(rng, tier):
    """One WebSocket message far larger than any unit a worker may write in (the echo is a single write for the protocol) with pings right
    behind it - their pongs are written by another task: the client sees the same frames, whole, from both workers."""
    from ..wire import ws as _ws

    for i in range(4 if tier == "quick" else 40):
        size = rng.choice([70000, 200000, 600000])
        payload = bytes(rng.getrandbits(8) for _ in range(64)) * (size // 64)
        frames = _ws.message_frames(_ws.OP_BIN, payload) + b"".join(_ws.frame(_ws.OP_PING, b"p%d" % j) for j in range(rng.choice([1, 3, 8])))
        paused = rng.random() < 0.5
        client = [["feed", _ws.handshake(path=b"/t%d" % (8700000 + i))], ["settle"]] + ([["pause"]] if paused else []) + [["feed", frames], ["settle"]] + \
                 ([["resume"], ["settle"]] if paused else []) + [["feed", _ws.close_frame(1000)], ["settle"]]
        yield {"family": "c16:ws-big-echo-with-pings", "source": "c16", "backends": ["asyncio", "trio"],
               "config": {"keep_alive_timeout": 5000, "websocket_max_message_size": 1 << 22}, "conn": {"write_buffer": 1 << 22} if paused else {},
               "apps": {"default": [["recv"], ["send", {"type": "websocket.accept"}], ["ws_echo"]], "websocket": [["recv"], ["send", {"type": "websocket.accept"}], ["ws_echo"]]},
               "client": client, "reactor": {"kind": "ws", "echo_close": False}, "truth": {}, "sched": {"seed": rng.randrange(1 << 30)}, "horizon": 100.0}


def _gen_h2_idle_twice(rng, tier):
    """HTTP/2: the connection is told it is idle when it already is (the client resets a stream whose response is complete; a request the
    server answers itself), and a request slower than what is left of the first idle period follows: it is served on both workers - the
    idle period that counts began with the last notification, and ended with the request."""
    from ..wire.h2raw import FrameBuilder, client_preface

    for i in range(8 if tier == "quick" else 150):
        T = 1.0
        tag = 8600000 + i * 10
        fb = FrameBuilder()
        fast = [["recv_until_end"], ["respond", 200, [(b"x-tag", b"%d" % tag)], b"first"]]
        slow = [["recv_until_end"], ["sleep", rng.choice([0.7, 0.9]) * T], ["respond", 200, [(b"x-tag", b"%d" % (tag + 1))], b"slow"]]
        h = lambda sid, t_: fb.headers(sid, [(b":method", b"GET"), (b":scheme", b"http"), (b":path", b"/t%d" % t_), (b":authority", b"h.example")], end_stream=True)
        first = client_preface(fb, {}) + h(1, tag)
        again = rng.choice(["rst_complete", "rst_complete", "foreign_authority"])
        if again == "rst_complete":
            second = fb.rst(1, 8)
        else:
            second = fb.headers(3, [(b":method", b"GET"), (b":scheme", b"http"), (b":path", b"/other"), (b":authority", b"other.example")], end_stream=True)
        sid3 = 3 if again == "rst_complete" else 5
        client = [["feed", first], ["settle"], ["advance", 0.2 * T], ["feed", second], ["settle"], ["advance", rng.choice([0.4, 0.6]) * T],
                  ["feed", h(sid3, tag + 1)], ["settle"], ["advance", 1.2 * T], ["settle"], ["advance", 3 * T], ["settle"]]
        config = {"keep_alive_timeout": T}
        if again == "foreign_authority":
            config["server_names"] = ["h.example"]
        yield {"family": "c16:h2-idle-twice." + again, "source": "c16", "backends": ["asyncio", "trio"], "config": config, "conn": {},
               "apps": {"default": fast, "by_tag": {str(tag): fast, str(tag + 1): slow}}, "client": client, "reactor": {"kind": "h2", "credit": "auto"},
               "truth": {}, "sched": {"seed": rng.randrange(1 << 30)}, "horizon": 100.0}


def _gen_half_closed(rng, tier):
    """A client that has finished sending (half-close) but goes on reading, and an application that takes longer than keep_alive_timeout to
    answer: the response is owed on both workers (nothing is waiting to be written meanwhile: nobody is failing to take anything)."""
    for i in range(10 if tier == "quick" else 200):
        T = 1.0
        tag = 8900000 + i * 10
        fast = [["recv_until_end"], ["respond", 200, [(b"x-tag", b"%d" % tag)], b"first"]]
        late = [["recv_until_end"], ["sleep", rng.choice([2.5, 4.0]) * T], ["respond", 200, [(b"x-tag", b"%d" % (tag + 1))], b"late"]]
        r1 = b"GET /t%d HTTP/1.1\r\nHost: h\r\n\r\n" % tag
        r2 = b"GET /t%d HTTP/1.1\r\nHost: h\r\n\r\n" % (tag + 1)
        first_too = rng.random() < 0.7
        client = ([["feed", r1], ["settle"]] if first_too else []) + [["feed", r2], ["settle"], ["eof"], ["settle"], ["advance", 6 * T], ["settle"]]
        yield {"family": "c16:half-closed-slow-answer", "source": "c16", "backends": ["asyncio", "trio"], "config": {"keep_alive_timeout": T}, "conn": {},
               "apps": {"default": fast, "by_tag": {str(tag): fast, str(tag + 1): late}}, "client": client,
               "truth": {"requests": [{"method": "GET"}] * (2 if first_too else 1)}, "sched": {"seed": rng.randrange(1 << 30)}, "horizon": 100.0}


def gen(rng, tier):
    yield from _gen_half_closed(rng, tier)
    yield from _gen_big_echo_with_pings(rng, tier)
    yield from _gen_h2_idle_twice(rng, tier)
    yield from _gen_peer_gone(rng, tier)
    yield from _gen_ping_burst(rng, tier)
    # the per-connection state seen by an application is part of the scope it is handed: it has to be the same on both workers,
    # also across several connections of one worker (real serve(), loopback)
    for k in range(2 if tier == "quick" else 8):
        yield {"family": "c16:state-across-connections", "kind": "tierb-state", "source": "c16", "backends": ["asyncio", "trio"],
               "lifespan_sets": rng.choice([None, "x"]), "plan": [rng.choice([1, 2, 3]) for _ in range(rng.choice([2, 3]))], "rep": k}
        # the lifespan application goes on changing its state after start-up (a background task of its own): what later connections see of it
        yield {"family": "c16:state-changed-after-startup", "kind": "tierb-state", "source": "c16", "backends": ["asyncio", "trio"],
               "lifespan_sets": "x", "late_state": True, "plan": [1, 2], "rep": k}
    for mr in ((1, 3) if tier == "quick" else (1, 2, 3, 5, 8)):
        yield {"family": "c16:max-requests", "kind": "tierb-maxreq", "source": "c16", "backends": ["asyncio", "trio"], "max_requests": mr}
    yield from _gen_read_timeout(rng, tier)
    yield from _gen_backpressure(rng, tier)
    yield from _gen_sources(rng, tier)


def _gen_sources(rng, tier):
    import importlib

    per = N_PER_SOURCE[tier]
    gens = []
    for name in SOURCES:
        mod = importlib.import_module("hv.props." + name)
        sub = random.Random(rng.randrange(1 << 30))
        gens.append((name, iter(mod.gen(sub, "quick" if tier == "quick" else "thorough"))))
    for i in range(per):
        for name, g in gens:
            # skip ahead pseudo-randomly so that different seeds sample different cases
            case = None
            for _ in range(rng.randint(1, 4)):
                try:
                    case = next(g)
                except StopIteration:
                    break
            if case is None or set(case.get("backends", [])) != {"asyncio", "trio"}:
                continue
            case = dict(case)
            if (case.get("conn") or {}).get("tls") and (case.get("conn") or {}).get("alpn") == "h2" \
                    and any(st[0] == "eof" for st in case.get("client", [])):
                continue  # same ND as below; TLS cannot be dropped here without changing the protocol selection
            if (case.get("conn") or {}).get("tls") and (case.get("conn") or {}).get("alpn") != "h2" \
                    and any(st[0] == "eof" for st in case.get("client", [])):
                # ND: what a TLS runtime does with its own side after the peer's close_notify differs between the asyncio
                # transport (closes both directions) and trio's SSLStream; not hypercorn's choice
                case["conn"] = {k: v for k, v in case["conn"].items() if k not in ("tls", "alpn")}
            if any(st[0] in ("reset", "fail_write_at", "terminate", "pause") for st in case.get("client", [])):
                continue  # injected faults race with in-flight work differently on the two runtimes; C03/C07/C08 judge them per worker
            if any((st[0] == "turns" and st[1] > 0) or (st[0] == "feed_split" and len(st) > 3) for st in case.get("client", [])):
                continue  # "k scheduler turns later" is not the same instant on two different schedulers: not "the same timing"
            t = case.get("truth") or {}
            if name == "c06" and (any(m not in ("after", "slow") for m in t.get("modes", [])) or t.get("kind") in ("unread-upload", "early-answer")):
                continue  # responding before the body has been read races the reader (C06 ND)
            if name == "c01" and any(sc and sc[0][0] == "send" for sc in ((case.get("apps") or {}).get("by_tag") or {}).values()):
                continue  # an application that answers before it reads races the reader (which worker has announced "connection: close" by then): ND, as for c06
            if name == "c10" and t.get("deflate") and t.get("inner_ping"):
                continue  # known third-party mechanism (wsproto), outcome after the failure is not specified
            if name == "c10" and any(len(m[1]) > t.get("limit", 1 << 30) for m in t.get("msgs", [])):
                continue  # the application's echoes race the server's 1009 close: both orders are legal
            case["source"] = name
            case["family"] = name + ":" + case.get("family", "?")
            if len(repr(case.get("client", ""))) > 3_000_000:
                continue
            yield case


_DATE = re.compile(rb"\r\ndate: [^\r]*", re.I)


def _h(b):
    return hashlib.blake2b(bytes(b), digest_size=8).hexdigest() if len(b) > 64 else bytes(b)


def normalise(case, obs):
    apps = []
    exits = obs.exits()
    for e in obs.app_events(kind="start"):
        inst = e[4]["inst"]
        sc = e[4]["scope"]
        recvs = []
        for m in obs.apps.recvs.get(inst, []):
            t = m.get("type")
            if t == "http.request":
                recvs.append("req")
            elif t == "websocket.receive":
                recvs.append(("ws", _h((m.get("text") or "").encode() if m.get("text") is not None else m.get("bytes") or b"")))
            else:
                recvs.append((t, m.get("code")))
        # collapse how the body was chunked; keep total bytes and whether the end marker arrived
        body = bytes(obs.apps.bodies.get(inst, b""))
        final = any(m.get("type") == "http.request" and not m.get("more_body", False) for m in obs.apps.recvs.get(inst, []))
        rc = [x for x in recvs if x != "req"]
        sends = [(ev[3], ev[4].get("exc")) for ev in obs.app_events(inst=inst) if ev[3] in ("send.", "send!")]
        apps.append((sc.get("type"), sc.get("http_version"), sc.get("method"), sc.get("path"), _h(body), final, tuple(rc), tuple(sends), exits.get(inst)))
    apps.sort(key=repr)
    r = case.get("reactor") or {}
    fam = case.get("family", "")
    ws_over_h2 = r.get("kind") == "h2" and ("ws" in fam or (case.get("truth") or {}).get("carrier") == "h2" or "close.h2" in fam or "hs.h2" in fam)
    if ws_over_h2 and obs.reactor is not None:
        from ..wire import ws as _ws

        rx = obs.reactor
        streams = []
        for sid, s in sorted(rx.streams.items()):
            hdr = dict(s.final_headers() or [])
            ext = hdr.get(b"sec-websocket-extensions", b"")
            p = _ws.FrameParser(b"permessage-deflate" in ext, b"server_no_context_takeover" in ext)
            if s.status == 200:
                p.feed(bytes(s.data))
                body = (tuple((k, _h(v.encode() if isinstance(v, str) else v)) for k, v in p.messages), p.close, tuple(p.pongs), tuple(p.errors))
            elif s.rst is not None and not s.ended:
                body = "<aborted>"  # (as for plain HTTP/2 below: how much of a response the server itself aborts had already left is scheduling)
            else:
                body = _h(s.data)
            streams.append((sid, s.status, tuple(x for x in (s.final_headers() or []) if x[0] != b"date"), body, s.ended, s.rst))
        client = ("ws-h2", streams, None if rx.goaway is None else (rx.goaway.get("code"), rx.goaway.get("last")))
    elif r.get("kind") == "h2" and obs.reactor is not None:
        rx = obs.reactor
        client = ("h2", rx.upgrade_head is not None and rx.upgrade_head[:12],
                  sorted((sid, s.status, tuple(s.final_headers() and [x for x in s.final_headers() if x[0] != b"date"] or ()),
                          # how much of a response the server itself aborted had already left is a scheduling matter (send task vs application)
                          "<aborted>" if (s.rst is not None and not s.ended) else _h(s.data), s.ended, s.rst,
                          # *when* each stream's response ended (virtual time is deterministic; equal instants compare equal)
                          None if s.end_t is None else round(s.end_t, 6))
                         for sid, s in rx.streams.items()),
                  None if rx.goaway is None else (rx.goaway.get("code"), rx.goaway.get("last")))
    elif r.get("kind") == "ws" and obs.reactor is not None:
        rx = obs.reactor
        client = ("ws", rx.status, tuple(x for x in rx.headers if x[0] != b"date"),
                  tuple((k, _h(v.encode() if isinstance(v, str) else v)) for k, v in (rx.parser.messages if rx.parser else [])),
                  rx.parser.close if rx.parser else None, tuple(rx.parser.pongs) if rx.parser else None, _h(rx.http_body))
    else:
        data = _DATE.sub(b"", obs.outbytes)
        treq = (case.get("truth") or {}).get("requests")
        methods = [("GET", "1.1")] * 64
        if isinstance(treq, list) and treq and isinstance(treq[0], dict) and "method" in treq[0]:
            methods = [(q["method"], q.get("version", "1.1")) for q in treq] + methods
        try:
            resps, pos = h1.parse_responses(data, methods, obs.closed_at is not None)
            client = ("h1", tuple((x.status, tuple(h for h in x.headers if h[0].lower() != b"date"), _h(x.body) if x.complete else "<aborted>", x.complete) for x in resps))
        except h1.Malformed:
            client = _h2_structure(data)
            if client[0] == "raw" and data.startswith(b"HTTP/1."):
                # an HTTP/1 response followed by an HTTP/2 session on the same connection (prior-knowledge preface pipelined behind a request)
                from ..wire.h2raw import FrameReader

                pos = -1
                while True:
                    pos = data.find(b"\r\n\r\n", pos + 1)
                    if pos < 0:
                        break
                    rest = data[pos + 4:]
                    rd = FrameReader()
                    evs = rd.feed(rest)
                    if evs and not rd.errors and evs[0]["t"] == "settings":
                        try:
                            rs, _ = h1.parse_responses(data[:pos + 4], methods, True)
                            head = tuple((x.status, tuple(h for h in x.headers if h[0].lower() != b"date"), _h(x.body) if x.complete else "<aborted>", x.complete) for x in rs)
                        except h1.Malformed:
                            head = ("raw", _h(data[:pos + 4]))
                        client = ("h1+h2", head, _h2_structure(rest))
                        break
    closed = None if obs.closed_at is None else round(obs.closed_at, 6)
    return {"apps": apps, "client": client, "closed_at": closed, "handler": obs.handler}


def _h2_structure(data):
    """Frame-level normalisation of an HTTP/2 byte stream: per-stream frame sequences, connection frames as a multiset."""
    from ..wire.h2raw import FrameReader

    rd = FrameReader()
    evs = rd.feed(data)
    if rd.errors or not evs:
        return ("raw", _h(_DATE.sub(b"", data)))
    per = {}
    connf = []
    for e in evs:
        t = e["t"]
        if t in ("data", "headers", "rst", "push"):
            item = (t, _h(e["data"]) if t == "data" else None, tuple(h for h in (e.get("headers") or []) if h[0] != b"date") if t in ("headers", "push") else None,
                    e.get("end"), e.get("code"))
            per.setdefault(e["sid"], []).append(item)
        elif t == "window_update":
            connf.append((t, e["sid"], e["inc"]))
        elif t == "settings":
            connf.append((t, e["ack"], tuple(sorted(e["settings"].items()))))
        elif t == "goaway":
            connf.append((t, e["code"], e["last"]))
        else:
            connf.append((t, e.get("ack"), e.get("data")))
    # DATA frames of one stream may be cut differently: merge consecutive data frames
    merged = {}
    for sid, items in per.items():
        total = 0
        out = []
        for it in items:
            if it[0] == "data":
                total += 1
            out.append(it if it[0] != "data" else ("data", None, None, it[3], None))
        merged[sid] = (tuple(x for x in out if x[0] != "data"), sum(1 for x in out if x[0] == "data" and x[3]), total > 0)
    return ("h2-frames", tuple(sorted(merged.items())), tuple(sorted(connf, key=repr)))


def _stretched(case):
    """The same case with every client pause stretched by 1e-7 (relative): an observation that changes under this
    is a coincidence of two events at the same virtual instant, i.e. a race, not a divergence."""
    c = dict(case)
    c["client"] = [[st[0], st[1] * (1 + 1e-7)] if st[0] == "advance" else st for st in case["client"]]
    return c


def _with_seed(case, k):
    c = dict(case)
    s = dict(case.get("sched") or {})
    s["seed"] = (s.get("seed", 0) * 31 + k * 7919 + 1) & 0x3FFFFFFF
    c["sched"] = s
    return c


def _tierb_maxreq(case, tally):
    """The same sequential session against a worker configured to recycle itself: how many requests are answered before the worker stops
    taking new connections - and that serve() then returns - is part of "whether and when the server closes", identical on both workers."""
    from ..world.realnet import ServeHarness, recv_all

    views = {}
    for be in ("asyncio", "trio"):
        h = ServeHarness(be, {"graceful_timeout": 0.5, "shutdown_timeout": 0.5, "keep_alive_timeout": 5.0, "max_requests": case["max_requests"],
                              "max_requests_jitter": 0},
                         {"lifespan": [["recv"], ["send", {"type": "lifespan.startup.complete"}], ["recv"], ["send", {"type": "lifespan.shutdown.complete"}]],
                          "default": [["recv_until_end"], ["respond", 200, [(b"content-length", b"2")], b"ok"]]})
        served = 0
        try:
            h.start()
            h.wait_event(lambda e: e[2] == "app" and e[3] == "send.", 3.0)
            h.wait_ready()
            for i in range(case["max_requests"] + 5):
                if h.done.is_set():
                    break
                s = h.connect(timeout=0.5)
                if s is None:
                    break
                try:
                    s.sendall(b"GET /m%d HTTP/1.1\r\nHost: h\r\nConnection: close\r\n\r\n" % i)
                    d, _ = recv_all(s, timeout=1.0)
                    if b" 200" in d[:15]:
                        served += 1
                except OSError:
                    pass
                finally:
                    s.close()
                time.sleep(0.05)  # (the in-process family of C18 does the same: the worker notices between two requests)
            returned = h.wait_done(4.0)
        finally:
            h.close()
        for e in h.trace.events:
            tally.events[e[2] + "." + e[3]] += 1
        started = sum(1 for e in h.trace.events if e[2] == "app" and e[3] == "start" and e[4]["scope"].get("type") == "http")
        views[be] = (started, returned)
    tally.clause("compared")
    tally.clause("maxreq-compared")
    if views["asyncio"] != views["trio"]:
        return [{"clause": "compared", "sig": "C16.divergence/c16/max-requests", "backend": "both",
                 "detail": "max_requests=%d, jitter 0, one request per connection: asyncio took on %d requests (serve returned: %r), trio %d (%r)" % (
                     case["max_requests"], views["asyncio"][0], views["asyncio"][1], views["trio"][0], views["trio"][1])}], [None]
    return [], [None]


def _tierb_state(case, tally):
    from ..world.realnet import ServeHarness, recv_until

    views = {}
    for be in ("asyncio", "trio"):
        ls = [["recv"]] + ([["set_state", "from_lifespan", case["lifespan_sets"]]] if case["lifespan_sets"] else []) + \
             [["send", {"type": "lifespan.startup.complete"}]] + \
             ([["sleep", 0.05], ["set_state", "set_after_startup", "late"]] if case.get("late_state") else []) + \
             [["recv"], ["send", {"type": "lifespan.shutdown.complete"}]]
        h = ServeHarness(be, {"graceful_timeout": 0.5, "shutdown_timeout": 0.5, "keep_alive_timeout": 5.0},
                         {"lifespan": ls, "default": [["recv_until_end"], ["count_and_respond_state"]]})
        bodies = []
        try:
            h.start()
            h.wait_event(lambda e: e[2] == "app" and e[3] == "send.", 3.0)
            h.wait_ready()
            if case.get("late_state"):
                h.wait_event(lambda e: e[2] == "app" and e[3] == "recv" and False, 0.4)  # (let the lifespan application make its later change)
            for nreq in case["plan"]:  # one connection after the other, nreq keep-alive requests each
                s = h.connect()
                conn = []
                if s is not None:
                    for j in range(nreq):
                        s.sendall(b"GET /c HTTP/1.1\r\nHost: h\r\n\r\n")
                        d = recv_until(s, b"]", timeout=1.5)
                        conn.append(d.split(b"\r\n\r\n", 1)[-1])
                    s.close()
                bodies.append(conn)
            h.trigger_shutdown()
            h.wait_done(4.0)
        finally:
            h.close()
        for e in h.trace.events:
            tally.events[e[2] + "." + e[3]] += 1
        views[be] = bodies
    tally.clause("compared")
    tally.clause("state-compared")
    if views["asyncio"] != views["trio"]:
        return [{"clause": "compared", "sig": "C16.divergence/c16/state-across-connections", "backend": "both",
                 "detail": "connections %r (requests per connection) against an application counting visits in scope['state']: asyncio answered %r, trio %r" % (
                     case["plan"], views["asyncio"], views["trio"])}], [None]
    return [], [None]


def run_one(case, tally):
    if case.get("kind") == "tierb-maxreq":
        return _tierb_maxreq(case, tally)
    if case.get("kind") == "tierb-state":
        return _tierb_state(case, tally)
    findings, obs_all = [], []
    norms = {}
    for be in ("asyncio", "trio"):
        ns = []
        for k in range(K):
            ob = run_case(_with_seed(case, k) if k else case, be)
            obs_all.append(ob)
            if ob.harness_error:
                tally.inconclusive["harness:" + ob.harness_error.strip().splitlines()[-1][:80]] += 1
                return findings, obs_all
            if k == 0:
                for e in ob.trace.events:
                    tally.events[e[2] + "." + e[3]] += 1
            ns.append(normalise(case, ob))
        if any(st[0] == "advance" for st in case["client"]):
            ob = run_case(_stretched(case), be)
            obs_all.append(ob)
            if not ob.harness_error:
                n2 = normalise(case, ob)
                if n2["closed_at"] is not None and ns[0]["closed_at"] is not None and abs(n2["closed_at"] - ns[0]["closed_at"]) < 1e-4 * max(1.0, ns[0]["closed_at"]):
                    n2["closed_at"] = ns[0]["closed_at"]
                ns.append(n2)
        norms[be] = ns
    if any(o.open_sends() and any(v in ("http.disconnect", "websocket.disconnect") for v in o.blocked_puts().values()) for o in obs_all):
        tally.notes["known-deadlock-excluded(C06)"] += 1
        return findings, obs_all
    # ND: a client that sends WebSocket frames before the server has answered (or even seen) its handshake - e.g. pipelined behind a
    # request still in progress - races the application's accept; which side wins is a scheduling matter, not a protocol one
    t_frames = _ws_frames_fed_at(case)
    if t_frames is not None:
        for o in obs_all:
            for e in o.app_events(kind="start"):
                if e[4]["scope"].get("type") == "websocket" and (t_frames[1] or e[1] > t_frames[0] + 1e-9):
                    tally.notes["ws-frames-before-handshake-answer-excluded:" + case["source"]] += 1
                    tally.clause("racy-excluded")
                    return findings, obs_all
    # ND: a WebSocket handshake pipelined behind a request still in progress, and the client's EOF arriving before the server gets to it:
    # when the earlier response ends, "the EOF is read" and "the handshake is taken on and answered" are due in the same instant - which
    # comes first (is the 101 still written?) is a scheduling matter, and each worker has its own fixed order
    for o in obs_all:
        eofs = [e[1] for e in o.trace.events if e[2] == "client" and e[3] == "eof"]
        if eofs and any(e[4]["scope"].get("type") == "websocket" and e[1] > eofs[0] - 1e-9 for e in o.app_events(kind="start")):
            tally.notes["ws-handshake-behind-client-eof-excluded:" + case["source"]] += 1
            tally.clause("racy-excluded")
            return findings, obs_all
    racy = [be for be in norms if any(n != norms[be][0] for n in norms[be][1:])]
    if racy:
        tally.notes["racy-excluded:" + case["source"]] += 1
        tally.clause("racy-excluded")
        return findings, obs_all
    tally.clause("compared")
    a, t = norms["asyncio"][0], norms["trio"][0]
    if case.get("reduce") == "peer-gone":
        red = lambda n: {"started": sorted(x[3] for x in n["apps"]),
                         "told": sorted((x[3], any(r_[0] == "http.disconnect" for r_ in x[6])) for x in n["apps"]),
                         "handler": n["handler"], "closed": n["closed_at"] is not None}
        a, t = red(a), red(t)
    if case["source"] == "c04":
        def _conn_error(n):
            c = n["client"]
            return c[0] == "h2-frames" and any(x[0] == "goaway" and x[1] for x in c[2])
        if _conn_error(a) or _conn_error(t):
            # after a connection error, which in-flight responses still got out is a legal race: compare the error only
            red = lambda n: {"goaway": sorted(x for x in n["client"][2] if x[0] == "goaway") if n["client"][0] == "h2-frames" else n["client"],
                             "handler": n["handler"], "closed": n["closed_at"] is not None}
            a, t = red(a), red(t)
            tally.notes["c04-connection-error:reduced-comparison"] += 1
    if a != t:
        diff = [k for k in a if a[k] != t[k]]
        findings.append({"clause": "compared", "sig": "C16.divergence/%s/%s" % (case["source"], "+".join(diff)), "backend": "both",
                         "detail": "family %s differs in %s:\n asyncio: %s\n trio:    %s" % (
                             case["family"], diff, repr({k: a[k] for k in diff})[:600], repr({k: t[k] for k in diff})[:600])})
    return findings, obs_all


def _ws_frames_fed_at(case):
    """Client-side virtual time of the first bytes fed after an HTTP/1 WebSocket handshake, or None."""
    t, seen_hs = 0.0, False
    for st in case.get("client", []):
        if st[0] == "advance":
            t += st[1]
        elif st[0] in ("feed", "feed_nosettle", "feed_split") and isinstance(st[1], (bytes, bytearray)):
            if seen_hs:
                return (t, False)
            low = bytes(st[1]).lower()
            i = low.find(b"upgrade: websocket")
            if i >= 0:
                seen_hs = True
                end = low.find(b"\r\n\r\n", i)
                if end >= 0 and end + 4 < len(low):
                    return (t, True)  # frames in the same write as the handshake
    return None


def nontrivial(case, obs):
    return True


def check(case, obs, tally):
    return []
