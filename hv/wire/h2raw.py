"""Raw HTTP/2 client: frame builder (hyperframe + hpack), stateless frame-level reader of the
server's output, an independent RFC 7540 §6.9 flow-control accountant, and a reactive client
policy object (H2Reactor) the driver consults at every quiescent point."""
from __future__ import annotations

import struct

import hpack
from hyperframe import frame as hf

MAGIC = b"PRI * HTTP/2.0\r\n\r\nSM\r\n\r\n"

S_HEADER_TABLE_SIZE = 1
S_ENABLE_PUSH = 2
S_MAX_CONCURRENT = 3
S_INITIAL_WINDOW = 4
S_MAX_FRAME = 5
S_MAX_HEADER_LIST = 6
S_ENABLE_CONNECT = 8


class FrameBuilder:
    def __init__(self):
        self.enc = hpack.Encoder()

    def preface(self, settings=None):
        return MAGIC + self.settings(settings or {})

    def settings(self, settings):
        f = hf.SettingsFrame(0)
        f.settings = dict(settings)
        return f.serialize()

    def settings_ack(self):
        return hf.SettingsFrame(0, flags=["ACK"]).serialize()

    def headers(self, sid, headers, end_stream=False, priority=None, pad=0, cont_split=None, huffman=True):
        block = self.enc.encode(headers, huffman=huffman)
        return self.headers_raw(sid, block, end_stream, priority, pad, cont_split)

    def headers_raw(self, sid, block, end_stream=False, priority=None, pad=0, cont_split=None):
        pieces = [block]
        if cont_split:
            pieces = []
            off = 0
            for n in cont_split:
                pieces.append(block[off:off + n])
                off += n
            pieces.append(block[off:])
            pieces = [p for i, p in enumerate(pieces) if p or i == 0]
        out = bytearray()
        flags = []
        if end_stream:
            flags.append("END_STREAM")
        if len(pieces) == 1:
            flags.append("END_HEADERS")
        f = hf.HeadersFrame(sid, data=pieces[0], flags=flags)
        if priority is not None:
            f.flags.add("PRIORITY")
            f.depends_on, f.stream_weight, f.exclusive = priority
        if pad:
            f.flags.add("PADDED")
            f.pad_length = pad
        out += f.serialize()
        for i, p in enumerate(pieces[1:]):
            last = i == len(pieces) - 2
            c = hf.ContinuationFrame(sid, data=p, flags=["END_HEADERS"] if last else [])
            out += c.serialize()
        return bytes(out)

    def data(self, sid, payload, end_stream=False, pad=0):
        f = hf.DataFrame(sid, data=payload, flags=["END_STREAM"] if end_stream else [])
        if pad:
            f.flags.add("PADDED")
            f.pad_length = pad
        return f.serialize()

    def window_update(self, sid, inc):
        f = hf.WindowUpdateFrame(sid)
        f.window_increment = inc
        return f.serialize()

    def rst(self, sid, code=8):
        f = hf.RstStreamFrame(sid)
        f.error_code = code
        return f.serialize()

    def ping(self, payload=b"\0" * 8, ack=False):
        f = hf.PingFrame(0, flags=["ACK"] if ack else [])
        f.opaque_data = payload
        return f.serialize()

    def goaway(self, last=0, code=0):
        f = hf.GoAwayFrame(0)
        f.last_stream_id = last
        f.error_code = code
        return f.serialize()

    def priority(self, sid, dep=0, weight=15, excl=False):
        f = hf.PriorityFrame(sid)
        f.depends_on, f.stream_weight, f.exclusive = dep, weight, excl
        return f.serialize()

    @staticmethod
    def raw_frame(type_, flags, sid, payload):
        return struct.pack(">I", len(payload))[1:] + bytes([type_, flags]) + struct.pack(">I", sid & 0x7FFFFFFF) + payload


class FrameReader:
    """Stateless (apart from HPACK and header-block assembly) reader of server output."""

    def __init__(self):
        self.buf = bytearray()
        self.dec = hpack.Decoder()
        self.dec.max_allowed_table_size = 65536
        self._hdr = None  # (sid, flags, bytearray) of a header block in progress
        self.errors = []
        self.raw_frames = 0

    def feed(self, data):
        """Returns a list of events (dicts)."""
        self.buf += data
        evs = []
        while len(self.buf) >= 9:
            try:
                f, length = hf.Frame.parse_frame_header(memoryview(self.buf)[:9])
            except Exception as e:
                self.errors.append("frame header: %r" % e)
                self.buf.clear()
                break
            if len(self.buf) < 9 + length:
                break
            body = bytes(self.buf[9:9 + length])
            del self.buf[:9 + length]
            try:
                f.parse_body(memoryview(body))
            except Exception as e:
                self.errors.append("frame body %s: %r" % (type(f).__name__, e))
                continue
            self.raw_frames += 1
            evs.extend(self._frame(f, length))
        return evs

    def _frame(self, f, length):
        if self._hdr is not None and not isinstance(f, hf.ContinuationFrame):
            self.errors.append("frame %s inside a header block" % type(f).__name__)
        if isinstance(f, hf.DataFrame):
            return [{"t": "data", "sid": f.stream_id, "data": f.data, "flow": length,
                     "end": "END_STREAM" in f.flags}]
        if isinstance(f, (hf.HeadersFrame, hf.PushPromiseFrame)):
            kind = "headers" if isinstance(f, hf.HeadersFrame) else "push"
            st = {"kind": kind, "sid": f.stream_id, "end": "END_STREAM" in f.flags, "buf": bytearray(f.data),
                  "promised": getattr(f, "promised_stream_id", None)}
            if "END_HEADERS" in f.flags:
                return self._finish_block(st)
            self._hdr = st
            return []
        if isinstance(f, hf.ContinuationFrame):
            if self._hdr is None or self._hdr["sid"] != f.stream_id:
                self.errors.append("unexpected CONTINUATION")
                return []
            self._hdr["buf"] += f.data
            if "END_HEADERS" in f.flags:
                st, self._hdr = self._hdr, None
                return self._finish_block(st)
            return []
        if isinstance(f, hf.SettingsFrame):
            return [{"t": "settings", "ack": "ACK" in f.flags, "settings": dict(f.settings)}]
        if isinstance(f, hf.WindowUpdateFrame):
            return [{"t": "window_update", "sid": f.stream_id, "inc": f.window_increment}]
        if isinstance(f, hf.RstStreamFrame):
            return [{"t": "rst", "sid": f.stream_id, "code": f.error_code}]
        if isinstance(f, hf.GoAwayFrame):
            return [{"t": "goaway", "last": f.last_stream_id, "code": f.error_code, "debug": f.additional_data}]
        if isinstance(f, hf.PingFrame):
            return [{"t": "ping", "ack": "ACK" in f.flags, "data": f.opaque_data}]
        if isinstance(f, hf.PriorityFrame):
            return [{"t": "priority", "sid": f.stream_id}]
        return [{"t": "other", "type": getattr(f, "type", None), "sid": f.stream_id}]

    def _finish_block(self, st):
        try:
            headers = [(bytes(n) if not isinstance(n, bytes) else n, bytes(v) if not isinstance(v, bytes) else v)
                       for n, v in self.dec.decode(bytes(st["buf"]), raw=True)]
        except Exception as e:
            self.errors.append("hpack: %r" % e)
            headers = None
        if st["kind"] == "push":
            return [{"t": "push", "sid": st["sid"], "promised": st["promised"], "headers": headers}]
        return [{"t": "headers", "sid": st["sid"], "headers": headers, "end": st["end"]}]


class StreamView:
    def __init__(self):
        self.heads = []  # list of header lists (informational..., final, trailers)
        self.data = bytearray()
        self.ended = 0
        self.rst = None
        self.frames_after_end = 0
        self.data_frames = 0
        self.first_t = None
        self.end_t = None

    @property
    def status(self):
        for h in self.heads:
            if h is None:
                continue  # a header block the decoder could not read (recorded in the reader's errors)
            st = dict(h).get(b":status")
            if st is not None and not st.startswith(b"1"):
                return int(st)
        return None

    def final_headers(self):
        for h in self.heads:
            if h is None:
                continue  # a header block the decoder could not read (recorded in the reader's errors)
            st = dict(h).get(b":status")
            if st is not None and not st.startswith(b"1"):
                return [(n, v) for n, v in h if not n.startswith(b":")]
        return None

    def trailers(self):
        seen_final = False
        for h in self.heads:
            if h is None:
                continue  # a header block the decoder could not read (recorded in the reader's errors)
            st = dict(h).get(b":status")
            if seen_final and st is None:
                return h
            if st is not None and not st.startswith(b"1"):
                seen_final = True
        return None


class H2Reactor:
    """Reactive HTTP/2 client.

    spec keys:
      initial_window   client's SETTINGS_INITIAL_WINDOW_SIZE as announced in the preface (default 65535)
      max_frame        client's SETTINGS_MAX_FRAME_SIZE (default 16384)
      credit           'auto' (return every DATA frame's length on stream and connection at once) |
                       'none' | 'conn_only' | 'stream_only'
      prio_after_credit  list of weights: every stream-level WINDOW_UPDATE is followed (same write) by a PRIORITY frame for that stream
      ack_settings     bool (default True)
      ack_ping         bool (default True)
    The accountant records a violation whenever the server sends DATA beyond a window/frame size.
    """

    def __init__(self, spec, trace):
        self.spec = spec
        self.trace = trace
        self.fb = FrameBuilder()
        self.rd = FrameReader()
        self.init_win = spec.get("initial_window", 65535)
        self.max_frame = spec.get("max_frame", 16384)
        self.conn_win = 65535
        self.win = {}
        self.streams = {}
        self.goaway = None
        self.goaways = []
        self.prio_sent = 0
        self.settings_seen = 0
        self.settings_acks = 0
        self.server_settings = {}
        self.violations = []
        self.pushes = []
        self.pending_init_win = []  # shrink applies when server ACKs
        self.pending_max_frame = []
        self.frames = []
        self.pings = []
        self.stream0_errors = []
        # client->server flow control (uploads): frames queued per stream, sent as the server's
        # windows permit.  spec["uploads"] = {sid: [[frame_bytes, flow_len], ...]}
        self.up_conn = 65535
        self.up_init = 65535
        self.up_win = {}
        self.uploads = {int(k): list(v) for k, v in (spec.get("uploads") or {}).items()}
        self.upload_started = not spec.get("uploads_wait", False)
        self.upload_blocked = 0
        self.drips = 0
        self._skip101 = bytearray() if spec.get("skip_h1_101") else None
        self.upgrade_head = None

    def sv(self, sid):
        s = self.streams.get(sid)
        if s is None:
            s = self.streams[sid] = StreamView()
            self.win.setdefault(sid, self.init_win)
        return s

    def open_stream(self, sid):
        self.win.setdefault(sid, self.init_win)

    # accounting of what the client itself sends ------------------------------------------------
    def sent_window_update(self, sid, inc):
        if sid == 0:
            self.conn_win += inc
        else:
            self.win[sid] = self.win.get(sid, self.init_win) + inc

    def sent_settings(self, settings):
        if S_INITIAL_WINDOW in settings:
            new = settings[S_INITIAL_WINDOW]
            delta = new - self.init_win
            if delta >= 0:
                for k in self.win:
                    self.win[k] += delta
                self.init_win = new
                self.pending_init_win.append(None)
            else:
                self.pending_init_win.append(new)
        else:
            self.pending_init_win.append(None)
        if S_MAX_FRAME in settings:
            new = settings[S_MAX_FRAME]
            if new >= self.max_frame:
                self.max_frame = new
                self.pending_max_frame.append(None)
            else:
                self.pending_max_frame.append(new)
        else:
            self.pending_max_frame.append(None)

    def _on_settings_ack(self):
        self.settings_acks += 1
        if self.pending_init_win:
            new = self.pending_init_win.pop(0)
            if new is not None:
                delta = new - self.init_win
                for k in self.win:
                    self.win[k] += delta
                self.init_win = new
        if self.pending_max_frame:
            new = self.pending_max_frame.pop(0)
            if new is not None:
                self.max_frame = new

    # ---------------------------------------------------------------------------------------------
    def react(self, data, now):
        if self._skip101 is not None and data:
            self._skip101 += data
            idx = self._skip101.find(b"\r\n\r\n")
            if idx < 0:
                return []
            self.upgrade_head = bytes(self._skip101[:idx + 4])
            data = bytes(self._skip101[idx + 4:])
            self._skip101 = None
        if not data:
            return self._drip() + self.pump()
        reply = bytearray()
        for ev in self.rd.feed(data):
            self.frames.append((now, ev["t"], ev.get("sid")))
            t = ev["t"]
            if t == "data":
                sid = ev["sid"]
                s = self.sv(sid)
                if s.ended or s.rst is not None:
                    s.frames_after_end += 1
                flow = ev["flow"]
                w = self.win.get(sid, self.init_win)
                if flow > w:
                    self.violations.append(("stream-window", sid, flow, w))
                if flow > self.conn_win:
                    self.violations.append(("conn-window", sid, flow, self.conn_win))
                if flow > self.max_frame:
                    self.violations.append(("max-frame", sid, flow, self.max_frame))
                self.win[sid] = w - flow
                self.conn_win -= flow
                s.data += ev["data"]
                s.data_frames += 1
                if s.first_t is None:
                    s.first_t = now
                if ev["end"]:
                    s.ended += 1
                    s.end_t = now
                credit = self.spec.get("credit", "auto")
                if flow and isinstance(credit, str) and credit != "none":
                    if credit in ("auto", "conn_only"):
                        reply += self.fb.window_update(0, flow)
                        self.sent_window_update(0, flow)
                    if credit in ("auto", "stream_only") and not ev["end"] and s.rst is None:
                        reply += self.fb.window_update(sid, flow)
                        self.sent_window_update(sid, flow)
                        if self.spec.get("prio_after_credit"):
                            # a client that re-weights the stream it has just given credit to (PRIORITY is the last frame about it)
                            ws = self.spec["prio_after_credit"]
                            reply += self.fb.priority(sid, dep=0, weight=ws[self.prio_sent % len(ws)])
                            self.prio_sent += 1
            elif t == "headers":
                s = self.sv(ev["sid"])
                if s.ended or s.rst is not None:
                    s.frames_after_end += 1
                s.heads.append(ev["headers"])
                if s.first_t is None:
                    s.first_t = now
                if ev["end"]:
                    s.ended += 1
                    s.end_t = now
            elif t == "rst":
                s = self.sv(ev["sid"])
                s.rst = ev["code"]
                s.end_t = now
            elif t == "settings":
                if ev["ack"]:
                    self._on_settings_ack()
                else:
                    self.settings_seen += 1
                    self.server_settings.update(ev["settings"])
                    if self.spec.get("ack_settings", True):
                        reply += self.fb.settings_ack()
            elif t == "goaway":
                self.goaway = ev
                self.goaways.append(ev)
            elif t == "ping":
                self.pings.append(ev)
                if not ev["ack"] and self.spec.get("ack_ping", True):
                    reply += self.fb.ping(ev["data"], ack=True)
            elif t == "push":
                self.pushes.append(ev)
                self.open_stream(ev["promised"])
            elif t == "window_update":
                if ev["sid"] == 0:
                    self.up_conn += ev["inc"]
                else:
                    self.up_win[ev["sid"]] = self.up_win.get(ev["sid"], self.up_init) + ev["inc"]
            if t == "settings" and not ev["ack"] and S_INITIAL_WINDOW in ev["settings"]:
                new = ev["settings"][S_INITIAL_WINDOW]
                for k in self.up_win:
                    self.up_win[k] += new - self.up_init
                self.up_init = new
        steps = []
        if reply:
            steps.append(["feed_nosettle", bytes(reply)])
        steps.extend(self._drip())
        steps.extend(self.pump())
        return steps

    def _drip(self):
        """credit == {"drip": n}: grant n bytes wherever a window is exhausted (called at quiescence)."""
        credit = self.spec.get("credit")
        if not isinstance(credit, dict) or "drip" not in credit or self.goaway_seen_fatal():
            return []
        n = credit["drip"]
        if self.drips >= credit.get("max", 100000):
            return []
        out = bytearray()
        order = credit.get("order", "stream_first")
        todo = []
        for sid, s in sorted(self.streams.items()):
            if not s.ended and s.rst is None and s.heads and self.win.get(sid, self.init_win) <= 0:
                todo.append(sid)
        if self.conn_win <= 0:
            todo = (todo + [0]) if order == "stream_first" else ([0] + todo)
        for sid in todo:
            out += self.fb.window_update(sid, n)
            self.sent_window_update(sid, n)
            self.drips += 1
        if self.spec.get("prio_after_credit"):
            ws = self.spec["prio_after_credit"]
            for sid in todo:
                if sid:
                    out += self.fb.priority(sid, dep=0, weight=ws[self.prio_sent % len(ws)])
                    self.prio_sent += 1
        return [["feed_nosettle", bytes(out)]] if out else []

    def goaway_seen_fatal(self):
        return self.goaway is not None and self.goaway.get("code", 0) != 0

    def pump(self):
        """Send queued upload frames, round-robin, one feed per frame, while windows permit."""
        if not self.upload_started:
            return []
        steps = []
        progress = True
        while progress:
            progress = False
            for sid in sorted(self.uploads):
                q = self.uploads[sid]
                if not q:
                    continue
                s = self.streams.get(sid)
                if s is not None and s.rst is not None:
                    q.clear()
                    continue
                frame, flow = q[0]
                w = self.up_win.get(sid, self.up_init)
                if flow <= w and flow <= self.up_conn:
                    q.pop(0)
                    self.up_win[sid] = w - flow
                    self.up_conn -= flow
                    steps.append(["feed_nosettle", frame])
                    progress = True
                else:
                    self.upload_blocked += 1
            if len(steps) >= 8:
                break
        return steps

    def command(self, args, now):
        """Scripted client actions expressed against the reactor so accounting stays right."""
        op = args[0]
        if op == "window_update":
            sid, inc = args[1], args[2]
            self.sent_window_update(sid, inc)
            return [["feed_nosettle", self.fb.window_update(sid, inc)]]
        if op == "credit_only":
            # the scripted client is about to send this WINDOW_UPDATE itself (inside a larger write): account for it, send nothing
            self.sent_window_update(args[1], args[2])
            return []
        if op == "settings":
            st = {int(k): v for k, v in args[1].items()}
            self.sent_settings(st)
            return [["feed_nosettle", self.fb.settings(st)]]
        if op == "pump":
            self.upload_started = True
            return self.pump()
        if op == "rst":
            sid = args[1]
            self.sv(sid).rst = "client"
            return [["feed_nosettle", self.fb.rst(sid, args[2] if len(args) > 2 else 8)]]
        raise ValueError(op)

    def errors(self):
        return list(self.rd.errors)


def client_preface(fb, reactor_spec):
    st = {}
    iw = reactor_spec.get("initial_window", 65535)
    mf = reactor_spec.get("max_frame", 16384)
    if iw != 65535:
        st[S_INITIAL_WINDOW] = iw
    if mf != 16384:
        st[S_MAX_FRAME] = mf
    for k, v in (reactor_spec.get("extra_settings") or {}).items():
        st[int(k)] = v
    return MAGIC + fb.settings(st)
