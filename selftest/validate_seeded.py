#!/venv/bin/python
"""selftest/validate_seeded.py <outdir> <name> <property> "<needs>"  — confirms a sub-agent's seeded change independently in a scratch
copy of /repo (suite still green with the change; demonstration fails with it and passes without), then stores it under
/verif/seeded/<name>/ with meta.json."""
import json, os, shutil, subprocess, sys, tempfile

out, name, prop, needs = sys.argv[1:5]
VERIF = "/verif"
patch = os.path.join(out, "patch.diff")
demo = next((os.path.join(out, f) for f in ("demo_test.py", "demo.py") if os.path.exists(os.path.join(out, f))), None)
assert demo and os.path.exists(patch), "missing patch or demo"
tmp = tempfile.mkdtemp(prefix="hv-val-")
log = {}
try:
    subprocess.check_call(["rsync", "-a", "--exclude", ".git", "/repo/", tmp + "/repo/"])
    repo = tmp + "/repo"
    env = dict(os.environ, PYTHONPATH=repo + "/src", HYPERCORN_SRC=repo + "/src")

    def run_demo():
        if demo.endswith("_test.py"):
            cmd = ["/venv/bin/python", "-m", "pytest", "-q", "-p", "no:cacheprovider", "--timeout=120", demo]
        else:
            cmd = ["/venv/bin/python", demo]
        r = subprocess.run(cmd, env=env, cwd=tmp, capture_output=True, text=True, timeout=300)
        return r.returncode, (r.stdout + r.stderr)[-400:]

    rc0, t0 = run_demo()
    log["demo_clean"] = {"exit": rc0, "tail": t0}
    r = subprocess.run(["patch", "-p1", "-s", "-d", repo], input=open(patch).read(), text=True, capture_output=True)
    log["patch_applies"] = r.returncode == 0
    if r.returncode != 0:
        log["patch_err"] = (r.stdout + r.stderr)[-300:]
    for attempt in range(3):  # the suite has timing-sensitive tests; retry under load
        tr = subprocess.run(["/venv/bin/python", "-m", "pytest", "-q", "-p", "no:cacheprovider", "--timeout=300", "--deselect",
                             "tests/asyncio/test_sanity.py::test_http2_websocket", "--deselect", "tests/trio/test_sanity.py::test_http2_websocket"],
                            cwd=repo, env=env, capture_output=True, text=True)
        log["suite_with_change"] = tr.stdout.strip().splitlines()[-1] if tr.stdout.strip() else "?"
        if "failed" not in log["suite_with_change"]:
            break
    rc1, t1 = run_demo()
    log["demo_changed"] = {"exit": rc1, "tail": t1}
    ok = rc0 == 0 and rc1 != 0 and log["patch_applies"] and "193 passed" in log["suite_with_change"] and "failed" not in log["suite_with_change"]
    log["confirmed"] = ok
    print(json.dumps(log, indent=1))
    if ok:
        dst = os.path.join(VERIF, "seeded", name)
        os.makedirs(dst, exist_ok=True)
        shutil.copy(patch, dst + "/patch.diff")
        shutil.copy(demo, dst + "/" + os.path.basename(demo))
        if os.path.exists(os.path.join(out, "notes.md")):
            shutil.copy(os.path.join(out, "notes.md"), dst + "/notes.md")
        meta = {"property": prop, "origin": "independent sub-agent given only the property text and a scratch worktree",
                "needs_to_manifest": needs,
                "validated": {"suite_with_change": log["suite_with_change"], "demo_on_clean_tree_exit": rc0, "demo_with_change_exit": rc1,
                              "how": "selftest/validate_seeded.py: rsync copy of /repo outside /repo and /verif, patch -p1, pytest, demo; copy removed"},
                "checks": [prop]}
        json.dump(meta, open(dst + "/meta.json", "w"), indent=1)
        print("stored", dst)
finally:
    shutil.rmtree(tmp, ignore_errors=True)
sys.exit(0 if log.get("confirmed") else 1)
