"""C03 — exactly-once disconnect and access record; sends after close are no-ops."""
from __future__ import annotations

import re

from ..wire import h1, ws
from ..wire.h2raw import FrameBuilder, client_preface

ID = "C03"
LEVEL = "fault_enumeration"
BUDGET = {"quick": 45, "thorough": 900}
TECHNIQUE = ("per-instance receive-history monitor on lingering scripted applications (exactly one disconnect, last), "
             "send-outcome monitor for state-valid messages after closure, access-log record counter keyed by unique path tag")
LEVEL_TEXT = ("Session shapes (HTTP/1 single / keep-alive / pipelined, HTTP/2 three streams, WebSocket over both carriers) x "
              "application timing (responds before/after reading, late after a trigger, never, raises) x closure source (client "
              "EOF, reset, write failure at a write index, keep-alive expiry, terminate) x closure position (random quiescent "
              "point; all in thorough) x schedule seeds, on both workers.")
LEVEL_NOTE = "Trusted: virtual-time closed world; the real Logger/AccessLogAtoms run behind a list handler."
RULE = ("cases sampled from the cross product; non-trivial = a closure event happened while at least one application "
        "instance was alive or lingering; distinct = distinct case hash")
ASSUMPTIONS = ["instances that already returned cannot be sent a disconnect (not judged)",
               "requests rejected by the HTTP parser before a stream exists need no access record"]
MIN_DECISIVE = {"disconnect-once": 50, "send-after-close": 30, "access-once": 50}
N_CASES = {"quick": 3000, "thorough": 80000}


def _plan(rng, tag, ws_kind=False):
    respond = rng.choice(["now", "now", "late", "never", "raise", "late_after_disconnect", "split_late", "trailers_late"])
    if ws_kind and respond == "trailers_late":
        respond = "late"
    read = rng.choice(["eager", "eager", "none"])
    return {"respond": respond, "read": read, "tag": tag}


def _http_script(p):
    tag = p["tag"]
    start = {"type": "http.response.start", "status": 200, "headers": [(b"content-length", b"4")]}
    body = {"type": "http.response.body", "body": b"done", "more_body": False}
    sc = []
    if p["read"] == "eager":
        sc.append(["recv_until_end"])
    elif p["read"] == "one":
        sc.append(["recv"])  # takes one message and answers in the same step
    r = p["respond"]
    if p.get("push_now"):
        # a push whose PUSH_PROMISE may still be waiting to be written (client not reading) when the connection goes
        sc.append(["wait", "pushgo"])
        sc.append(["send", {"type": "http.response.push", "path": "/pushed-now-%d" % tag, "headers": []}])
    if r == "now":
        sc += [["send", start], ["send", body]]
    elif r == "late":
        sc += [["wait", "late"], ["send", start], ["send", body]]
    elif r == "split_late":
        # the response has begun when the connection goes; its rest comes afterwards
        sc += [["send", start], ["wait", "late"], ["send", body]]
    elif r == "late_after_disconnect":
        # (a push among the late messages, where the protocol has pushes: it is a send like the others - accepted silently, and it starts
        #  nothing: an application instance started now could never be told of a disconnect that has already happened)
        sc += [["recv_until_disconnect"], ["note", "saw-disconnect"]] + ([["send", {"type": "http.response.push", "path": "/pushed-late-%d" % tag, "headers": []}]] if p.get("late_push") else []) + \
              [["send", start], ["send", body]]
    elif r == "trailers_late":
        # the response announced trailers and its body is complete when the connection goes; the trailers come afterwards
        sc += [["send", {"type": "http.response.start", "status": 200, "headers": [], "trailers": True}], ["send", body], ["wait", "late"],
               ["send", {"type": "http.response.trailers", "headers": [(b"x-t", b"1")], "more_trailers": False}]]
    elif r == "raise":
        sc += [["wait", "late"], ["raise", "Exception"]]
    sc.append(["linger", 40.0])
    return sc


def _ws_script(p):
    r = p["respond"]
    sc = [["recv"]]
    if p.get("ws_pre") == "raise_before_accept":
        return sc + [["raise", "Exception"]]
    if p.get("ws_pre") == "reject_close":
        return sc + [["send", {"type": "websocket.close"}], ["linger", 40.0]]
    if p.get("ws_pre") == "reject_http":
        return sc + [["send", {"type": "websocket.http.response.start", "status": 401, "headers": [(b"x-why", b"auth")]}],
                     ["send", {"type": "websocket.http.response.body", "body": b"de", "more_body": True}],
                     ["send", {"type": "websocket.http.response.body", "body": b"nied", "more_body": False}], ["linger", 40.0]]
    if p.get("ws_pre") == "slow_accept":
        sc += [["wait", "late"]]
    if r in ("now", "late_after_disconnect"):
        sc += [["send", {"type": "websocket.accept"}]]
        if r == "late_after_disconnect":
            sc += [["recv_until_disconnect"], ["note", "saw-disconnect"], ["send", {"type": "websocket.send", "text": "late"}],
                   ["send", {"type": "websocket.close"}]]
    elif r in ("late", "split_late"):
        sc += [["send", {"type": "websocket.accept"}], ["wait", "late"], ["send", {"type": "websocket.send", "text": "late"}]]
    elif r == "raise":
        sc += [["send", {"type": "websocket.accept"}], ["wait", "late"], ["raise", "Exception"]]
    elif r == "never":
        sc += [["send", {"type": "websocket.accept"}]]
    if p.get("ws_post") == "server_close_then_wait" and r in ("now", "never"):
        # the server side has said goodbye (its send buffer is gone on HTTP/2) but the application still awaits its disconnect
        sc += [["send", {"type": "websocket.close", "code": 1000}]]
    sc.append(["linger", 40.0])
    return sc


def gen(rng, tier):
    for i in range(N_CASES[tier]):
        h2_blocked = False
        by_path = {}
        shape = rng.choice(["h1.single", "h1.keepalive", "h1.pipelined", "h2.three", "ws.h11", "ws.h2"])
        by_tag, plans, client = {}, [], []
        T = 2.0
        config = {"keep_alive_timeout": T}
        reactor = None
        if shape.startswith("h1"):
            n = {"h1.single": 1, "h1.keepalive": 2, "h1.pipelined": 2}[shape]
            reqs = []
            for k in range(n):
                tag = i * 10 + k
                p = _plan(rng, tag)
                if shape != "h1.single" and k == 0 and p["respond"] in ("never", "late_after_disconnect", "split_late", "trailers_late"):
                    p["respond"] = "now"
                plans.append(p)
                by_tag[str(tag)] = _http_script(p)
                body = b"x" * rng.choice([0, 0, 10, 3000])
                if rng.random() < 0.2:
                    # more body messages than the application's queue holds (each chunk is one message): the reader is itself waiting for
                    # room when the application - which may never read them - ends its response, fails, or the connection goes
                    config["max_app_queue_size"] = q = rng.choice([2, 10])
                    nchunks = q + rng.choice([-2, -1, 0, 1, 2, 5])
                    if rng.random() < 0.4:
                        p["read"] = "one"
                        by_tag[str(tag)] = _http_script(p)
                    reqs.append(b"POST /t%d HTTP/1.1\r\nHost: h\r\ntransfer-encoding: chunked\r\n\r\n" % tag +
                                b"".join(b"2\r\nc%d\r\n" % (j % 10) for j in range(nchunks)) + b"0\r\n\r\n")
                    continue
                reqs.append(b"POST /t%d HTTP/1.1\r\nHost: h\r\ncontent-length: %d\r\n\r\n%s" % (tag, len(body), body))
            if shape == "h1.pipelined":
                client.append(["feed", b"".join(reqs)])
            else:
                for r in reqs:
                    client.append(["feed", r])
        elif shape == "h2.three":
            fb = FrameBuilder()
            blob = bytearray(client_preface(fb, {}))
            for k in range(3):
                tag = i * 10 + k
                p = _plan(rng, tag)
                p["late_push"] = rng.random() < 0.5
                plans.append(p)
                by_tag[str(tag)] = _http_script(p)
                if rng.random() < 0.25:
                    # an upload the client never finishes: the response can be complete while the stream is still open
                    p["read"] = "none"
                    by_tag[str(tag)] = _http_script(p)
                    blob += fb.headers(1 + 2 * k, [(b":method", b"POST"), (b":scheme", b"http"), (b":path", b"/t%d" % tag), (b":authority", b"h")], end_stream=False)
                    blob += fb.data(1 + 2 * k, b"partial-body", end_stream=False)
                else:
                    blob += fb.headers(1 + 2 * k, [(b":method", b"GET"), (b":scheme", b"http"), (b":path", b"/t%d" % tag), (b":authority", b"h")], end_stream=True)
            client.append(["feed", bytes(blob)])
            reactor = {"kind": "h2", "credit": "auto"}
            if rng.random() < 0.2:
                # the client is not reading: whatever the server writes (a PUSH_PROMISE among it) waits when the connection goes
                h2_blocked = True
                for p_ in plans:
                    p_["push_now"] = rng.random() < 0.7
                    by_tag[str(p_["tag"])] = _http_script(p_)
                    # (the pushed request's application writes nothing of its own accord: it waits to be told)
                    by_path["/pushed-now-%d" % p_["tag"]] = [["recv_until_disconnect"], ["linger", 40.0]]
                client = client + [["settle"], ["pause"], ["trigger", "pushgo"], ["settle"]]
        else:
            tag = i * 10
            p = _plan(rng, tag, True)
            p["ws_pre"] = rng.choice([None, None, None, "raise_before_accept", "slow_accept", "reject_close", "reject_http"])
            if p["ws_pre"] in ("reject_close", "reject_http"):
                p["respond"] = "now"
            if p["ws_pre"] == "raise_before_accept":
                p["respond"] = "raise"
            p["ws_post"] = rng.choice([None, None, "server_close_then_wait"])
            plans.append(p)
            by_tag[str(tag)] = _ws_script(p)
            if shape == "ws.h11":
                client.append(["feed", ws.handshake(path=b"/t%d" % tag)])
                client.append(["feed", ws.message_frames(ws.OP_TEXT, b"m1")])
                if rng.random() < 0.5:
                    # control frames and messages sharing one read: a reply that fails closes the connection mid-chunk
                    client.append(["feed", ws.frame(ws.OP_PING, b"p") + ws.message_frames(ws.OP_TEXT, b"m2") + ws.frame(ws.OP_PING, b"q") +
                                   ws.message_frames(ws.OP_TEXT, b"m3")])
                reactor = {"kind": "ws", "echo_close": rng.random() < 0.5}
            else:
                fb = FrameBuilder()
                hd = [(b":method", b"CONNECT"), (b":protocol", b"websocket"), (b":scheme", b"http"), (b":path", b"/t%d" % tag),
                      (b":authority", b"h"), (b"sec-websocket-version", b"13")]
                client.append(["feed", client_preface(fb, {}) + fb.headers(1, hd, end_stream=False)])
                client.append(["feed", fb.data(1, ws.message_frames(ws.OP_TEXT, b"m1"))])
                if rng.random() < 0.5:
                    client.append(["feed", fb.data(1, ws.frame(ws.OP_PING, b"p") + ws.message_frames(ws.OP_TEXT, b"m2") + ws.frame(ws.OP_PING, b"q") +
                                                   ws.message_frames(ws.OP_TEXT, b"m3"))])
                reactor = {"kind": "h2", "credit": "auto"}
        closure = rng.choice(["eof", "reset", "fail_write", "idle_expiry", "terminate", "ws_client_close" if shape.startswith("ws") else "eof"]
                             + (["client_goaway", "client_goaway"] if shape == "h2.three" else [])
                             + (["bad_chunk"] if shape == "h1.single" else []))
        if closure == "bad_chunk":
            # the server itself closes (an upload that stops being HTTP: after its 400, or without one when the response has begun) while
            # the application may still be about to send
            tag = plans[0]["tag"]
            plans[0]["respond"] = rng.choice(["split_late", "split_late", "late", "now"])
            plans[0]["read"] = rng.choice(["none", "none", "eager"])
            by_tag[str(tag)] = _http_script(plans[0])
            client = [["feed", b"POST /t%d HTTP/1.1\r\nHost: h\r\ntransfer-encoding: chunked\r\n\r\n3\r\nabc\r\n" % tag]]
            # ... and a client that is not reading at that moment: the 400 is still being written (the connection is not closed yet) when
            # the application's messages come
            blocked_400 = rng.random() < 0.5
            if blocked_400:
                client = [["pause"]] + client
        if shape == "h2.three" and rng.random() < 0.3:
            config["keep_alive_max_requests"] = rng.choice([1, 2])  # the server itself sends GOAWAY while applications are still running
        pos = rng.randint(0, len(client)) if closure != "bad_chunk" and not h2_blocked else len(client)
        step = {"eof": [["eof"]], "reset": [["reset"]], "fail_write": [["fail_write_at", rng.choice([1, 2, 3])]],
                "idle_expiry": [["advance", 2.5 * T]], "terminate": [["terminate"]],
                "ws_client_close": [["feed", ws.close_frame(rng.choice([1000, 1001, None]))]] if shape == "ws.h11" else [["eof"]],
                "client_goaway": [["feed", FrameBuilder().goaway(last=5, code=0)], ["eof"]],
                "bad_chunk": [["feed", b"zz\r\n"]]}[closure]
        client = client[:pos] + [["mark", "closure"]] + step + client[pos:]
        blocked_400 = closure == "bad_chunk" and blocked_400
        client += [["settle"], ["trigger", "late"], ["settle"]] + ([["resume"], ["settle"]] if blocked_400 else []) + [["advance", 2.5 * T], ["eof"], ["settle"]]
        case = {
            "family": "%s.%s" % (shape, closure) + (".write-blocked" if blocked_400 or h2_blocked else ""), "backends": ["asyncio", "trio"], "config": config,
            "conn": {"write_buffer": 16} if blocked_400 or h2_blocked else {},
            "apps": dict({"default": [["recv_until_end"], ["respond", 200, [], b"d"], ["linger", 40.0]], "by_tag": by_tag}, **({"by_path": by_path} if by_path else {})),
            "client": client, "truth": {"shape": shape, "plans": plans, "closure": closure, "pos": pos},
            "sched": {"seed": rng.randrange(1 << 30), "net_jitter": rng.choice([None, None, [0.3, 2]])}, "horizon": 300.0,
        }
        if reactor:
            case["reactor"] = reactor
        yield case


def nontrivial(case, obs):
    return "closure" in obs.marks and bool(obs.instances())


DISC = ("http.disconnect", "websocket.disconnect")


def check(case, obs, tally):
    out = []
    t = case["truth"]
    shape = t["shape"]
    proto = shape.split(".")[0] if not shape.startswith("ws") else shape.replace(".", "-")
    if obs.handler == "exception":
        out.append({"clause": "disconnect-once", "sig": "C03.handler-crashed/%s/%s" % (proto, t["closure"]),
                    "detail": "closure race crashed the connection handler: %s" % (obs.handler_exc or "")[-600:]})
        return out
    exits = obs.exits()
    plans = {p["tag"]: p for p in t["plans"]}
    starts = obs.app_events(kind="start")
    # known deadlock mechanism (C06): the disconnect is being put on a full queue from inside the app's own send
    blocked = obs.blocked_puts()
    open_sends = {e[4]["inst"]: e for e in obs.open_sends()}
    for e in starts:
        inst = e[4]["inst"]
        sc = e[4]["scope"]
        m = re.match(r"/t(\d+)", sc.get("path") or "")
        tag = int(m.group(1)) if m else None
        p = plans.get(tag)
        if p is None:
            if (sc.get("path") or "").startswith("/pushed-late"):
                # an instance started by a push that was sent after the connection had gone: it can never be told (its one disconnect
                # belongs to a connection that is over) - starting it is the violation
                tally.clause("disconnect-once")
                out.append({"clause": "disconnect-once", "sig": "C03.instance-started-after-closure/%s" % proto,
                            "detail": "http.response.push sent after the application had received its disconnect started instance %d (%s): received %r, %s" % (
                                inst, sc.get("path"), [r.get("type") for r in obs.apps.recvs[inst]], "stuck in a send" if inst in open_sends else "exit %r" % exits.get(inst))})
            elif (sc.get("path") or "").startswith("/pushed-now") and t["closure"] in ("reset", "fail_write") and e[0] > obs.marks.get("closure", {}).get("seq", 1 << 60) \
                    and not any(r.get("type") in DISC for r in obs.apps.recvs[inst]):
                # ... or by a push whose PUSH_PROMISE was still waiting to be written when the connection was lost: started afterwards,
                # never told
                tally.clause("disconnect-once")
                out.append({"clause": "disconnect-once", "sig": "C03.instance-started-after-closure/%s/promise-was-waiting" % proto,
                            "detail": "the PUSH_PROMISE was waiting for a client that does not read when the connection was lost (%s); instance %d (%s) was started "
                                      "after that and never received a disconnect: received %r" % (t["closure"], inst, sc.get("path"), [r.get("type") for r in obs.apps.recvs[inst]])})
            continue
        recvs = obs.apps.recvs[inst]
        kinds = [r.get("type") for r in recvs]
        ndisc = sum(1 for k in kinds if k in DISC)
        if inst in open_sends:
            if blocked.get(inst) in DISC:
                out.append({"clause": "disconnect-once", "sig": "C03.deadlock/disconnect-put-inside-own-send/%s" % proto,
                            "detail": "instance %d is stuck in send(); the server is delivering %s to its full queue" % (inst, blocked.get(inst))})
            else:
                out.append({"clause": "send-after-close", "sig": "C03.stuck-send/%s/%s" % (proto, t["closure"]),
                            "detail": "instance %d: send(%r) never returned (closure %s)" % (inst, open_sends[inst][4]["msg"].get("type"), t["closure"])})
            continue
        lingered = exits.get(inst) == "return" and p["respond"] != "raise"
        if lingered:
            tally.clause("disconnect-once")
            ended = True  # every case ends with the client closing the connection
            if ndisc != 1:
                out.append({"clause": "disconnect-once", "sig": "C03.disconnect-count-%d/%s/%s" % (min(ndisc, 2), proto, _when(t, p)),
                            "detail": "instance %d (tag %s, plan %s) received %d disconnect messages by the end of the connection; history %r (closure %s at step %d)" % (
                                inst, tag, p["respond"], ndisc, kinds, t["closure"], t["pos"])})
            elif kinds[-1] not in DISC:
                out.append({"clause": "disconnect-once", "sig": "C03.message-after-disconnect/%s" % proto,
                            "detail": "instance %d received %r after its disconnect" % (inst, kinds[kinds.index(next(k for k in kinds if k in DISC)) + 1:])})
        # ---- sends after closure must be accepted silently ----------------------------------
        # "after closure": after the instance has been handed its disconnect, or - whether or not it has looked - after the server itself
        # has closed the connection's transport
        srv_closed = [e[0] for e in obs.trace.events if e[2] == "net" and e[3] == "srv_close"]
        saw = None
        for ev in obs.app_events(inst=inst):
            if saw is None and srv_closed and ev[0] > srv_closed[0]:
                saw = srv_closed[0]
            if ev[3] == "recv" and ev[4]["msg"].get("type") in DISC:
                saw = ev[0] if saw is None else saw
            elif ev[3] == "send!" and saw is not None and ev[0] > saw:
                tally.clause("send-after-close")
                # the failing message: the preceding send? event
                prev = [x for x in obs.app_events(inst=inst, kind="send?") if x[0] < ev[0]][-1]
                out.append({"clause": "send-after-close", "sig": "C03.send-after-close-raised/%s/%s" % (proto, prev[4]["msg"].get("type")),
                            "detail": "instance %d: send(%s) after it had received its disconnect raised %s: %s" % (
                                inst, prev[4]["msg"].get("type"), ev[4].get("exc"), ev[4].get("text", "")[:120])})
                break
            elif ev[3] == "send." and saw is not None and ev[0] > saw:
                tally.clause("send-after-close")
    # ---- access records: exactly one per request for which a scope existed -----------------------
    per_path = {}
    for r in obs.access:
        a = r.get("atoms") or {}
        per_path.setdefault(a.get("U"), []).append(a.get("s"))
    for e in starts:
        sc = e[4]["scope"]
        path = sc.get("path")
        inst = e[4]["inst"]
        if inst in open_sends:
            continue
        tally.clause("access-once")
        recs = per_path.get(path, [])
        if len(recs) == 1 and sc.get("type") == "websocket" and proto == "ws-h11":
            # ... and the record is of what happened: a handshake answered by a complete response (a refusal) is recorded with that
            # response's status, not as a request that got none
            try:
                rs, _ = h1.parse_responses(bytes(obs.outbytes), [("GET", "1.1")], True)
            except h1.Malformed:
                rs = []
            if rs and rs[0].complete and rs[0].status >= 400 and str(recs[0]) != str(rs[0].status):
                out.append({"clause": "access-once", "sig": "C03.access-status/%s/%s-recorded-as-%s" % (proto, rs[0].status, recs[0]),
                            "detail": "request %s was answered by a complete %d response; its access record says status %r" % (path, rs[0].status, recs[0])})
        if len(recs) != 1:
            m = re.match(r"/t(\d+)", path or "")
            p = plans.get(int(m.group(1))) if m else None
            out.append({"clause": "access-once", "sig": "C03.access-count-%d/%s/%s" % (min(len(recs), 2), proto, _when(t, p) if p else "?"),
                        "detail": "request %s produced %d access records (statuses %r); plan %s, closure %s" % (
                            path, len(recs), recs, p["respond"] if p else None, t["closure"])})
    return out


def _when(t, p):
    r = p["respond"]
    if r == "late_after_disconnect":
        return "response-after-disconnect"
    if r == "late":
        return "response-after-closure"
    if r == "split_late":
        return "response-across-closure"
    if r == "trailers_late":
        return "response-awaiting-trailers"
    if r == "raise":
        return "app-raises"
    if r == "never":
        return "no-response"
    return "response-before-closure"
