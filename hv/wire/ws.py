"""WebSocket client side: handshake builder, raw frame builder (arbitrary fragmentation, RSV bits,
masking), incremental parser of the server's frames (with permessage-deflate inflate), and a
reactive client (WSReactor) for the HTTP/1.1 carrier.  RFC 6455 accept token via hashlib."""
from __future__ import annotations

import base64
import hashlib
import struct
import zlib

GUID = b"258EAFA5-E914-47DA-95CA-C5AB0DC85B11"

OP_CONT, OP_TEXT, OP_BIN, OP_CLOSE, OP_PING, OP_PONG = 0, 1, 2, 8, 9, 10


def accept_token(key: bytes) -> bytes:
    return base64.b64encode(hashlib.sha1(key + GUID).digest())


def handshake(path=b"/ws", key=b"dGhlIHNhbXBsZSBub25jZQ==", version=b"13", host=b"ws.example",
              subprotocols=None, extensions=None, extra=None, upgrade=b"websocket", connection=b"Upgrade",
              method=b"GET", http_version=b"1.1"):
    lines = [method + b" " + path + b" HTTP/" + http_version]
    if host is not None:
        lines.append(b"Host: " + host)
    if upgrade is not None:
        lines.append(b"Upgrade: " + upgrade)
    if connection is not None:
        lines.append(b"Connection: " + connection)
    if key is not None:
        lines.append(b"Sec-WebSocket-Key: " + key)
    if version is not None:
        lines.append(b"Sec-WebSocket-Version: " + version)
    if subprotocols:
        lines.append(b"Sec-WebSocket-Protocol: " + b", ".join(subprotocols))
    if extensions:
        lines.append(b"Sec-WebSocket-Extensions: " + extensions)
    for n, v in (extra or []):
        lines.append(n + b": " + v)
    return b"\r\n".join(lines) + b"\r\n\r\n"


def frame(opcode, payload=b"", fin=True, mask=b"\x11\x22\x33\x44", rsv1=False, rsv2=False, rsv3=False):
    b0 = (0x80 if fin else 0) | (0x40 if rsv1 else 0) | (0x20 if rsv2 else 0) | (0x10 if rsv3 else 0) | opcode
    n = len(payload)
    mbit = 0x80 if mask is not None else 0
    if n < 126:
        head = bytes([b0, mbit | n])
    elif n < 65536:
        head = bytes([b0, mbit | 126]) + struct.pack(">H", n)
    else:
        head = bytes([b0, mbit | 127]) + struct.pack(">Q", n)
    if mask is None:
        return head + payload
    m = mask
    if n:
        key = (m * (n // 4 + 1))[:n]
        masked = (int.from_bytes(payload, "big") ^ int.from_bytes(key, "big")).to_bytes(n, "big")
    else:
        masked = b""
    return head + m + masked


def message_frames(opcode, payload, cuts=(), mask=b"\x11\x22\x33\x44", compress=None, pings=None):
    """One message as frames fragmented at `cuts` (byte offsets into the wire payload).
    compress: a zlib compressobj (raw) -> permessage-deflate.  pings: {fragment index: ping payload}."""
    rsv1 = False
    if compress is not None:
        payload = compress.compress(payload) + compress.flush(zlib.Z_SYNC_FLUSH)
        assert payload.endswith(b"\x00\x00\xff\xff")
        payload = payload[:-4] or b"\x00"  # RFC 7692 7.2.3.6: an empty message is a single 0x00 octet
        rsv1 = True
    cuts = sorted(set(c for c in cuts if 0 <= c <= len(payload)))
    pieces, prev = [], 0
    for c in cuts:
        pieces.append(payload[prev:c])
        prev = c
    pieces.append(payload[prev:])
    out = bytearray()
    for i, p in enumerate(pieces):
        if pings and i in pings and i > 0:
            out += frame(OP_PING, pings[i], mask=mask)
        out += frame(opcode if i == 0 else OP_CONT, p, fin=(i == len(pieces) - 1), mask=mask,
                     rsv1=(rsv1 and i == 0))
    return bytes(out)


def close_frame(code=None, reason=b"", mask=b"\x11\x22\x33\x44"):
    payload = b"" if code is None else struct.pack(">H", code) + reason
    return frame(OP_CLOSE, payload, mask=mask)


class FrameParser:
    """Incremental parser of server->client frames."""

    def __init__(self, deflate=False, server_no_context_takeover=False):
        self.buf = bytearray()
        self.errors = []
        self.frames = []  # (fin, rsv1, opcode, payload)
        self.messages = []  # (type 'text'|'bytes', payload bytes or str)
        self.pings, self.pongs = [], []
        self.close = None  # (code, reason)
        self.after_close = 0
        self._cur = None
        self._deflate = deflate
        self._nct = server_no_context_takeover
        self._inflater = zlib.decompressobj(-15) if deflate else None

    def feed(self, data):
        self.buf += data
        while True:
            if len(self.buf) < 2:
                return
            b0, b1 = self.buf[0], self.buf[1]
            n = b1 & 0x7F
            off = 2
            if n == 126:
                if len(self.buf) < 4:
                    return
                n = struct.unpack(">H", self.buf[2:4])[0]
                off = 4
            elif n == 127:
                if len(self.buf) < 10:
                    return
                n = struct.unpack(">Q", self.buf[2:10])[0]
                off = 10
            if b1 & 0x80:
                self.errors.append("server frame is masked")
                off += 4
            if len(self.buf) < off + n:
                return
            payload = bytes(self.buf[off:off + n])
            del self.buf[:off + n]
            self._frame(bool(b0 & 0x80), bool(b0 & 0x40), b0 & 0x0F, payload, b0 & 0x30)

    def _frame(self, fin, rsv1, op, payload, rsv23):
        self.frames.append((fin, rsv1, op, len(payload)))
        if self.close is not None:
            self.after_close += 1
        if rsv23:
            self.errors.append("RSV2/3 set")
        if op >= 8:
            if not fin or len(payload) > 125:
                self.errors.append("bad control frame")
            if op == OP_CLOSE:
                if len(payload) >= 2:
                    self.close = (struct.unpack(">H", payload[:2])[0], payload[2:])
                elif len(payload) == 0:
                    self.close = (None, b"")
                else:
                    self.errors.append("1-byte close payload")
                    self.close = (None, b"")
            elif op == OP_PING:
                self.pings.append(payload)
            elif op == OP_PONG:
                self.pongs.append(payload)
            else:
                self.errors.append("unknown control opcode %d" % op)
            return
        if op in (OP_TEXT, OP_BIN):
            if self._cur is not None:
                self.errors.append("new data frame inside a fragmented message")
            self._cur = [op, bytearray(), rsv1]
            if rsv1 and not self._deflate:
                self.errors.append("RSV1 without negotiated permessage-deflate")
        elif op == OP_CONT:
            if self._cur is None:
                self.errors.append("continuation without a message")
                return
            if rsv1:
                self.errors.append("RSV1 on continuation")
        else:
            self.errors.append("unknown data opcode %d" % op)
            return
        self._cur[1] += payload
        if fin:
            op0, data, comp = self._cur
            self._cur = None
            data = bytes(data)
            if comp and self._deflate:
                try:
                    data = self._inflater.decompress(data + b"\x00\x00\xff\xff")
                    if self._nct:
                        self._inflater = zlib.decompressobj(-15)
                except zlib.error as e:
                    self.errors.append("inflate: %r" % e)
            if op0 == OP_TEXT:
                try:
                    self.messages.append(("text", data.decode("utf-8")))
                except UnicodeDecodeError:
                    self.errors.append("invalid UTF-8 in text message")
                    self.messages.append(("text", data))
            else:
                self.messages.append(("bytes", data))


class WSReactor:
    """Reactive WebSocket client over the HTTP/1.1 carrier.

    spec: {"kind": "ws", "pong": bool, "echo_close": bool}
    Splits the server's byte stream into the HTTP response head and the frame stream."""

    def __init__(self, spec, trace):
        self.spec = spec
        self.trace = trace
        self.head = None
        self._hbuf = bytearray()
        self.status = None
        self.headers = []
        self.parser = None
        self.http_body = bytearray()
        self.replied_close = False
        self._mask = b"\x37\xfa\x21\x3d"

    def react(self, data, now):
        if not data:
            return []
        if self.head is None:
            self._hbuf += data
            idx = self._hbuf.find(b"\r\n\r\n")
            if idx < 0:
                return []
            self.head = bytes(self._hbuf[:idx + 4])
            data = bytes(self._hbuf[idx + 4:])
            lines = self.head[:-4].split(b"\r\n")
            try:
                self.status = int(lines[0].split(b" ")[1])
            except Exception:
                self.status = -1
            for ln in lines[1:]:
                n, _, v = ln.partition(b":")
                self.headers.append((n.strip().lower(), v.strip()))
            ext = [v for n, v in self.headers if n == b"sec-websocket-extensions"]
            deflate = any(b"permessage-deflate" in v for v in ext)
            nct = any(b"server_no_context_takeover" in v for v in ext)
            self.parser = FrameParser(deflate, nct)
        if self.status != 101:
            self.http_body += data
            return []
        n_pings = len(self.parser.pings)
        had_close = self.parser.close is not None
        self.parser.feed(data)
        reply = bytearray()
        if self.spec.get("pong", True):
            for p in self.parser.pings[n_pings:]:
                reply += frame(OP_PONG, p, mask=self._mask)
        if self.parser.close is not None and not had_close and self.spec.get("echo_close", True) and not self.replied_close:
            self.replied_close = True
            code = self.parser.close[0]
            reply += close_frame(code, mask=self._mask)
        if reply:
            return [["feed_nosettle", bytes(reply)]]
        return []

    def command(self, args, now):
        raise ValueError(args)

    def header(self, name):
        return [v for n, v in self.headers if n == name]
