"""A real importable ASGI application for process-level runs (hypercorn.run.run with workers): answers every request with the
pid of the worker that took it on and appends one line per event to the file named by HV_PROC_LOG (O_APPEND writes of one short line
are atomic, so several workers can share it)."""
import os
import time


def _log(kind, what):
    p = os.environ.get("HV_PROC_LOG")
    if p:
        fd = os.open(p, os.O_WRONLY | os.O_APPEND | os.O_CREAT, 0o600)
        try:
            os.write(fd, ("%.6f %d %s %s\n" % (time.monotonic(), os.getpid(), kind, what)).encode())
        finally:
            os.close(fd)


async def app(scope, receive, send):
    if scope["type"] == "lifespan":
        while True:
            m = await receive()
            if m["type"] == "lifespan.startup":
                _log("lifespan", "startup")
                await send({"type": "lifespan.startup.complete"})
            elif m["type"] == "lifespan.shutdown":
                _log("lifespan", "shutdown")
                await send({"type": "lifespan.shutdown.complete"})
                return
    elif scope["type"] == "http":
        _log("start", scope["path"])
        while True:
            m = await receive()
            if m["type"] != "http.request" or not m.get("more_body"):
                break
        if scope["path"].startswith("/slow"):
            import sniffio

            delay = float(scope["query_string"].decode() or "0.3")
            if sniffio.current_async_library() == "trio":
                import trio

                await trio.sleep(delay)
            else:
                import asyncio

                await asyncio.sleep(delay)
        body = b"pid=%d path=%s" % (os.getpid(), scope["path"].encode())
        await send({"type": "http.response.start", "status": 200, "headers": [(b"content-length", b"%d" % len(body))]})
        await send({"type": "http.response.body", "body": body})
        _log("done", scope["path"])


async def failing_app(scope, receive, send):
    """Start-up fails (lifespan.startup.failed); were the server to serve all the same, requests are answered (and logged)."""
    if scope["type"] == "lifespan":
        await receive()
        _log("lifespan", "startup")
        await send({"type": "lifespan.startup.failed", "message": "no database"})
        await receive()
    else:
        await app(scope, receive, send)


async def raising_app(scope, receive, send):
    """Raises inside the lifespan scope (no lifespan support): the server serves without lifespan."""
    if scope["type"] == "lifespan":
        raise RuntimeError("lifespan not supported")
    await app(scope, receive, send)


async def failing_once_app(scope, receive, send):
    """Start-up succeeds in the first worker that gets hold of the lock file named by HV_PROC_LOCK and fails in every other one: an
    asymmetric failure (a port, a lock, a connection limit one process got and the next did not)."""
    if scope["type"] == "lifespan":
        try:
            os.close(os.open(os.environ["HV_PROC_LOCK"], os.O_CREAT | os.O_EXCL | os.O_WRONLY, 0o600))
        except FileExistsError:
            await receive()
            _log("lifespan", "startup-failing")
            await send({"type": "lifespan.startup.failed", "message": "lock held by another worker"})
            await receive()
            return
    await app(scope, receive, send)
