"""C06 — HTTP/1.x persistent-connection and pipelining safety."""
from __future__ import annotations

import re

from .. import gen as G
from ..apps.script import pattern
from ..wire import h1

ID = "C06"
LEVEL = "exploration"
BUDGET = {"quick": 40, "thorough": 600}
TECHNIQUE = ("trace-order monitor (application start vs. last wire byte of the previous response), strict response "
             "splitter, per-instance tagged-body check, and a reference must-close predicate written from the statement")
LEVEL_TEXT = ("Seeded exploration of pipelines of 1-6 requests with arbitrary bodies, Connection headers and segmentations, "
              "applications answering before/while/after reading or never reading, keep_alive_max_requests from 1 up, "
              "HTTP/1.0 and 1.1, on both workers; ordering is decided on global trace sequence numbers.")
LEVEL_NOTE = "Trusted: hv/wire/h1 parser, in-memory transport; no transport pausing in this property's cases."
RULE = ("pipelines x segmentation (one read, per request, 1-byte, boundary inside a read) x app reading mode x "
        "keep_alive_max_requests {1,2,3,1000} x Connection header spellings x HTTP version; non-trivial = at least two "
        "requests were sent on the connection or a must-close condition was present; distinct = distinct case hash")
ASSUMPTIONS = ["announcing close when the only reason is an unread request body is not demanded (statement's list)"]
MIN_DECISIVE = {"serial": 20, "no-interleave": 20, "body-isolation": 20, "must-close": 10, "reuse": 10, "aborted-stops-pipeline": 10, "malformed-announces-close": 10}
N_CASES = {"quick": 2500, "thorough": 60000}

CONN_VALUES = [None, None, None, b"keep-alive", b"close", b"Close", b"CLOSE", b"keep-alive, close", b"foo, close", b"Keep-Alive"]


def _app(rng, tag, mode):
    start = {"type": "http.response.start", "status": 200, "headers": [(b"x-tag", b"%d" % tag)]}
    if rng.random() < 0.2:
        # legal and redundant: the application itself says keep-alive (the server's own decisions - the per-connection maximum, the
        # client's close - must not depend on whether the application already named the header)
        start["headers"].append((rng.choice([b"connection", b"Connection"]), rng.choice([b"keep-alive", b"Keep-Alive", b"keep-alive, x-foo"])))
    body = {"type": "http.response.body", "body": b"resp-%d" % tag, "more_body": False}
    if mode == "after":
        return [["recv_until_end"], ["send", start], ["send", body]]
    if mode == "before":
        return [["send", start], ["send", body], ["recv_until_end"]]
    if mode == "while":
        return [["recv"], ["send", start], ["recv_until_end"], ["send", body]]
    if mode == "never":
        return [["send", start], ["send", body]]
    if mode == "held":
        return [["recv_until_end"], ["wait", "go%d" % tag], ["send", start], ["yield", rng.choice([0, 2])], ["send", body]]
    if mode == "slow":
        return [["recv_until_end"], ["yield", rng.choice([1, 5])], ["send", start], ["yield", rng.choice([1, 3])], ["send", body]]
    raise ValueError(mode)


def wants_close(req):
    v = req.get("connection")
    if v is None:
        return False
    return any(t.strip().lower() == b"close" for t in v.split(b","))


def _gen_aborted(rng, tier):
    """Pipelines whose k-th response is aborted by a transport failure (a write that fails, a reset): nothing behind it may be processed."""
    for i in range(150 if tier == "quick" else 4000):
        nreq = rng.choice([2, 2, 3, 4])
        victim = rng.randrange(nreq - 1)
        by_tag, datas = {}, []
        base = 5000000 + i * 10
        for k in range(nreq):
            tag = base + k
            chunks = [b"r%d-%d;" % (tag, j) * rng.choice([1, 40]) for j in range(rng.choice([1, 2, 3]))]
            sc = [["recv_until_end"], ["send", {"type": "http.response.start", "status": 200, "headers": [(b"x-tag", b"%d" % tag)]}]]
            for j, c in enumerate(chunks):
                sc.append(["send", {"type": "http.response.body", "body": c, "more_body": j < len(chunks) - 1}])
            if rng.random() < 0.3:
                sc.append(["sleep", 0.5])  # the instance outlives its response
            by_tag[str(tag)] = sc
            datas.append(b"GET /t%d HTTP/1.1\r\nHost: h\r\n\r\n" % tag)
        # writes of a response: head, one per body chunk, (the final zero chunk); the victim's writes start after the earlier responses'
        fault = "fail_write"
        client = []
        if fault == "fail_write":
            client.append(["fail_write_at", rng.randint(1, 2 + 4 * (victim + 1))])
        blob = b"".join(datas)
        client.append(["feed_split", blob, [len(blob)]] if rng.random() < 0.6 else ["feed_split", blob, G.gen_splits(rng, len(blob), "k")])
        client += [["settle"], ["advance", 1.0], ["settle"]]
        yield {"family": "aborted.%s" % fault, "backends": ["asyncio", "trio"], "config": {"keep_alive_timeout": 5000}, "conn": {},
               "apps": {"default": [["recv_until_end"], ["respond", 200, [], b"d"]], "by_tag": by_tag}, "client": client,
               "truth": {"kind": "aborted", "fault": fault, "tags": [base + k for k in range(nreq)]},
               "sched": {"seed": rng.randrange(1 << 30)}, "horizon": 100.0}


def _gen_malformed(rng, tier):
    """A pipeline in which request k has a valid head but a body that violates its framing: the requests before it are answered, request k
    gets an error response announcing close, the connection closes, nothing behind it is processed."""
    for i in range(120 if tier == "quick" else 3000):
        nreq = rng.choice([1, 2, 3])
        bad = rng.randrange(nreq)
        base = 5500000 + i * 10
        datas, by_tag = [], {}
        for k in range(nreq + 1):  # one more request behind the malformed one
            tag = base + k
            by_tag[str(tag)] = _app(rng, tag, "after")
            if k == bad:
                good = b"".join(b"%x\r\n%s\r\n" % (n_, b"y" * n_) for n_ in [rng.choice([1, 5, 300]) for _ in range(rng.choice([0, 1, 3]))])
                junk = rng.choice([b"zz\r\nab\r\n", b"5\r\nabcdefgh\r\n", b"-1\r\n", b"\r\n\r\n", b"5\nabcde\n", b"0x5\r\nabcde\r\n"])
                datas.append(b"POST /t%d HTTP/1.1\r\nHost: h\r\nTransfer-Encoding: chunked\r\n\r\n" % tag + good + junk)
            else:
                datas.append(b"GET /t%d HTTP/1.1\r\nHost: h\r\n\r\n" % tag)
        blob = b"".join(datas)
        seg = rng.choice(["one", "k", "per_request"])
        client = ([["feed_split", blob, [len(blob)]]] if seg == "one" else [["feed_split", blob, G.gen_splits(rng, len(blob), "k")]] if seg == "k"
                  else [["feed", d] for d in datas]) + [["settle"]]
        yield {"family": "malformed-body.%s" % seg, "backends": ["asyncio", "trio"], "config": {"keep_alive_timeout": 5000}, "conn": {},
               "apps": {"default": [["recv_until_end"], ["respond", 200, [], b"d"]], "by_tag": by_tag}, "client": client,
               "truth": {"kind": "malformed", "bad": bad, "tags": [base + k for k in range(nreq + 1)]},
               "sched": {"seed": rng.randrange(1 << 30)}, "horizon": 100.0}


def _gen_cut_by_eof(rng, tier):
    """A pipeline whose last message is aborted by the client itself: it half-closes in the middle of the head or of the body.  Like a
    malformed message: the requests before it are answered, the aborted one gets an error response announcing close, the connection closes."""
    for i in range(60 if tier == "quick" else 1500):
        nreq = rng.choice([1, 2, 3])
        bad = nreq - 1
        base = 5700000 + i * 10
        datas, by_tag = [], {}
        for k in range(nreq):
            tag = base + k
            by_tag[str(tag)] = _app(rng, tag, "after")
            if k == bad:
                how = rng.choice(["cl_body", "chunked_body", "head", "head_fields"])
                if how == "cl_body":
                    datas.append(b"POST /t%d HTTP/1.1\r\nHost: h\r\nContent-Length: 10\r\n\r\n" % tag + b"x" * rng.choice([0, 4, 9]))
                elif how == "chunked_body":
                    datas.append(b"POST /t%d HTTP/1.1\r\nHost: h\r\nTransfer-Encoding: chunked\r\n\r\n" % tag + rng.choice([b"", b"5\r\nab", b"3\r\nabc\r\n", b"3\r\nabc\r\n0\r\n"]))
                elif how == "head":
                    datas.append(b"GET /t%d HTT" % tag)
                else:
                    datas.append(b"GET /t%d HTTP/1.1\r\nHost: h\r\nX-Cut: ye" % tag)
            else:
                datas.append(b"GET /t%d HTTP/1.1\r\nHost: h\r\n\r\n" % tag)
        blob = b"".join(datas)
        seg = rng.choice(["one", "k", "per_request", "bytes"])
        client = ([["feed_split", blob, [len(blob)]]] if seg == "one" else [["feed_split", blob, G.gen_splits(rng, len(blob), "k")]] if seg == "k"
                  else [["feed_split", blob, G.gen_splits(rng, len(blob), "bytes")]] if seg == "bytes" and len(blob) < 400
                  else [["feed", d] for d in datas]) + [["settle"], ["eof"], ["settle"]]
        yield {"family": "cut-by-eof.%s.%s" % (how, seg), "backends": ["asyncio", "trio"], "config": {"keep_alive_timeout": 5000}, "conn": {},
               "apps": {"default": [["recv_until_end"], ["respond", 200, [], b"d"]], "by_tag": by_tag}, "client": client,
               "truth": {"kind": "malformed", "bad": bad, "tags": [base + k for k in range(nreq + 1)], "cut": how},
               "sched": {"seed": rng.randrange(1 << 30)}, "horizon": 100.0}


def _gen_early_answer(rng, tier):
    """The application answers while the request body is still incomplete and the client does not send the rest: request and response are
    not both complete, so the connection cannot be reused - the response has to say so (connection: close) and the server closes after it."""
    for i in range(30 if tier == "quick" else 600):
        tag = 5900000 + i
        how = rng.choice(["cl", "chunked"])
        if how == "cl":
            head = b"POST /t%d HTTP/1.1\r\nHost: h\r\nContent-Length: %d\r\n\r\n" % (tag, rng.choice([10, 100000])) + b"x" * rng.choice([0, 4])
        else:
            head = b"POST /t%d HTTP/1.1\r\nHost: h\r\nTransfer-Encoding: chunked\r\n\r\n" % tag + rng.choice([b"", b"3\r\nabc\r\n"])
        by_tag = {str(tag): _app(rng, tag, rng.choice(["never", "before"]))}
        yield {"family": "early-answer-incomplete-body." + how, "backends": ["asyncio", "trio"], "config": {"keep_alive_timeout": 5000}, "conn": {},
               "apps": {"default": [["recv_until_end"], ["respond", 200, [], b"d"]], "by_tag": by_tag},
               "client": [["feed", head], ["settle"], ["advance", 1.0], ["settle"]],
               "truth": {"kind": "early-answer", "tag": tag}, "sched": {"seed": rng.randrange(1 << 30)}, "horizon": 100.0}


def _gen_unread_upload(rng, tier):
    """A request body of more messages than the application's queue holds (the reader is waiting for room), and an application that ends
    its response having read none or only some of them - from its own task or from a child task.  The response is complete: the
    connection is closed after it (announced), nothing hangs, and the request pipelined behind is not processed."""
    for i in range(40 if tier == "quick" else 800):
        tag = 6100000 + i * 10
        q = rng.choice([10, 10, 2])
        nch = q + rng.choice([0, 1, 2, 6])
        start = {"type": "http.response.start", "status": 200, "headers": [(b"x-tag", b"%d" % tag)]}
        body = {"type": "http.response.body", "body": b"resp-%d" % tag, "more_body": False}
        mode = rng.choice(["never", "partial", "child-never", "child-partial"])
        sends = [["send", start], ["send", body]]
        sc = ([["recv_n", rng.choice([1, 2])]] if "partial" in mode else []) + ([["child", sends]] if mode.startswith("child") else sends) + [["linger", 1.0]]
        behind = rng.random() < 0.5
        data = (b"POST /t%d HTTP/1.1\r\nHost: h\r\nTransfer-Encoding: chunked\r\n\r\n" % tag + b"".join(b"3\r\nc%02d\r\n" % (k % 100) for k in range(nch)) + b"0\r\n\r\n" +
                (b"GET /t%d HTTP/1.1\r\nHost: h\r\n\r\n" % (tag + 1) if behind else b""))
        yield {"family": "unread-upload.%s" % mode, "backends": ["asyncio", "trio"], "config": {"keep_alive_timeout": 5000, "max_app_queue_size": q}, "conn": {},
               "apps": {"default": [["recv_until_end"], ["respond", 200, [], b"d"]], "by_tag": {str(tag): sc, str(tag + 1): _app(rng, tag + 1, "after")}},
               "client": [["feed", data], ["settle"], ["advance", 2.0], ["settle"]],
               "truth": {"kind": "unread-upload", "tag": tag, "behind": behind, "mode": mode, "nch": nch, "q": q}, "sched": {"seed": rng.randrange(1 << 30)}, "horizon": 100.0}


def _gen_app_aborted(rng, tier):
    """A response the *application* leaves unfinished (it returns or fails after the response start: short of the declared length, or a
    chunked body without its end): an aborted message - the server closes after it, nothing pipelined behind it is served."""
    for i in range(60 if tier == "quick" else 1500):
        nreq = rng.choice([2, 2, 3, 4])
        victim = rng.randrange(nreq - 1) if rng.random() < 0.8 else nreq - 1
        by_tag, datas = {}, []
        base = 5600000 + i * 10
        how = rng.choice(["return", "raise"])
        framing = rng.choice(["cl", "chunked"])
        for k in range(nreq):
            tag = base + k
            if k == victim:
                hdrs = [(b"x-tag", b"%d" % tag)] + ([(b"content-length", b"100")] if framing == "cl" else [])
                sc = [["recv_until_end"], ["send", {"type": "http.response.start", "status": 200, "headers": hdrs}]]
                if rng.random() < 0.7:
                    sc.append(["send", {"type": "http.response.body", "body": b"part-%d;" % tag, "more_body": True}])
                sc.append(["return"] if how == "return" else ["raise", "Exception"])
            else:
                sc = [["recv_until_end"], ["respond", 200, [(b"x-tag", b"%d" % tag)], b"whole-%d" % tag]]
            by_tag[str(tag)] = sc
            datas.append(b"GET /t%d HTTP/1.1\r\nHost: h\r\n\r\n" % tag)
        blob = b"".join(datas)
        client = [["feed_split", blob, [len(blob)]] if rng.random() < 0.6 else ["feed_split", blob, G.gen_splits(rng, len(blob), "k")],
                  ["settle"], ["advance", 1.0], ["settle"]]
        yield {"family": "app-aborted.%s.%s" % (framing, how), "backends": ["asyncio", "trio"], "config": {"keep_alive_timeout": 5000}, "conn": {},
               "apps": {"default": [["recv_until_end"], ["respond", 200, [], b"d"]], "by_tag": by_tag}, "client": client,
               "truth": {"kind": "app-aborted", "tags": [base + k for k in range(nreq)], "victim": victim},
               "sched": {"seed": rng.randrange(1 << 30)}, "horizon": 100.0}


def _gen_slow_second(rng, tier):
    """Pipelined requests of which a later one takes longer than keep_alive_timeout to answer: it was accepted (it is in the server's hands
    when the previous response ends), so it is answered - the idle timer has no business with a connection that is serving."""
    for i in range(16 if tier == "quick" else 300):
        T = 1.0
        base = 5700000 + i * 10
        n = rng.choice([2, 3])
        slow = rng.randrange(1, n)
        by_tag, datas = {}, []
        for k in range(n):
            tag = base + k
            sc = [["recv_until_end"]] + ([["sleep", rng.choice([2.5, 4.0]) * T]] if k == slow else []) + [["respond", 200, [(b"x-tag", b"%d" % tag)], b"r-%d" % tag]]
            by_tag[str(tag)] = sc
            datas.append(b"GET /t%d HTTP/1.1\r\nHost: h\r\n\r\n" % tag)
        blob = b"".join(datas)
        yield {"family": "pipelined-slow-later-request", "backends": ["asyncio", "trio"], "config": {"keep_alive_timeout": T}, "conn": {},
               "apps": {"default": [["recv_until_end"], ["respond", 200, [], b"d"]], "by_tag": by_tag},
               "client": [["feed_split", blob, [len(blob)]], ["settle"], ["advance", 4.5 * T], ["settle"]],
               "truth": {"kind": "slow-second", "tags": [base + k for k in range(n)]}, "sched": {"seed": rng.randrange(1 << 30)}, "horizon": 100.0}


def _gen_self_answered(rng, tier):
    """A request the server answers itself (Host not among server_names: 404, announcing close) whose body the client never finishes: the
    announced close happens - the client that has its final answer is not waited for."""
    for i in range(12 if tier == "quick" else 200):
        tag = 5800000 + i
        framing = rng.choice(["cl", "chunked"])
        head = b"POST /t%d HTTP/1.1\r\nHost: other.example\r\n" % tag + (b"Content-Length: 100\r\n\r\n0123456789" if framing == "cl" else b"Transfer-Encoding: chunked\r\n\r\n5\r\nhello\r\n")
        split = rng.choice([None, len(head) - 10]) if framing == "cl" else None
        client = ([["feed", head]] if split is None else [["feed", head[:split]], ["settle"], ["feed", head[split:]]]) + [["settle"], ["advance", 2.0], ["settle"]]
        yield {"family": "self-answered.incomplete-body." + framing, "backends": ["asyncio", "trio"], "config": {"keep_alive_timeout": 5000, "server_names": ["h.example"]},
               "conn": {}, "apps": {"default": [["recv_until_end"], ["respond", 200, [], b"d"]]}, "client": client,
               "truth": {"kind": "self-answered", "tag": tag}, "sched": {"seed": rng.randrange(1 << 30)}, "horizon": 100.0}


def gen(rng, tier):
    yield from _gen_self_answered(rng, tier)
    yield from _gen_slow_second(rng, tier)
    yield from _gen_app_aborted(rng, tier)
    yield from _gen_unread_upload(rng, tier)
    yield from _gen_early_answer(rng, tier)
    yield from _gen_aborted(rng, tier)
    yield from _gen_malformed(rng, tier)
    yield from _gen_cut_by_eof(rng, tier)
    for i in range(N_CASES[tier]):
        nreq = rng.choice([1, 2, 2, 3, 4, 6])
        maxreq = rng.choice([1, 2, 3, 1000, 1000, 1000])
        reqs, by_tag, datas, modes = [], {}, [], []
        for k in range(nreq):
            tag = i * 10 + k
            version = "1.0" if rng.random() < 0.12 else "1.1"
            size = rng.choice([0, 0, 3, 100, 5000, 70000, 100 * 1024])
            req = G.gen_request(rng, tag, version, tier, body_sizes=[size], methods=["POST" if size else "GET", "PUT" if size else "DELETE"])
            req["connection"] = rng.choice(CONN_VALUES)
            if req["connection"] is not None:
                req["headers"] = list(req["headers"]) + [(b"Connection", req["connection"])]
                req["ows"] = (req.get("ows") or []) + [b" "]
            mode = rng.choice(["after", "after", "before", "while", "never", "slow", "held", "held"])
            # number of http.request messages the body produces (upper bound) decides whether "never" can deadlock
            modes.append(mode)
            by_tag[str(tag)] = _app(rng, tag, mode)
            reqs.append(req)
            datas.append(G.serialize_h1(req))
        blob = b"".join(datas)
        seg = rng.choice(["one", "per_request", "bytes", "k", "boundary"])
        if seg == "one":
            client = [["feed_split", blob, [len(blob)]]]
        elif seg == "per_request":
            client = [["feed", d] for d in datas]
        elif seg == "bytes":
            client = [["feed_split", blob, G.gen_splits(rng, len(blob), "bytes")]]
        elif seg == "k":
            client = [["feed_split", blob, G.gen_splits(rng, len(blob), "k")]]
        else:
            # a read boundary placed just around a request boundary
            b = len(datas[0]) + rng.choice([-3, -1, 0, 1, 3]) if nreq > 1 else max(1, len(blob) // 2)
            b = min(max(1, b), len(blob) - 1) if len(blob) > 1 else 1
            client = [["feed_split", blob, [b, len(blob) - b]]]
        client.append(["settle"])
        # responses that were held back are released one by one, in order, only after all the bytes have been read
        for k, m in enumerate(modes):
            if m == "held":
                client += [["trigger", "go%d" % reqs[k]["tag"]], ["settle"]]
        yield {
            "family": "pipeline%d.%s" % (nreq, seg), "backends": ["asyncio", "trio"],
            "config": {"keep_alive_timeout": 5000, "keep_alive_max_requests": maxreq,
                       "max_app_queue_size": rng.choice([10, 10, 2])},
            "conn": {}, "apps": {"default": [["recv_until_end"], ["respond", 200, [], b"d"]], "by_tag": by_tag},
            "client": client, "truth": {"requests": reqs, "modes": modes, "maxreq": maxreq},
            "sched": {"seed": rng.randrange(1 << 30)}, "horizon": 100.0,
        }


def nontrivial(case, obs):
    t = case["truth"]
    if t.get("kind") == "aborted":
        return any(e[2] == "net" and e[3] == "write_error" for e in obs.trace.events)
    if t.get("kind") in ("malformed", "early-answer", "unread-upload", "app-aborted", "slow-second", "self-answered"):
        return True
    return len(t["requests"]) > 1 or t["maxreq"] == 1 or any(wants_close(r) or r["version"] == "1.0" for r in t["requests"])


def check(case, obs, tally):
    out = []
    t = case["truth"]
    reqs = t.get("requests")
    if obs.handler == "exception":
        tally.inconclusive["handler-crashed(C04)"] += 1
        return out
    if t.get("kind") == "malformed":
        tally.clause("malformed-announces-close")
        bad = t["bad"]
        try:
            resps, _ = h1.parse_responses(obs.outbytes, [("GET", "1.1")] * 8, obs.closed_at is not None)
        except h1.Malformed as e:
            out.append({"clause": "malformed-announces-close", "sig": "C06.malformed/unparseable-output", "detail": str(e)})
            return out
        done = [r for r in resps if r.complete]
        if len(done) < bad or any(r.status != 200 for r in done[:bad]):
            out.append({"clause": "malformed-announces-close", "sig": "C06.malformed/earlier-requests-not-answered",
                        "detail": "%d requests precede the malformed one; complete responses: %r" % (bad, [r.status for r in done])})
            return out
        mine = done[bad] if len(done) > bad else None
        toks = [x.strip().lower() for v in (mine.header(b"connection") if mine else []) for x in v.split(b",")]
        if mine is None or not (400 <= mine.status < 500) or b"close" not in toks:
            out.append({"clause": "malformed-announces-close", "sig": "C06.malformed/no-error-response-announcing-close",
                        "detail": "request #%d is malformed / cut short by the client's EOF (%s); the client got %r (headers %r)" % (
                            bad + 1, t.get("cut", "malformed body"), mine.status if mine else None, mine.headers if mine else None)})
        if obs.closed_at is None:
            out.append({"clause": "malformed-announces-close", "sig": "C06.malformed/not-closed", "detail": "connection still open at quiescence"})
        later = [e for e in obs.app_events(kind="start") if e[4]["scope"].get("path") == "/t%d" % t["tags"][bad + 1]]
        if later or len(done) > bad + 1:
            out.append({"clause": "malformed-announces-close", "sig": "C06.malformed/request-behind-processed",
                        "detail": "the request pipelined behind the malformed one was processed"})
        return out
    if t.get("kind") == "unread-upload":
        tally.clause("must-close")
        stuck = obs.open_sends()
        if stuck:
            m = stuck[0][4]["msg"]
            out.append({"clause": "must-close", "sig": "C06.deadlock/h1/unread-upload/%s" % ("child-task" if t["mode"].startswith("child") else "own-task"),
                        "detail": "%d body messages for a queue of %d, application (%s) %s: its send(%s) never returned; blocked deliveries %r" % (
                            t["nch"] + 1, t["q"], t["mode"], "answered from a child task" if t["mode"].startswith("child") else "answered",
                            m.get("type"), obs.blocked_puts())})
            return out
        try:
            resps, _ = h1.parse_responses(obs.outbytes, [("POST", "1.1"), ("GET", "1.1")], obs.closed_at is not None)
        except h1.Malformed as e:
            out.append({"clause": "must-close", "sig": "C06.unread-upload/unparseable-output", "detail": str(e)})
            return out
        done = [r for r in resps if r.complete]
        if not done or done[0].status != 200 or done[0].body != b"resp-%d" % t["tag"]:
            out.append({"clause": "must-close", "sig": "C06.unread-upload/response-lost", "detail": "first response: %r" % (done[0].as_dict() if done else None,)})
        if obs.closed_at is not None and obs.handler not in ("ok",):
            # (with the whole request read and the whole response written the connection may as well be kept alive: then nothing is amiss)
            out.append({"clause": "must-close", "sig": "C06.unread-upload/handler-left-behind", "detail": "closed, but handler=%s tasks_left=%r" % (obs.handler, obs.tasks_left)})
        return out
    if t.get("kind") == "early-answer":
        tally.clause("must-close")
        try:
            resps, _ = h1.parse_responses(obs.outbytes, [("POST", "1.1")], obs.closed_at is not None)
        except h1.Malformed as e:
            out.append({"clause": "must-close", "sig": "C06.early-answer/unparseable-output", "detail": str(e)})
            return out
        r = resps[0] if resps else None
        if r is None or not r.complete or r.status != 200:
            tally.inconclusive["early-answer-not-delivered"] += 1
            return out
        toks = [x.strip().lower() for v in r.header(b"connection") for x in v.split(b",")]
        if obs.closed_at is not None and b"close" not in toks:
            out.append({"clause": "must-close", "sig": "C06.close-not-announced/early-answer", "detail":
                        "the application answered while the request body was incomplete; the server closed the connection after the response without "
                        "having announced it (response headers %r)" % (r.headers,)})
        elif obs.closed_at is None:
            out.append({"clause": "must-close", "sig": "C06.not-closed-after-must-close/early-answer",
                        "detail": "request body incomplete, response complete, connection still open at quiescence"})
        return out
    if t.get("kind") == "self-answered":
        tally.clause("must-close")
        head = bytes(obs.outbytes)
        if not head.startswith(b"HTTP/1.1 404") or b"connection: close" not in head.lower() or obs.closed_at is None or obs.app_events(kind="start"):
            out.append({"clause": "must-close", "sig": "C06.self-answered/not-closed-after-announcing-close",
                        "detail": "request for a Host not served here, body never completed: response %r, connection closed at %r, applications started %d" % (
                            head[:60], obs.closed_at, len(obs.app_events(kind="start")))})
        return out
    if t.get("kind") == "slow-second":
        tally.clause("serial")
        try:
            resps, _ = h1.parse_responses(bytes(obs.outbytes), [("GET", "1.1")] * len(t["tags"]), obs.closed_at is not None)
        except h1.Malformed as e:
            return [{"clause": "serial", "sig": "C06.slow-later-request/malformed", "detail": str(e)}]
        got = [(r.status, bytes(r.body), r.complete) for r in resps]
        want = [(200, b"r-%d" % tg, True) for tg in t["tags"]]
        if got != want:
            out.append({"clause": "serial", "sig": "C06.slow-later-request/not-answered", "detail": "pipelined requests %r, one of them slower than keep_alive_timeout: "
                        "responses %r (connection closed at %r)" % (t["tags"], got, obs.closed_at)})
        return out
    if t.get("kind") == "app-aborted":
        tally.clause("app-aborted-closes")
        starts = [e[4]["scope"].get("path") for e in obs.app_events(kind="start")]
        want = ["/t%d" % x for x in t["tags"][:t["victim"] + 1]]
        if obs.closed_at is None:
            out.append({"clause": "app-aborted-closes", "sig": "C06.app-aborted/connection-left-open",
                        "detail": "the application of request #%d left its response unfinished; a second later the connection is still open (started: %r)" % (
                            t["victim"], starts)})
        if starts != want:
            out.append({"clause": "app-aborted-closes", "sig": "C06.app-aborted/pipeline-served-after",
                        "detail": "applications started %r, expected %r (nothing behind the aborted response)" % (starts, want)})
        return out
    if t.get("kind") == "aborted":
        lost = next((e for e in obs.trace.events if e[2] == "net" and e[3] == "write_error"), None)
        if lost is None:
            tally.notes["aborted:no-write-failed"] += 1
            return out
        tally.clause("aborted-stops-pipeline")
        later = [e for e in obs.app_events(kind="start") if e[0] > lost[0]]
        if later:
            out.append({"clause": "aborted-stops-pipeline", "sig": "C06.request-processed-after-aborted-response",
                        "detail": "a write of a response failed at seq %d (the client is gone), yet %d pipelined request(s) were then started: %r" % (
                            lost[0], len(later), [e[4]["scope"].get("path") for e in later])})
        return out
    # ---- known deadlock mechanism: response finished while more body messages than the queue holds are unread
    open_sends = obs.open_sends()
    starts = [(e[0], e[4]["inst"], e[4]["scope"]) for e in obs.app_events(kind="start")]
    tag_of = {}
    for seq, inst, sc in starts:
        m = re.match(rb"/+t(\d+)", sc.get("raw_path") or b"")
        tag_of[inst] = int(m.group(1)) if m else -1
    idx_of_tag = {r["tag"]: k for k, r in enumerate(reqs)}
    if open_sends:
        blocked = obs.blocked_puts()
        for e in open_sends:
            inst = e[4]["inst"]
            k = idx_of_tag.get(tag_of.get(inst))
            qb = (case.get("config") or {}).get("max_app_queue_size", 10)
            unread = k is not None and len(obs.apps.bodies[inst]) < len(reqs[k]["body"])
            if blocked.get(inst) == "http.disconnect" and unread:
                # the server is delivering http.disconnect to a full queue from inside the application's own send()
                out.append({"clause": "progress", "sig": "C06.deadlock/h1/unread-body-over-queue-bound",
                            "detail": "instance %d (request %d, mode %s, %d of %d body bytes read, queue bound %d) is stuck inside send(%s): "
                                      "http.disconnect is being put on its full queue" % (
                                          inst, k, t["modes"][k], len(obs.apps.bodies[inst]), len(reqs[k]["body"]), qb, e[4]["msg"].get("type"))})
            else:
                out.append({"clause": "progress", "sig": "C06.stuck-send/h1/%s" % (t["modes"][k] if k is not None else "?"),
                            "detail": "send() never returned: %r (blocked deliveries: %r)" % (e[4]["msg"], blocked)})
        return out
    closed = obs.closed_at is not None
    data = obs.outbytes
    try:
        resps, pos = h1.parse_responses(data, [(r["method"], r["version"]) for r in reqs], closed)
    except h1.Malformed as e:
        out.append({"clause": "no-interleave", "sig": "C06.malformed-output", "detail": str(e)})
        return out
    # ---- reference: which requests must be served, where the connection must stop ---------
    stop_after = None  # index of the request after whose response the server must close
    for k, r in enumerate(reqs):
        if wants_close(r) or r["version"] == "1.0" or (k + 1) >= t["maxreq"]:
            stop_after = k
            break
    served_expected = len(reqs) if stop_after is None else stop_after + 1
    misuse = (stop_after is not None and stop_after < len(reqs) - 1
              and (wants_close(reqs[stop_after]) or reqs[stop_after]["version"] == "1.0"))
    if misuse:
        served_expected = stop_after
    # unread bodies ("never"/"before" finishing early) may legitimately end the connection early: ND
    early_end_possible = None
    for k in range(served_expected):
        if t["modes"][k] in ("never", "before", "while") and reqs[k]["framing"] is not None:
            early_end_possible = k
            break
    n_started = len(starts)
    # ---- no-interleave + order -------------------------------------------------------------
    tally.clause("no-interleave")
    complete = [r for r in resps if r.complete]
    for k, r in enumerate(complete):
        if k >= len(reqs):
            out.append({"clause": "no-interleave", "sig": "C06.extra-response", "detail": "more responses than requests"})
            break
        xt = r.header(b"x-tag")
        if misuse and k == stop_after:
            # ND: the client pipelined bytes after a request that itself asked to close (protocol misuse); h11
            # reports them as an error: a 400 may take the place of that request's response, or the response
            # may be cut short by the close.  Only "closed" and "nothing further processed" are demanded.
            tally.notes["data-after-client-close(ND):status-%s" % r.status] += 1
            continue
        if xt != [b"%d" % reqs[k]["tag"]] or r.body != b"resp-%d" % reqs[k]["tag"]:
            out.append({"clause": "no-interleave", "sig": "C06.response-order",
                        "detail": "response %d carries tag %r body %r, expected tag %d" % (k, xt, r.body[:30], reqs[k]["tag"])})
    # ---- serial: start(k+1) after the last wire byte of response k -----------------------
    writes = []  # (seq, cumulative end offset)
    off = 0
    for e in obs.trace.events:
        if e[2] == "net" and e[3] == "write":
            off += e[4]["n"]
            writes.append((e[0], off))
    start_seq = {}
    for seq, inst, sc in starts:
        k = idx_of_tag.get(tag_of.get(inst))
        if k is not None:
            start_seq.setdefault(k, seq)
    for k in range(len(complete) - 0):
        if k + 1 in start_seq and k < len(complete):
            tally.clause("serial")
            end = complete[k].end
            last_seq = next((s for s, o in writes if o >= end), None)
            if last_seq is None or start_seq[k + 1] < last_seq:
                out.append({"clause": "serial", "sig": "C06.overlap/start-before-previous-response-end",
                            "detail": "instance for request %d started at seq %d, response %d finished at seq %r" % (
                                k + 1, start_seq[k + 1], k, last_seq)})
    for k in start_seq:
        if k > 0 and (k - 1) >= len(complete):
            out.append({"clause": "serial", "sig": "C06.overlap/start-without-previous-response",
                        "detail": "request %d started although response %d is not complete on the wire" % (k, k - 1)})
    # ---- body isolation ---------------------------------------------------------------------
    for seq, inst, sc in starts:
        k = idx_of_tag.get(tag_of.get(inst))
        if k is None:
            out.append({"clause": "body-isolation", "sig": "C06.unknown-instance", "detail": "instance with unknown tag"})
            continue
        tally.clause("body-isolation")
        got = bytes(obs.apps.bodies[inst])
        exp = reqs[k]["body"]
        if not exp.startswith(got):
            out.append({"clause": "body-isolation", "sig": "C06.foreign-bytes",
                        "detail": "instance for request %d received bytes that are not a prefix of its own body" % k})
    # ---- must-close -------------------------------------------------------------------------
    if misuse:
        tally.clause("must-close")
        if not closed:
            out.append({"clause": "must-close", "sig": "C06.not-closed-after-must-close/misuse",
                        "detail": "server still open at quiescence after a client-close request followed by more bytes"})
        if n_started > stop_after + 1:
            out.append({"clause": "must-close", "sig": "C06.served-after-must-close",
                        "detail": "%d instances started although the connection had to stop after request %d" % (n_started, stop_after)})
    elif stop_after is not None and len(complete) > stop_after:
        tally.clause("must-close")
        r = complete[stop_after]
        toks = [x.strip().lower() for v in r.header(b"connection") for x in v.split(b",")]
        if b"close" not in toks:
            out.append({"clause": "must-close", "sig": "C06.close-not-announced",
                        "detail": "response %d must announce close (reason: %s) headers=%r" % (
                            stop_after, _why(reqs[stop_after], stop_after, t["maxreq"]), r.headers)})
        if not closed:
            out.append({"clause": "must-close", "sig": "C06.not-closed-after-must-close",
                        "detail": "server still open at quiescence after must-close response %d" % stop_after})
        if n_started > stop_after + 1 or len(complete) > stop_after + 1:
            out.append({"clause": "must-close", "sig": "C06.served-after-must-close",
                        "detail": "%d instances started / %d responses although the connection had to stop after request %d" % (
                            n_started, len(complete), stop_after)})
    # ---- reuse ------------------------------------------------------------------------------
    upto = served_expected if early_end_possible is None else min(served_expected, early_end_possible + 1)
    tally.clause("reuse")
    if len(complete) < upto:
        out.append({"clause": "reuse", "sig": "C06.reuse-refused",
                    "detail": "only %d complete responses; %d requests had to be served (closed=%r, started=%d)" % (
                        len(complete), upto, closed, n_started)})
    if early_end_possible is not None and len(complete) <= early_end_possible + 1 and len(complete) < served_expected:
        tally.notes["closed-after-unread-body(ND)"] += 1
        if not closed:
            out.append({"clause": "reuse", "sig": "C06.stalled/neither-served-nor-closed",
                        "detail": "after response %d with unread body the server neither serves request %d nor closes" % (
                            len(complete) - 1, len(complete))})
    return out


def _why(req, k, maxreq):
    if wants_close(req):
        return "client Connection: close"
    if req["version"] == "1.0":
        return "HTTP/1.0"
    return "keep_alive_max_requests=%d" % maxreq
