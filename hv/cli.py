import argparse
import os
import sys

from . import runner


def main():
    ap = argparse.ArgumentParser()
    ap.add_argument("pid")
    ap.add_argument("--tier", default=os.environ.get("VERIF_TIER") or "quick")
    ap.add_argument("--seed", type=int, default=None)
    ap.add_argument("--replay", default=None)
    a = ap.parse_args()
    seed = a.seed
    if seed is None:
        try:
            seed = int(os.environ.get("VERIF_SEED", "1"))
        except ValueError:
            seed = 1
    if a.tier not in ("quick", "thorough"):
        a.tier = "quick"
    if a.replay:
        sys.exit(runner.replay(a.pid, a.replay))
    sys.exit(runner.main_check(a.pid, a.tier, seed))


if __name__ == "__main__":
    main()
