"""C04 — no client input causes an internal error; HTTP/2 faults stay on their stream."""
from __future__ import annotations

import random

from .. import gen as G
from ..wire import h1, ws
from ..wire.h2raw import MAGIC, FrameBuilder, client_preface

ID = "C04"
LEVEL = "exploration"
BUDGET = {"quick": 45, "thorough": 900}
TECHNIQUE = ("crash monitor on the real connection handler (handler result, loop exception handler, unraisable hook, "
             "warnings) under byte-level fuzzing and grammar-generated HTTP/2; shadow h11/h2 state machines for the "
             "hinted-4xx and GOAWAY clauses; tagged sibling streams for isolation")
LEVEL_TEXT = ("Seeded exploration: random bytes, bit/byte/splice/truncate mutations of valid HTTP/1, HTTP/2 and WebSocket "
              "sessions, and grammar-generated legal-but-rare HTTP/2 frame sequences, each under several segmentations on "
              "both workers; every execution is watched for unhandled exceptions and the named stream-level oddities are "
              "run next to well-formed tagged sibling streams that must complete.")
LEVEL_NOTE = "Trusted: shadow h11/h2 state machines used only to classify inputs (malformed / connection error)."
RULE = ("inputs = seeded mutations (flip, replace, insert, delete, duplicate, truncate, splice) of generated valid sessions, "
        "random bytes, and grammar-built HTTP/2 sequences (PRIORITY floods, RST/WINDOW_UPDATE on closed streams, "
        "CONTINUATION, padding, request trailers, plain CONNECT, non-ASCII paths, DATA after response); non-trivial = "
        "the server read at least one byte and the crash monitor was evaluated; distinct = distinct case hash")
ASSUMPTIONS = ["which 4xx is hinted is h11's decision (shadow h11 run on the same reads)",
               "a shadow h2 server connection decides whether an HTTP/2 byte stream is a connection error"]
MIN_DECISIVE = {"crash": 100, "isolation": 10, "hint": 5, "goaway": 5}
N_CASES = {"quick": 3000, "thorough": 150000}

OK_APP = [["recv_until_end"], ["try_send", {"type": "http.response.start", "status": 200, "headers": [(b"x-ok", b"1")]}],
          ["try_send", {"type": "http.response.body", "body": b"OK", "more_body": False}]]
WS_APP = [["recv"], ["try_send", {"type": "websocket.accept"}], ["ws_echo"]]


def tag_app(tag):
    return [["recv_until_end"],
            ["try_send", {"type": "http.response.start", "status": 200, "headers": [(b"x-tag", b"%d" % tag)]}],
            ["try_send", {"type": "http.response.body", "body": b"body-%d" % tag, "more_body": False}]]


def mutate(rng, data, other=None):
    data = bytearray(data)
    for _ in range(rng.choice([1, 1, 2, 3])):
        if not data:
            data += bytes(rng.randrange(256) for _ in range(4))
        op = rng.choice(["flip", "replace", "insert", "delete", "dup", "trunc", "splice", "ctl"])
        i = rng.randrange(len(data))
        if op == "flip":
            data[i] ^= 1 << rng.randrange(8)
        elif op == "replace":
            data[i] = rng.randrange(256)
        elif op == "insert":
            data[i:i] = bytes(rng.randrange(256) for _ in range(rng.choice([1, 2, 9, 30])))
        elif op == "delete":
            del data[i:i + rng.choice([1, 2, 9, 40])]
        elif op == "dup":
            j = min(len(data), i + rng.choice([1, 9, 20, 100]))
            data[i:i] = data[i:j]
        elif op == "trunc":
            del data[i:]
        elif op == "splice" and other:
            j = rng.randrange(len(other))
            data[i:] = other[j:]
        elif op == "ctl":
            data[i] = rng.choice([0, 10, 13, 32, 58, 0x7F, 0xFF])
    return bytes(data)


def _valid_h1(rng, n):
    reqs = []
    out = bytearray()
    for i in range(rng.choice([1, 1, 2])):
        r = G.gen_request(rng, n * 10 + i, rng.choice(["1.1", "1.1", "1.0"]), body_sizes=[0, 3, 40, 300])
        out += G.serialize_h1(r)
        reqs.append(r)
    return bytes(out)


def _valid_h2(rng, n, fb=None):
    fb = fb or FrameBuilder()
    out = bytearray(client_preface(fb, {}))
    for i in range(rng.choice([1, 2, 3])):
        r = G.gen_request(rng, n * 10 + i, "2", body_sizes=[0, 3, 40, 300])
        out += G.serialize_h2(fb, r, 1 + 2 * i)
    return bytes(out)


def _valid_ws(rng, n):
    out = bytearray(ws.handshake(path=b"/t%d" % n, extensions=rng.choice([None, b"permessage-deflate"])))
    for i in range(rng.choice([1, 2, 4])):
        op = rng.choice([ws.OP_TEXT, ws.OP_BIN])
        payload = ("m%d-%d" % (n, i)).encode() * rng.choice([1, 3, 30])
        cuts = [rng.randrange(len(payload))] if rng.random() < 0.4 else []
        out += ws.message_frames(op, payload, cuts)
        if rng.random() < 0.3:
            out += ws.frame(ws.OP_PING, b"p%d" % i)
    if rng.random() < 0.5:
        out += ws.close_frame(1000)
    return bytes(out)


def _base(rng, family, data, splits=None, extra=None):
    case = {
        "family": family, "backends": ["asyncio", "trio"],
        "config": {"keep_alive_timeout": 5}, "conn": {},
        "apps": {"default": OK_APP, "websocket": WS_APP},
        "client": [["feed_split", data, splits or G.gen_splits(rng, len(data))], ["settle"], ["eof"]],
        "truth": {"data": data}, "sched": {"seed": rng.randrange(1 << 30)}, "horizon": 200.0,
    }
    if rng.random() < 0.15:
        case["config"]["server_names"] = ["host1.example", "ws.example"]
    if rng.random() < 0.25:
        case["client"][0] = case["client"][0] + [[rng.choice([0, 1, 2, 3, 5]) for _ in range(5)]]  # pieces a few scheduler turns apart
    if extra:
        case.update(extra)
    return case


# ---- grammar-generated HTTP/2 with tagged siblings --------------------------------------------

ODD_KINDS = ["data_after_response", "connect_no_path", "non_ascii_path", "invalid_utf8_path", "priority_idle_flood",
             "priority_before_headers", "rst_closed", "wu_closed", "continuation", "padded", "req_trailers",
             "ext_connect_no_protocol", "zero_data_flood", "settings_churn", "ping_flood", "huge_header",
             "empty_header_value", "authority_non_utf8", "dup_pseudo", "rst_open", "data_on_idle_rst", "non_ascii_method", "late_data_flood",
             "frames_on_refused_connect", "data_during_ws_rejection", "frames_during_blocked_end_stream", "refused_then_rst"]

# kinds the statement names as "merely unusual or invalid at the HTTP level": siblings must complete
STREAM_LEVEL = {"data_after_response", "connect_no_path", "non_ascii_path", "invalid_utf8_path", "rst_closed",
                "wu_closed", "continuation", "padded", "req_trailers", "priority_before_headers",
                "empty_header_value", "rst_open", "ping_flood", "settings_churn", "huge_header",
                "priority_idle_flood", "zero_data_flood", "authority_non_utf8", "non_ascii_method", "late_data_flood",
                "frames_on_refused_connect", "data_during_ws_rejection", "frames_during_blocked_end_stream"}


def _case_grammar(rng, n, kind=None):
    kind = kind or rng.choice(ODD_KINDS)
    fb = FrameBuilder()
    pre = client_preface(fb, {})
    nsib = rng.choice([1, 2, 3])
    sib_before = rng.randint(0, nsib)
    by_tag = {}
    tags = []
    steps = []
    sid = 1

    def sibling():
        nonlocal sid
        tag = n * 10 + len(tags)
        tags.append((tag, sid))
        by_tag[str(tag)] = tag_app(tag)
        hdrs = [(b":method", b"GET"), (b":scheme", b"http"), (b":path", b"/t%d" % tag), (b":authority", b"h.example")]
        b = fb.headers(sid, hdrs, end_stream=True)
        sid += 2
        return b

    blob = bytearray(pre)
    for _ in range(sib_before):
        blob += sibling()
    steps.append(["feed", bytes(blob)])
    odd_sid = sid
    sid += 2
    base_h = [(b":method", b"GET"), (b":scheme", b"http"), (b":path", b"/odd"), (b":authority", b"h.example")]
    post = bytearray()
    expect_conn_error = False
    if kind == "data_after_response":
        steps.append(["feed", fb.headers(odd_sid, [(b":method", b"POST"), (b":scheme", b"http"), (b":path", b"/early"),
                                                   (b":authority", b"h.example")], end_stream=False)])
        # app answers without reading; then the client keeps sending body
        steps.append(["feed", fb.data(odd_sid, b"late-body", end_stream=rng.random() < 0.5)])
        if rng.random() < 0.5:
            steps.append(["feed", fb.data(odd_sid, b"more", end_stream=True)])
    elif kind == "late_data_flood":
        # several requests answered before their bodies arrive; the (ignored) late DATA adds up to more than the connection
        # window; a well-formed sibling that uploads afterwards must still complete (flow control credit must not leak)
        late = {}
        sids = [odd_sid]
        for _ in range(rng.choice([2, 3])):
            sids.append(sid)
            sid += 2
        b = bytearray()
        for s_ in sids:
            b += fb.headers(s_, [(b":method", b"POST"), (b":scheme", b"http"), (b":path", b"/early"), (b":authority", b"h.example")], end_stream=False)
            per = rng.choice([24000, 33000])
            q, off = [], 0
            while off < per:
                k = min(16000, per - off)
                q.append([fb.data(s_, b"L" * k, end_stream=(off + k >= per)), k])
                off += k
            late[s_] = q
        steps.append(["feed", bytes(b)])
        steps.append(["settle"])
        up_sid = sid
        sid += 2
        up_tag = n * 10 + 8
        tags.append((up_tag, up_sid))
        by_tag[str(up_tag)] = tag_app(up_tag)
        steps.append(["feed", fb.headers(up_sid, [(b":method", b"POST"), (b":scheme", b"http"), (b":path", b"/t%d" % up_tag), (b":authority", b"h.example")], end_stream=False)])
        q, off, size = [], 0, 40000
        while off < size:
            k = min(16000, size - off)
            q.append([fb.data(up_sid, b"U" * k, end_stream=(off + k >= size)), k])
            off += k
        late[up_sid] = q
        extra_uploads = late
    elif kind == "connect_no_path":
        steps.append(["feed", fb.headers(odd_sid, [(b":method", b"CONNECT"), (b":authority", b"h.example:443")], end_stream=False)])
    elif kind == "frames_on_refused_connect":
        # a CONNECT the server refuses (no :path -> 400; WebSocket version it does not speak -> 400) that the client leaves open,
        # then frames that are legal on a half-closed(remote) stream
        if rng.random() < 0.5:
            hd = [(b":method", b"CONNECT"), (b":authority", b"h.example:443")]
        else:
            hd = [(b":method", b"CONNECT"), (b":protocol", b"websocket"), (b":scheme", b"http"), (b":path", b"/ws"), (b":authority", b"h.example"),
                  (b"sec-websocket-version", rng.choice([b"12", b"8"]))]
        steps.append(["feed", fb.headers(odd_sid, hd, end_stream=False)])
        steps.append(["settle"])
        follow = rng.choice(["wu", "wu", "data", "wu+data", "priority", "rst"])
        b = b""
        if "wu" in follow:
            b += fb.window_update(odd_sid, rng.choice([1, 1000, 65535]))
        if "data" in follow:
            b += fb.data(odd_sid, b"x" * rng.choice([0, 1, 100]), end_stream=rng.random() < 0.5)
        if follow == "priority":
            b += fb.priority(odd_sid, dep=0, weight=10)
        if follow == "rst":
            b += fb.rst(odd_sid, 8)
        steps.append(["feed", b])
    elif kind == "non_ascii_path":
        steps.append(["feed", fb.headers(odd_sid, [(b":method", b"GET"), (b":scheme", b"http"),
                                                   (b":path", "/café".encode("utf-8")), (b":authority", b"h.example")], end_stream=True)])
    elif kind == "refused_then_rst":
        # a request the server refuses on its own stream (non-ASCII path / method; or, with the priority tree full, any request), cancelled
        # by the client in the very same read: the server's reset meets a stream that is already closed
        hd = rng.choice([[(b":method", b"GET"), (b":scheme", b"http"), (b":path", "/café".encode("utf-8")), (b":authority", b"h.example")],
                         [(b":method", b"G\xc3\xa9T"), (b":scheme", b"http"), (b":path", b"/m"), (b":authority", b"h.example")],
                         None])
        b = b""
        if hd is None:
            for k in range(1001):
                b += fb.priority(odd_sid + 2 * k + 100, dep=0, weight=16)
            hd = base_h
        # (... or the client says GOAWAY behind it: the whole connection is closed as far as the protocol library is concerned)
        b += fb.headers(odd_sid, hd, end_stream=rng.random() < 0.5) + (fb.rst(odd_sid, 8) if rng.random() < 0.6 else fb.goaway(last=0, code=0))
        steps.append(["feed", b])
        expect_conn_error = None
    elif kind == "non_ascii_method":
        steps.append(["feed", fb.headers(odd_sid, [(b":method", rng.choice([b"\xd0ET", b"G\xc3\xa9T", b"\xff"])), (b":scheme", b"http"),
                                                   (b":path", b"/m"), (b":authority", b"h.example")], end_stream=True)])
    elif kind == "invalid_utf8_path":
        steps.append(["feed", fb.headers(odd_sid, [(b":method", b"GET"), (b":scheme", b"http"),
                                                   (b":path", b"/x\xff\xfe"), (b":authority", b"h.example")], end_stream=True)])
    elif kind == "priority_idle_flood":
        cnt = rng.choice([1, 2, 101, 1001, 1100])
        b = bytearray()
        for k in range(cnt):
            b += fb.priority(odd_sid + 2 * k + 100, dep=0, weight=rng.randrange(256))
        steps.append(["feed", bytes(b)])
        steps.append(["feed", fb.headers(odd_sid, base_h, end_stream=True)])
        if cnt >= 990:
            expect_conn_error = None  # a full priority tree may legitimately refuse further streams
    elif kind == "priority_before_headers":
        steps.append(["feed", fb.priority(odd_sid, dep=rng.choice([0, odd_sid + 2, odd_sid + 4]), weight=rng.randrange(256),
                                          excl=rng.random() < 0.5)])
        steps.append(["feed", fb.headers(odd_sid, base_h, end_stream=True)])
    elif kind == "rst_closed":
        steps.append(["feed", fb.headers(odd_sid, base_h, end_stream=True)])
        steps.append(["settle"])
        steps.append(["feed", fb.rst(odd_sid, rng.choice([0, 5, 8]))])
    elif kind == "wu_closed":
        steps.append(["feed", fb.headers(odd_sid, base_h, end_stream=True)])
        steps.append(["settle"])
        steps.append(["feed", fb.window_update(odd_sid, rng.choice([1, 1000]))])
    elif kind == "continuation":
        big = [(b"x-h%d" % i, b"v" * rng.choice([1, 50, 500])) for i in range(rng.choice([1, 10, 40]))]
        steps.append(["feed", fb.headers(odd_sid, base_h + big, end_stream=True,
                                         cont_split=[rng.randint(1, 20), rng.randint(1, 50)])])
    elif kind == "padded":
        steps.append(["feed", fb.headers(odd_sid, [(b":method", b"POST")] + base_h[1:], end_stream=False, pad=rng.choice([1, 100, 255]))])
        steps.append(["feed", fb.data(odd_sid, b"x" * 10, end_stream=True, pad=rng.choice([1, 200, 255]))])
    elif kind == "req_trailers":
        steps.append(["feed", fb.headers(odd_sid, [(b":method", b"POST")] + base_h[1:], end_stream=False)])
        steps.append(["feed", fb.data(odd_sid, b"body")])
        steps.append(["feed", fb.headers(odd_sid, [(b"x-trailer", b"1")], end_stream=True)])
    elif kind == "ext_connect_no_protocol":
        steps.append(["feed", fb.headers(odd_sid, [(b":method", b"CONNECT"), (b":scheme", b"http"), (b":path", b"/ws"),
                                                   (b":authority", b"h.example"), (b"sec-websocket-version", b"13")], end_stream=False)])
        expect_conn_error = None  # h2 decides
    elif kind == "zero_data_flood":
        steps.append(["feed", fb.headers(odd_sid, [(b":method", b"POST")] + base_h[1:], end_stream=False)])
        steps.append(["feed", b"".join(fb.data(odd_sid, b"") for _ in range(rng.choice([5, 50, 300])))])
        steps.append(["feed", fb.data(odd_sid, b"", end_stream=True)])
    elif kind == "settings_churn":
        b = bytearray()
        for _ in range(rng.choice([3, 30])):
            b += fb.settings({4: rng.choice([0, 1, 65535, 1 << 20]), 5: rng.choice([16384, 65536])})
        b += fb.settings({4: 65535, 5: 16384})  # end on sane values: the siblings must be able to complete
        steps.append(["feed", bytes(b)])
        steps.append(["feed", fb.headers(odd_sid, base_h, end_stream=True)])
    elif kind == "ping_flood":
        steps.append(["feed", b"".join(fb.ping(bytes([k % 256]) * 8) for k in range(rng.choice([5, 100])))])
        steps.append(["feed", fb.headers(odd_sid, base_h, end_stream=True)])
    elif kind == "huge_header":
        steps.append(["feed", fb.headers(odd_sid, base_h + [(b"x-big", b"v" * rng.choice([16000, 60000, 70000]))], end_stream=True,
                                         cont_split=[16000, 16000, 16000, 16000])])
        expect_conn_error = None
    elif kind == "empty_header_value":
        steps.append(["feed", fb.headers(odd_sid, base_h + [(b"x-empty", b""), (b"x-e2", b"")], end_stream=True)])
    elif kind == "authority_non_utf8":
        steps.append(["feed", fb.headers(odd_sid, [(b":method", b"GET"), (b":scheme", b"http"), (b":path", b"/a"),
                                                   (b":authority", b"h\xff\xfe.example")], end_stream=True)])
    elif kind == "dup_pseudo":
        steps.append(["feed", fb.headers(odd_sid, base_h + [(b":path", b"/again")], end_stream=True)])
        expect_conn_error = None
    elif kind == "rst_open":
        steps.append(["feed", fb.headers(odd_sid, [(b":method", b"POST")] + base_h[1:], end_stream=False)])
        steps.append(["feed", fb.rst(odd_sid, 8)])
    elif kind == "data_on_idle_rst":
        steps.append(["feed", fb.data(odd_sid, b"zz")])
        expect_conn_error = True
    elif kind == "frames_during_blocked_end_stream":
        # the client is slow to read: the write that carries a stream's END_STREAM is held up, and meanwhile perfectly legal
        # flow-control frames concerning that stream / the connection arrive
        steps.append(["feed", fb.headers(odd_sid, [(b":method", b"GET"), (b":scheme", b"http"), (b":path", b"/slowend"), (b":authority", b"h.example")], end_stream=True)])
        steps.append(["settle"])
        steps.append(["pause"])
        steps.append(["trigger", "go"])
        steps.append(["settle"])
        follow = rng.choice(["wu0", "wu0", "wu_stream", "settings_iw", "rst", "wu0+wu_stream"])
        b = b""
        if "wu0" in follow:
            b += fb.window_update(0, 1000)
        if "wu_stream" in follow:
            b += fb.window_update(odd_sid, 1000)
        if follow == "settings_iw":
            b += fb.settings({4: 70000})
        if follow == "rst":
            b += fb.rst(odd_sid, 8)
        steps.append(["feed", b])
        steps.append(["settle"])
        steps.append(["resume"])
        steps.append(["settle"])
    elif kind == "data_during_ws_rejection":
        # extended CONNECT whose application is half-way through an HTTP rejection (head and part of the body sent) when the client,
        # which cannot know, sends WebSocket data on the stream
        hd = [(b":method", b"CONNECT"), (b":protocol", b"websocket"), (b":scheme", b"http"), (b":path", b"/wsrej"), (b":authority", b"h.example"),
              (b"sec-websocket-version", b"13")]
        steps.append(["feed", fb.headers(odd_sid, hd, end_stream=False)])
        steps.append(["settle"])
        steps.append(["feed", fb.data(odd_sid, ws.message_frames(ws.OP_TEXT, b"hello"), end_stream=rng.random() < 0.3)])
        steps.append(["settle"])
    for _ in range(nsib - sib_before):
        steps.append(["feed", sibling()])
    steps.append(["settle"])
    reactor = {"kind": "h2", "credit": "auto"}
    if kind == "late_data_flood":
        reactor.update(uploads=extra_uploads, uploads_wait=True)
        steps += [["react", "pump"], ["settle"]]
    config = {"keep_alive_timeout": 5}
    if kind == "authority_non_utf8" or rng.random() < 0.2:
        config["server_names"] = ["h.example"]
    if rng.random() < 0.3 and kind not in ("late_data_flood", "frames_during_blocked_end_stream"):
        steps = G.stagger_client(rng, steps)
    apps = {"default": OK_APP, "websocket": WS_APP, "by_tag": by_tag,
            "by_path": {"/early": [["respond", 200, [], b"early"]],
                        "/slowend": [["recv_until_end"], ["try_send", {"type": "http.response.start", "status": 200, "headers": []}], ["wait", "go"],
                                     ["try_send", {"type": "http.response.body", "body": b"", "more_body": False}]],
                        "/wsrej": [["recv"], ["try_send", {"type": "websocket.http.response.start", "status": 401, "headers": [(b"x-why", b"auth")]}],
                                   ["try_send", {"type": "websocket.http.response.body", "body": b"par", "more_body": True}], ["wait", "never"]]}}
    return {
        "family": "h2.grammar." + kind, "backends": ["asyncio", "trio"], "config": config, "conn": {},
        "apps": apps, "client": steps, "reactor": reactor,
        "truth": {"kind": kind, "siblings": tags, "stream_level": kind in STREAM_LEVEL, "conn_error": expect_conn_error},
        "sched": {"seed": rng.randrange(1 << 30)}, "horizon": 200.0,
    }


TLS_HOSTILE = ["plaintext_http", "random_bytes", "connect_close", "clienthello_then_close", "tls_then_garbage", "tls_alpn_h2_then_http1",
               "tls_half_close"]


def gen(rng, tier):
    for be in ("asyncio", "trio"):
        for rep in range(1 if tier == "quick" else 4):
            for kind in TLS_HOSTILE:
                yield {"family": "tls.hostile", "kind": "tls-hostile", "backend": be, "hostile": kind, "rep": rep, "seed": rng.randrange(1 << 30)}
    n = N_CASES[tier]
    prev = {"h1": b"GET / HTTP/1.1\r\nHost: a\r\n\r\n", "h2": MAGIC, "ws": b"GET / HTTP/1.1\r\n\r\n"}
    for i in range(n):
        r = rng.random()
        if i % 60 == 59:
            # more pipelined requests than the connection may carry (the limit is the client's to hit: 1001 GETs do it with the default):
            # whatever is answered, the handler has to come to an end
            lim = rng.choice([1, 2, 3, 5])
            k = lim + rng.choice([1, 2, 4])
            data = b"".join(b"GET /p%d HTTP/1.1\r\nHost: host1.example\r\n\r\n" % j for j in range(k))
            yield _base(rng, "h1.pipeline-past-limit", data, extra={"config": {"keep_alive_timeout": 5, "keep_alive_max_requests": lim}})
            continue
        if i % 60 == 44:
            # request targets in absolute-form (which a server has to accept) with an authority that is anything but well-formed
            tgt = rng.choice([b"http://[/", b"http://[::1/index", b"http://ex]ample.com/", b"http://[example]/", b"https://user[name@example.com/p", b"http://[::1]:80/ok",
                              b"HTTP://host1.example", b"http://host1.example?x=[", b"http://@/", b"http://:/", b"http:///"])
            data = b"GET " + tgt + b" HTTP/1.1\r\nHost: host1.example\r\n" + (b"Connection: Upgrade, HTTP2-Settings\r\nUpgrade: h2c\r\nHTTP2-Settings: \r\n" if rng.random() < 0.3 else b"") + b"\r\n"
            yield _base(rng, "h1.absolute-form-odd", data)
            continue
        if i % 60 == 29:
            # input that makes the server give up the connection (a chunk header that is none) arriving while a response is being written
            # to a client that takes nothing: the closing and the write in flight meet
            tag = 4200000 + i
            head = b"POST /t%d HTTP/1.1\r\nHost: host1.example\r\nTransfer-Encoding: chunked\r\n\r\n5\r\nhello\r\n" % tag
            big = [["recv"], ["send", {"type": "http.response.start", "status": 200, "headers": []}], ["send_stream", ("c4", tag), rng.choice([200000, 600000]), 16384, True]]
            yield {"family": "h1.body-framing-while-write-blocked", "backends": ["asyncio", "trio"], "config": {"keep_alive_timeout": 5}, "conn": {},
                   "apps": {"default": OK_APP, "websocket": WS_APP, "by_tag": {str(tag): big}},
                   "client": [["pause"], ["feed", head], ["settle"], ["feed", rng.choice([b"zz\r\nnot-a-chunk\r\n", b"-1\r\n", b"5\rhello"])], ["settle"], ["eof"]],
                   "truth": {"data": head}, "sched": {"seed": rng.randrange(1 << 30)}, "horizon": 200.0}
            continue
        if r < 0.06:
            data = bytes(rng.randrange(256) for _ in range(rng.choice([1, 5, 40, 400, 3000])))
            yield _base(rng, "random", data)
        elif r < 0.30:
            v = _valid_h1(rng, i)
            data = mutate(rng, v, prev["h1"]) if rng.random() < 0.9 else v
            prev["h1"] = v
            yield _base(rng, "h1.mutate", data)
        elif r < 0.50:
            v = _valid_h2(rng, i)
            if rng.random() < 0.9:
                body = mutate(rng, v[len(MAGIC):], prev["h2"][len(MAGIC):] or None)
                data = (MAGIC + body) if rng.random() < 0.9 else mutate(rng, v)
            else:
                data = v
            prev["h2"] = v
            yield _base(rng, "h2.mutate", data, extra={"conn": {"tls": True, "alpn": "h2"}} if rng.random() < 0.5 else None)
        elif r < 0.53:
            nm = rng.choice([b"Sec-WebSocket-Extensions", b"Sec-WebSocket-Protocol", b"Connection", b"Upgrade", b"Sec-WebSocket-Version", b"Sec-WebSocket-Key"])
            val = rng.choice([b"caf\xc3\xa9", b"\xff\xfe", b"a, \xe2\x82\xac", b"permessage-deflate; \xd0", b"", b",,,", b"x" * 300,
                              b"permessage-deflate; client_max_window_bits=abc", b"permessage-deflate; server_max_window_bits=99",
                              b"permessage-deflate; client_max_window_bits=7", b"permessage-deflate; server_max_window_bits=-1",
                              b"permessage-deflate; client_max_window_bits=15; client_max_window_bits=15", b"permessage-deflate; foo=bar",
                              b"permessage-deflate; server_no_context_takeover=1", b"permessage-deflate, permessage-deflate; client_max_window_bits=x"])
            if val.startswith(b"permessage") :
                nm = b"Sec-WebSocket-Extensions"
            data = ws.handshake(path=b"/t%d" % i, extra=[(nm, val)]) + ws.message_frames(ws.OP_TEXT, b"hi")
            c = _base(rng, "ws.hdr", data)
            # an application that does not shrug off an error raised by its own accept: what the client's header did to it becomes visible
            c["apps"] = dict(c["apps"], websocket=[["recv"], ["send", {"type": "websocket.accept"}], ["ws_echo"]])
            yield c
        elif r < 0.535:
            # a handshake the application refuses with a response of its own (and then keeps waiting for its disconnect), followed by
            # WebSocket frames from a client that has not read the refusal yet
            how = rng.choice(["close", "http_full", "http_partial", "accept_close", "accept_close"])
            rej = {"accept_close": [["recv"], ["try_send", {"type": "websocket.accept"}], ["try_send", {"type": "websocket.close", "code": 1000}],
                                    ["recv_until_disconnect"]],
                   "close": [["recv"], ["try_send", {"type": "websocket.close"}], ["recv_until_disconnect"]],
                   "http_full": [["recv"], ["try_send", {"type": "websocket.http.response.start", "status": 401, "headers": [(b"x-why", b"auth")]}],
                                 ["try_send", {"type": "websocket.http.response.body", "body": b"no"}], ["recv_until_disconnect"]],
                   "http_partial": [["recv"], ["try_send", {"type": "websocket.http.response.start", "status": 401, "headers": []}],
                                    ["try_send", {"type": "websocket.http.response.body", "body": b"par", "more_body": True}], ["recv_until_disconnect"]]}[how]
            frames = ws.message_frames(ws.OP_TEXT, b"hello-%d" % i) + (ws.frame(ws.OP_PING, b"p") if rng.random() < 0.5 else b"")
            c = _base(rng, "ws.rejected-then-data", ws.handshake(path=b"/t%d" % i))
            c["apps"] = {"default": OK_APP, "websocket": rej}
            c["client"] = [["feed", ws.handshake(path=b"/t%d" % i)], ["settle"], ["feed", frames], ["settle"], ["feed", frames], ["settle"], ["eof"]]
            if how == "accept_close":
                # the application closes the session; the client replies with its own Close - and then keeps talking
                tail = rng.choice([ws.frame(ws.OP_PING, b"late"), frames, bytes(rng.randrange(256) for _ in range(20)), ws.close_frame(1000)])
                c["client"] = [["feed", ws.handshake(path=b"/t%d" % i)], ["settle"], ["feed", ws.close_frame(1000)], ["settle"], ["feed", tail], ["settle"],
                               ["feed", tail], ["settle"], ["eof"]]
            c["truth"] = {"data": ws.handshake(path=b"/t%d" % i) + frames, "how": how}
            c["config"].pop("server_names", None)
            yield c
        elif r < 0.545:
            # valid head, then a body that violates its framing while the application is still reading it
            head = b"POST /t%d HTTP/1.1\r\nHost: h\r\nTransfer-Encoding: chunked\r\n\r\n" % i
            good = b"".join(b"%x\r\n%s\r\n" % (k, b"x" * k) for k in [rng.choice([1, 5, 300]) for _ in range(rng.choice([0, 1, 3]))])
            bad = rng.choice([b"zz\r\nab\r\n", b"5\r\nabcdefgh\r\n", b"-1\r\n", b"5;" + b"e" * 20000 + b"\r\nabcde\r\n", b"\r\n\r\n", b"5\nabcde\n",
                              b"0x5\r\nabcde\r\n", b"5 \x00\r\nabcde\r\n", b"ffffffffffffffffffffff\r\n", b"5\r\nabcde\rX"])
            data = head + good + bad + rng.choice([b"", b"0\r\n\r\n"])
            c = _base(rng, "h1.body-framing", data)
            c["config"].pop("server_names", None)
            yield c
        elif r < 0.56:
            # h2c upgrade whose HTTP2-Settings value is absent / duplicated / not base64url / not a SETTINGS payload / illegal values
            import base64
            import struct

            def b64(b):
                return base64.urlsafe_b64encode(b).rstrip(b"=")
            val = rng.choice([None, b"", b"\xff\xfe", b"caf\xc3\xa9", b"!!!!", b"AAAA", b"A", b64(struct.pack(">HI", 2, 2)),
                              b64(struct.pack(">HI", 4, 0xFFFFFFFF)), b64(struct.pack(">HI", 5, 1)), b64(struct.pack(">HI", 5, 1 << 24)),
                              b64(struct.pack(">HI", 3, 0) + struct.pack(">HI", 4, 0)), b64(struct.pack(">HI", 0x99, 7)),
                              b64(bytes(rng.randrange(256) for _ in range(rng.choice([5, 6, 7, 12, 60])))),
                              b64(struct.pack(">HI", 1, 0)), b64(struct.pack(">HI", 6, 1)), b"AAMAAABkAAQAAP__"])
            hdrs = [b"Host: h", b"Connection: Upgrade, HTTP2-Settings", b"Upgrade: " + rng.choice([b"h2c", b"H2C", b"h2c, websocket"])]
            if val is not None:
                hdrs.append(b"HTTP2-Settings: " + val)
                if rng.random() < 0.15:
                    hdrs.append(b"HTTP2-Settings: " + val)
            rng.shuffle(hdrs)
            data = b"GET /t%d HTTP/1.1\r\n" % i + b"\r\n".join(hdrs) + b"\r\n\r\n"
            if rng.random() < 0.6:
                v = _valid_h2(rng, i)
                data += v if rng.random() < 0.7 else mutate(rng, v)
            yield _base(rng, "h2c.upgrade", data)
        elif r < 0.62:
            v = _valid_ws(rng, i)
            head_end = v.index(b"\r\n\r\n") + 4
            if rng.random() < 0.7:
                data = v[:head_end] + mutate(rng, v[head_end:] or b"\x81\x80\x00\x00\x00\x00", None)
            else:
                data = mutate(rng, v, prev["ws"])
            prev["ws"] = v
            if rng.random() < 0.15:
                # a well-formed session whose client says goodbye and then keeps talking: frames behind its Close, in the same read,
                # the next one, or a few scheduler turns into the server's reply
                tail = b"".join(rng.choice([ws.frame(ws.OP_PING, b"late"), ws.message_frames(ws.OP_TEXT, b"after-close"), ws.close_frame(1000),
                                            ws.frame(ws.OP_BIN, b"\x00\x01", fin=False), b"\x82\x87\x11\x22\x33\x44garbage"]) for _ in range(rng.choice([1, 2, 4])))
                data = v[:head_end] + rng.choice([b"", ws.message_frames(ws.OP_TEXT, b"m1")]) + ws.close_frame(rng.choice([1000, 1001, None])) + tail
                cut = len(data) - len(tail)
                yield _base(rng, "ws.data-after-close", data, splits=rng.choice([[len(data)], [cut, len(tail)], [head_end, len(data) - head_end],
                                                                                  [head_end, cut - head_end, len(tail)]]))
                continue
            yield _base(rng, "ws.mutate", data)
        else:
            yield _case_grammar(rng, i)


def run_one(case, tally):
    """Tier A through the default executor; the hostile-TLS family runs the real serve() with a real ssl context."""
    import sys

    from ..runner import default_run_one

    if case.get("kind") != "tls-hostile":
        return default_run_one(sys.modules[__name__], case, tally)
    import os
    import random
    import socket
    import ssl

    from ..world.realnet import ServeHarness, recv_until

    findings = []
    be = case["backend"]
    rng = random.Random(case["seed"])
    assets = os.path.join(os.environ.get("HYPERCORN_SRC", "/repo/src"), "..", "tests", "assets")
    if not os.path.exists(os.path.join(assets, "cert.pem")):
        assets = "/repo/tests/assets"
    apps = {"lifespan": [["recv"], ["send", {"type": "lifespan.startup.complete"}], ["recv"], ["send", {"type": "lifespan.shutdown.complete"}]],
            "default": [["recv_until_end"], ["respond", 200, [(b"content-length", b"2")], b"ok"]]}
    h = ServeHarness(be, {"certfile": os.path.join(assets, "cert.pem"), "keyfile": os.path.join(assets, "key.pem"),
                          "graceful_timeout": 0.5, "shutdown_timeout": 0.5, "keep_alive_timeout": 2.0, "ssl_handshake_timeout": 1.0}, apps)

    def tls_client(alpn=None):
        ctx = ssl.SSLContext(ssl.PROTOCOL_TLS_CLIENT)
        ctx.check_hostname = False
        ctx.verify_mode = ssl.CERT_NONE
        if alpn:
            ctx.set_alpn_protocols(alpn)
        raw = socket.create_connection((h.host, h.port), timeout=2.0)
        return ctx.wrap_socket(raw, server_hostname="localhost")

    good = None
    try:
        h.start()
        h.wait_event(lambda e: e[2] == "app" and e[3] == "send.", 3.0)
        h.wait_ready()
        kind = case["hostile"]
        for _ in range(3):
            try:
                if kind in ("plaintext_http", "random_bytes", "connect_close", "clienthello_then_close"):
                    s = socket.create_connection((h.host, h.port), timeout=1.0)
                    if kind == "plaintext_http":
                        s.sendall(b"GET / HTTP/1.1\r\nHost: h\r\n\r\n")
                        recv_until(s, timeout=0.3)
                    elif kind == "random_bytes":
                        s.sendall(bytes(rng.randrange(256) for _ in range(rng.choice([1, 50, 600]))))
                        recv_until(s, timeout=0.3)
                    elif kind == "clienthello_then_close":
                        s.sendall(bytes.fromhex("16030100c8010000c40303") + bytes(rng.randrange(256) for _ in range(40)))
                    s.close()
                else:
                    t = tls_client(["h2", "http/1.1"] if kind == "tls_alpn_h2_then_http1" else None)
                    t.settimeout(1.0)
                    if kind == "tls_then_garbage":
                        t.sendall(bytes(rng.randrange(256) for _ in range(300)))
                        recv_until(t, timeout=0.3)
                    elif kind == "tls_alpn_h2_then_http1":
                        t.sendall(b"GET / HTTP/1.1\r\nHost: h\r\n\r\n")  # negotiated h2, speaks HTTP/1
                        recv_until(t, timeout=0.3)
                    elif kind == "tls_half_close":
                        t.sendall(b"GET /half HTTP/1.1\r\nHost: h\r\n\r\n")
                        try:
                            t.shutdown(socket.SHUT_WR)  # TCP half-close without close_notify
                        except OSError:
                            pass
                        recv_until(t, timeout=0.5)
                    t.close()
            except (OSError, ssl.SSLError):
                pass
        # the server must still serve a well-behaved client
        try:
            t = tls_client()
            t.settimeout(2.0)
            t.sendall(b"GET /after HTTP/1.1\r\nHost: h\r\n\r\n")
            good = recv_until(t, b"ok", timeout=2.0)
            t.close()
        except (OSError, ssl.SSLError) as e:
            good = repr(e).encode()
        alive = not h.done.is_set()
        h.trigger_shutdown()
        returned = h.wait_done(5.0)
    finally:
        h.close()
    for e in h.trace.events:
        tally.events[e[2] + "." + e[3]] += 1
    tally.clause("crash")
    tally.clause("tls-hostile")
    bad_logs = [e for e in h.trace.events if e[2] == "log" and e[4].get("level") in ("ERROR", "CRITICAL")]
    loop_exc = [e for e in h.trace.events if e[2] == "srv" and e[3] == "loop-exception"]
    if not alive or isinstance(h.result, tuple):
        findings.append({"clause": "crash", "sig": "C04.tls/server-died/%s/%s" % (case["hostile"], be), "backend": be,
                         "detail": "serve() ended after hostile TLS-port traffic: %r" % (h.result,)})
    if not (good or b"").startswith(b"HTTP/1.1 200"):
        findings.append({"clause": "crash", "sig": "C04.tls/later-client-not-served/%s/%s" % (case["hostile"], be), "backend": be,
                         "detail": "after %s a well-behaved TLS client got %r" % (case["hostile"], (good or b"")[:80])})
    if bad_logs:
        findings.append({"clause": "crash", "sig": "C04.tls/error-logged/%s/%s" % (case["hostile"], be), "backend": be,
                         "detail": "hostile TLS-port traffic produced an error-level log record (an internal error): %r" % (str(bad_logs[0][4])[:400],)})
    if loop_exc:
        tally.notes["event-loop-exception-handler:%s:%s" % (be, str(loop_exc[0][4].get("text"))[:60])] += 1
    if not returned:
        tally.inconclusive["serve-did-not-return"] += 1
    return findings, [None]


def nontrivial(case, obs):
    if obs is None:
        return True
    return obs.trace is not None and any(e[2] == "net" and e[3] == "read" for e in obs.trace.events)


def _shadow_h11(case, obs, body_stage=False):
    """Feed the same reads to a shadow h11 server connection.  Returns the error_status_hint if the very first
    event is a RemoteProtocolError, else None."""
    import h11

    data = case["truth"]["data"]
    reads = [e[4]["n"] for e in obs.trace.events if e[2] == "net" and e[3] == "read" and e[4]["n"] > 0]
    conn = h11.Connection(h11.SERVER, max_incomplete_event_size=(case.get("config") or {}).get("h11_max_incomplete_size", 16 * 1024))
    off = 0
    reads_i = [0]
    for n in reads + [0]:
        reads_i[0] += 1
        piece = data[off:off + n]
        off += n
        conn.receive_data(piece)
        try:
            ev = conn.next_event()
        except h11.RemoteProtocolError as e:
            return e.error_status_hint
        if ev is h11.NEED_DATA:
            if n == 0:
                return None
            continue
        if not isinstance(ev, h11.Request) or not body_stage:
            return None  # a request (or close) came first
        # the first request's head was fine: a framing error inside its body, before the application (which reads the whole body
        # first) can have answered, must still get the hinted response
        while True:
            try:
                ev = conn.next_event()
            except h11.RemoteProtocolError as e:
                return e.error_status_hint
            if ev is h11.NEED_DATA:
                if n == 0:
                    return None
                break
            if not isinstance(ev, h11.Data):
                return None
        for n2 in reads[reads_i[0]:] + [0]:
            piece = data[off:off + n2]
            off += n2
            conn.receive_data(piece)
            while True:
                try:
                    ev = conn.next_event()
                except h11.RemoteProtocolError as e:
                    return e.error_status_hint
                if ev is h11.NEED_DATA:
                    break
                if not isinstance(ev, h11.Data):
                    return None
            if n2 == 0:
                return None
        return None
    return None


def _shadow_h2(case, data):
    import h2.config
    import h2.connection
    import h2.exceptions

    c = h2.connection.H2Connection(config=h2.config.H2Configuration(client_side=False, header_encoding=None))
    c.initiate_connection()
    try:
        c.receive_data(data)
    except h2.exceptions.ProtocolError:
        return True
    except Exception:
        return None
    return False


def check(case, obs, tally):
    out = []
    fam = case["family"]
    short = fam if not fam.startswith("h2.grammar.") else "h2/" + case["truth"]["kind"]
    tally.clause("crash")
    if obs.handler == "exception":
        last = (obs.handler_exc or "").strip().splitlines()[-1] if obs.handler_exc else "?"
        exc_name = _exc_name(obs.handler_exc)
        out.append({"clause": "crash", "sig": "C04.crash/%s/%s" % (short.split(".")[0] if not short.startswith("h2/") else short, exc_name),
                    "detail": "connection handler raised: %s" % (obs.handler_exc or "")[-900:]})
    for kind, text in obs.sanitizers:
        if kind == "unraisable" and "hypercorn" not in text:
            # swallowed by the interpreter outside the server's code (typically a generator of an earlier case being collected): cannot
            # be attributed to this case's input
            tally.notes["unraisable-outside-server-code:%s" % text.split(" object=")[0][:80]] += 1
            continue
        if kind in ("loop", "unraisable"):
            out.append({"clause": "crash", "sig": "C04.sanitizer/%s/%s" % (kind, short.split(".")[0]),
                        "detail": text[:500]})
        elif kind == "log-format":
            out.append({"clause": "crash", "sig": "C04.log-format/%s" % short.split(".")[0], "detail": text[:500]})
    if obs.handler == "exception":
        return out
    if fam in ("h1.mutate", "random", "h1.body-framing", "h1.pipeline-past-limit", "h1.body-framing-while-write-blocked") and case["client"][-1][0] == "eof":
        # "... the connection handler terminates or keeps serving": the client has said all it had to say and ended its side, the
        # applications of these families answer at once - there is nothing left to serve
        tally.clause("terminates")
        if obs.handler == "pending":
            out.append({"clause": "crash", "sig": "C04.handler-never-terminates/%s" % fam.split(".")[0],
                        "detail": "the client's input was answered (%d bytes) and the client ended its side, but the connection handler is still there at the end of "
                                  "the history (closed_at %r, %d applications still running)" % (len(obs.outbytes), obs.closed_at, len(obs.open_apps()) if hasattr(obs, "open_apps") else -1)})
    if fam in ("h1.mutate", "random", "ws.mutate", "ws.data-after-close", "ws.hdr", "h1.body-framing", "ws.rejected-then-data", "h2c.upgrade"):
        # the applications of these families never fail by themselves: a 5xx status is the server owning up to an internal error
        import re as _re5

        m5 = _re5.search(rb"HTTP/1\.[01] (500)", bytes(obs.outbytes))  # 501 / 505 are protocol answers h11 itself hints at
        if m5:
            tally.clause("no-5xx")
            out.append({"clause": "crash", "sig": "C04.internal-error-status/%s/%s" % (fam.split(".")[0], m5.group(1).decode()),
                        "detail": "client input was answered %s (an internal error) although the application does not fail on its own; error log: %r" % (
                            m5.group(1).decode(), [r["text"][:80] for r in obs.errors][:2])})
    if fam in ("h1.mutate", "random", "ws.mutate", "ws.data-after-close", "ws.hdr", "h1.body-framing"):
        hint = _shadow_h11(case, obs, body_stage="server_names" not in (case.get("config") or {}))
        if hint is not None:
            tally.clause("hint")
            closed = obs.closed_at is not None
            try:
                resps, _ = h1.parse_responses(obs.outbytes, [("GET", "1.1")], True)
            except h1.Malformed as e:
                resps = None
                out.append({"clause": "hint", "sig": "C04.hint/malformed-response", "detail": str(e)})
            if resps is not None:
                resps = [x for x in resps if x.status >= 200]  # a 100 Continue may precede it
                if not resps or resps[0].status != hint:
                    out.append({"clause": "hint", "sig": "C04.hint/status",
                                "detail": "malformed HTTP/1 (h11 hints %s) answered %r" % (hint, resps[0].status if resps else None)})
                if not closed:
                    out.append({"clause": "hint", "sig": "C04.hint/not-closed",
                                "detail": "malformed HTTP/1 answered but the server did not close"})
    if fam == "h2.mutate":
        data = case["truth"]["data"]
        if data.startswith(MAGIC) or (case.get("conn") or {}).get("tls"):
            sh = _shadow_h2(case, data)
            if sh:
                tally.clause("goaway")
                rx_goaway = b"\x07" in obs.outbytes  # cheap pre-check; precise check below
                from ..wire.h2raw import FrameReader

                rd = FrameReader()
                evs = rd.feed(obs.outbytes)
                goaway = any(e["t"] == "goaway" for e in evs)
                if not goaway and obs.closed_at is None:
                    out.append({"clause": "goaway", "sig": "C04.goaway/neither",
                                "detail": "HTTP/2 connection error (per shadow h2) but neither GOAWAY nor close"})
    if fam.startswith("h2.grammar."):
        t = case["truth"]
        rx = obs.reactor
        if t["conn_error"] is True:
            tally.clause("goaway")
            if rx.goaway is None and obs.closed_at is None:
                out.append({"clause": "goaway", "sig": "C04.goaway/neither/" + t["kind"],
                            "detail": "connection error input but neither GOAWAY nor close"})
        elif t["stream_level"] and t["conn_error"] is False:
            tally.clause("isolation")
            if rx.goaway is not None and rx.goaway.get("code"):
                tally.notes["goaway-on-stream-level-input:" + t["kind"]] += 1
            for tag, sid in t["siblings"]:
                s = rx.streams.get(sid)
                ok = s is not None and s.status == 200 and bytes(s.data) == b"body-%d" % tag and s.ended == 1
                if not ok:
                    out.append({"clause": "isolation", "sig": "C04.isolation/%s" % t["kind"],
                                "detail": "sibling stream %d (tag %d) did not complete: %s; goaway=%r closed_at=%r" % (
                                    sid, tag, None if s is None else (s.status, bytes(s.data)[:20], s.ended, s.rst),
                                    rx.goaway, obs.closed_at)})
                    break
    return out


def _exc_name(text):
    if not text:
        return "?"
    names = []
    for ln in text.splitlines():
        ln = ln.strip().lstrip("|+- ").strip()
        head = ln.split(":")[0].split("(")[0].strip()
        if head and head[0].isalpha() and (head.endswith("Error") or head.endswith("Exception")) and " " not in head and "Group" not in head:
            names.append(head.split(".")[-1])
    return names[-1] if names else "?"
