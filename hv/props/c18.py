"""C18 — configured limits and worker recycling are enforced against any client."""
from __future__ import annotations

import time

from .. import gen as G
from ..wire import h1
from ..wire.h2raw import FrameBuilder, client_preface
from ..world.driver import run_case

ID = "C18"
LEVEL = "exploration"
BUDGET = {"quick": 60, "thorough": 600}
TECHNIQUE = ("counting monitors on application starts and live instances, boundary predicates from the statement evaluated at the "
             "true read boundaries; for worker recycling the real serve() is driven request by request and the count at which it "
             "begins its graceful exit is recorded")
LEVEL_TEXT = ("Each limit in {0/1/2, small, default} with request streams below / at / above it under arbitrary segmentation over one "
              "or several connections (connection tier, both workers); max_requests x jitter {0,1,5} x repeated runs on real "
              "loopback sockets for the support of the recycling count.")
LEVEL_NOTE = "Trusted: connection-tier harness for the per-connection limits; tier-B harness for recycling (causal: count of served requests)."
RULE = "cases = limit kind x limit value x approach (below/at/above) x segmentation x worker; non-trivial = the limit was approached within 2x"
ASSUMPTIONS = ["an over-size head that arrives complete within one read is not judged (the statement says 'still incomplete after')",
               "which HTTP/2 error code refuses a stream is not demanded"]
MIN_DECISIVE = {"h11-incomplete": 30, "h2-concurrent": 10, "h2-header-list": 10, "keepalive-max": 20, "max-requests": 4, "recycle-processes": 1}
SHARDS = 16


def gen(rng, tier):
    n = 0
    reps = 1 if tier == "quick" else 6
    for rep in range(reps):
        # ---- h11_max_incomplete_size --------------------------------------------------------
        for limit in (1, 50, 200, 1000, 16384):
            for k in range(8 if tier == "quick" else 20):
                n += 1
                pad = rng.choice([0, limit // 2, max(0, limit - 60), limit, limit + 1, limit + 50, 2 * limit + 7])
                head = b"GET /t%d HTTP/1.1\r\nHost: h\r\nX-Pad: %s\r\n\r\n" % (n, b"p" * pad)
                splits = G.gen_splits(rng, len(head), rng.choice(["one", "two", "k", "bytes"]))
                yield {"family": "h11_incomplete", "kind": "h11_incomplete", "limit": limit, "data": head, "splits": splits, "tag": n,
                       "seed": rng.randrange(1 << 30)}
        # ---- what the parser holds behind the *final* request of a connection (it is never going to be parsed) ----
        for limit in (1000, 16384):
            for junk in (5000, 300000):
                for mode in ("close-header", "http10"):
                    n += 1
                    yield {"family": "h11_incomplete.behind-final-request", "kind": "h11_behind_final", "limit": limit, "junk": junk, "mode": mode, "tag": n,
                           "seed": rng.randrange(1 << 30)}
        # ---- h2_max_concurrent_streams ------------------------------------------------------
        for limit in (1, 2, 5, 100):
            for extra in (0, 1, 3):
                n += 1
                yield {"family": "h2_concurrent", "kind": "h2_concurrent", "limit": limit, "nstreams": min(limit, 12) + extra if limit < 100 else 8 + extra,
                       "tag": n, "seed": rng.randrange(1 << 30)}
        # ---- h2_max_header_list_size ----------------------------------------------------------
        for limit in (100, 1000, 65536):
            for size in (limit // 2, limit - 80, limit + 1, limit + 200, 2 * limit):
                n += 1
                yield {"family": "h2_header_list", "kind": "h2_header_list", "limit": limit, "size": max(1, size), "tag": n, "seed": rng.randrange(1 << 30)}
                if limit < 65536:
                    # the same limit on a connection that started as an HTTP/1.1 "Upgrade: h2c"
                    n += 1
                    yield {"family": "h2_header_list.h2c", "kind": "h2_header_list", "limit": limit, "size": max(1, size), "tag": n,
                           "seed": rng.randrange(1 << 30), "h2c": True}
        # ---- keep_alive_max_requests ----------------------------------------------------------
        for limit in (1, 2, 3, 5):
            for proto in ("h1", "h2", "h2c"):
                for pace in ("sequential", "burst"):
                    n += 1
                    yield {"family": "keepalive_max." + proto, "kind": "keepalive_max", "limit": limit, "proto": proto, "pace": pace,
                           "nreq": limit + 3, "tag": n, "seed": rng.randrange(1 << 30),
                           "app_delay": rng.choice([0, 0, 3])}
                    if proto == "h2" and pace == "sequential":
                        # the first application also pushes a resource: whatever the server makes of its own pushes, the client is told when to stop
                        n += 1
                        yield {"family": "keepalive_max.h2.with-push", "kind": "keepalive_max", "limit": limit, "proto": "h2", "pace": "sequential",
                               "nreq": limit + 3, "tag": n, "seed": rng.randrange(1 << 30), "app_delay": 0, "push": True}
                        # every application tries to push, towards a client that has switched pushes off (as browsers and curl do)
                        n += 1
                        yield {"family": "keepalive_max.h2.push-refused", "kind": "keepalive_max", "limit": limit, "proto": "h2", "pace": "sequential",
                               "nreq": limit + 3, "tag": n, "seed": rng.randrange(1 << 30), "app_delay": 0, "push": "all-refused"}
                    if proto == "h2" and pace == "burst":
                        n += 1
                        yield {"family": "keepalive_max.h2.blocked-flush", "kind": "keepalive_max", "limit": limit, "proto": "h2", "pace": "blocked-flush",
                               "nreq": limit + 3, "tag": n, "seed": rng.randrange(1 << 30), "app_delay": 0}
                    if proto == "h1":
                        # the application has its own opinion about the connection: the limit is the server's and still holds
                        for hdr in ([b"connection", b"keep-alive"], [b"Connection", b"Keep-Alive"], [b"keep-alive", b"timeout=5, max=1000"]):
                            n += 1
                            yield {"family": "keepalive_max.h1.app-connection-header", "kind": "keepalive_max", "limit": limit, "proto": "h1", "pace": pace,
                                   "nreq": limit + 3, "tag": n, "seed": rng.randrange(1 << 30), "app_delay": 0, "app_header": hdr}
        # ---- max_requests (tier B) -------------------------------------------------------------
        for be in ("asyncio", "trio"):
            # (0 is a limit like any other: "more than 0 requests" is the first one; only None means no limit)
            for mr, jitter in ((1, 0), (3, 0), (2, 1), (2, 5), (0, 0), (0, 2)):
                for k in range(1 if tier == "quick" else 8):
                    n += 1
                    yield {"family": "max_requests", "kind": "max_requests", "backend": be, "max_requests": mr, "jitter": jitter, "tag": n, "rep": k, "how": "h1"}
            for mr, jitter in ((2, 3), (1, 2)):
                n += 1
                yield {"family": "max_requests.successive-workers", "kind": "max_requests", "backend": be, "max_requests": mr, "jitter": jitter, "tag": n,
                       "rep": 0, "how": "h1", "workers": 3}
            for how in ("h1_abandon", "h1_concurrent", "h1_ws", "h1_ws_refused"):
                for mr, jitter in ((2, 0), (1, 1)):
                    n += 1
                    yield {"family": "max_requests." + how, "kind": "max_requests", "backend": be, "max_requests": mr, "jitter": jitter, "tag": n,
                           "rep": 0, "how": how}
            n += 1
            yield {"family": "max_requests.h2c", "kind": "max_requests", "backend": be, "max_requests": 2, "jitter": 0, "tag": n, "rep": 0, "how": "h2c"}
            if be == "trio":
                # serve() started as the public API starts it by default - without a shutdown trigger (on asyncio that installs signal
                # handlers, which only the main thread may do): reaching the limit is then its only reason to stop
                for mr, jitter in ((2, 0), (1, 2)):
                    n += 1
                    yield {"family": "max_requests.no-shutdown-trigger", "kind": "max_requests", "backend": be, "max_requests": mr, "jitter": jitter,
                           "tag": n, "rep": 0, "how": "h1_no_trigger"}
            # ---- the real master process with spawn-ed workers: gone workers are replaced, nothing is lost meanwhile ----
            for workers, mr, jitter in (((1, 3, 0),) if tier == "quick" else ((1, 3, 0), (2, 2, 1), (1, 1, 0), (2, 4, 2))):
                n += 1
                yield {"family": "recycle.processes.w%d" % workers, "kind": "recycle_processes", "backend": be, "max_requests": mr, "jitter": jitter,
                       "workers": workers, "nreq": 3 * (mr + jitter + 1) * workers + 2, "tag": n, "rep": rep}


def _tag_app(tag, delay=0, wait=None, extra=()):
    sc = [["recv_until_end"]]
    if wait:
        sc.append(["wait", wait])
    if delay:
        sc.append(["yield", delay])
    sc.append(["respond", 200, [(b"x-tag", b"%d" % tag)] + list(extra), b"r%d" % tag])
    return sc


def run_one(case, tally):
    kind = case["kind"]
    if kind == "max_requests":
        return _max_requests(case, tally)
    if kind == "recycle_processes":
        return _recycle_processes(case, tally)
    findings, obs_all = [], []
    for be in ("asyncio", "trio"):
        if kind == "h11_behind_final":
            # the application is slow to answer (so the connection stays up) while the client keeps sending after its last request
            req = (b"GET /t%d HTTP/1.1\r\nHost: h\r\nConnection: close\r\n\r\n" if case["mode"] == "close-header" else b"GET /t%d HTTP/1.0\r\nHost: h\r\n\r\n") % case["tag"]
            junk = b"X" * case["junk"]
            c = {"config": {"h11_max_incomplete_size": case["limit"], "keep_alive_timeout": 5000}, "conn": {},
                 "apps": {"default": [["recv_until_end"], ["wait", "go"], ["respond", 200, [], b"late"]]},
                 "client": [["feed", req], ["settle"], ["feed_split", junk, [min(60000, len(junk))] * (len(junk) // 60000) + ([len(junk) % 60000] if len(junk) % 60000 else [])],
                            ["settle"]], "sched": {"seed": case["seed"]}, "horizon": 20.0}
            ob = run_case(c, be)
            obs_all.append(ob)
            if ob.harness_error or ob.handler == "exception":
                tally.inconclusive["harness-or-crash"] += 1
                continue
            tally.clause("h11-incomplete")
            held = getattr(ob, "parser_buffered", None)
            if held is None:
                tally.inconclusive["parser-buffer-probe-unavailable"] += 1
            elif held > case["limit"] + 65536:
                findings.append({"clause": "h11-incomplete", "sig": "C18.h11-incomplete/buffered-beyond-limit/behind-final-request", "backend": be,
                                 "detail": "after its final request (%s) the client sent %d more bytes; with h11_max_incomplete_size=%d the connection's parser "
                                           "holds %d of them and the connection is still open" % (case["mode"], case["junk"], case["limit"], held)})
            continue
        if kind == "h11_incomplete":
            c = {"config": {"h11_max_incomplete_size": case["limit"], "keep_alive_timeout": 5000}, "conn": {},
                 "apps": {"default": _tag_app(case["tag"])}, "client": [["feed_split", case["data"], case["splits"]], ["settle"]],
                 "sched": {"seed": case["seed"]}, "horizon": 20.0}
            ob = run_case(c, be)
            obs_all.append(ob)
            if ob.harness_error or ob.handler == "exception":
                tally.inconclusive["harness-or-crash"] += 1
                continue
            tally.clause("h11-incomplete")
            reads = [e[4]["n"] for e in ob.trace.events if e[2] == "net" and e[3] == "read" and e[4]["n"] > 0]
            cum, over = 0, False
            for r in reads:
                cum += r
                if cum < len(case["data"]) and cum > case["limit"]:
                    over = True
            started = len(ob.instances())
            if over:
                try:
                    resps, _ = h1.parse_responses(ob.outbytes, [("GET", "1.1")], True)
                except h1.Malformed:
                    resps = []
                st = resps[0].status if resps else None
                if started or st is None or not (400 <= st < 500) or ob.closed_at is None:
                    findings.append({"clause": "h11-incomplete", "sig": "C18.h11-incomplete/not-rejected", "backend": be,
                                     "detail": "head still incomplete after %d > h11_max_incomplete_size=%d bytes (reads %r): started=%d status=%r closed=%r" % (
                                         max(c0 for c0 in _cums(reads) if c0 < len(case["data"])), case["limit"], reads[:8], started, st, ob.closed_at)})
            else:
                if not started:
                    tally.notes["within-limit-not-served(C01/C06 judge)"] += 1
        elif kind == "h2_concurrent":
            fb = FrameBuilder()
            blob = bytearray(client_preface(fb, {}))
            by_tag = {}
            n = case["nstreams"]
            for i in range(n):
                tag = case["tag"] * 100 + i
                by_tag[str(tag)] = _tag_app(tag, wait="go")
                blob += fb.headers(1 + 2 * i, [(b":method", b"GET"), (b":scheme", b"http"), (b":path", b"/t%d" % tag), (b":authority", b"h")], end_stream=True)
            c = {"config": {"h2_max_concurrent_streams": case["limit"], "keep_alive_timeout": 5000}, "conn": {},
                 "apps": {"default": _tag_app(0), "by_tag": by_tag}, "client": [["feed", bytes(blob)], ["settle"], ["mark", "peak"], ["trigger", "go"], ["settle"]],
                 "reactor": {"kind": "h2", "credit": "auto"}, "sched": {"seed": case["seed"]}, "horizon": 20.0}
            ob = run_case(c, be)
            obs_all.append(ob)
            if ob.harness_error or ob.handler == "exception":
                tally.inconclusive["harness-or-crash"] += 1
                continue
            tally.clause("h2-concurrent")
            peak = ob.apps.max_alive
            if peak > case["limit"]:
                findings.append({"clause": "h2-concurrent", "sig": "C18.h2-concurrent/exceeded", "backend": be,
                                 "detail": "%d application instances alive at once with h2_max_concurrent_streams=%d (%d streams opened)" % (peak, case["limit"], n)})
            if n > case["limit"]:
                rx = ob.reactor
                refused = [sid for sid, s in rx.streams.items() if s.rst is not None] or rx.goaway
                if not refused:
                    findings.append({"clause": "h2-concurrent", "sig": "C18.h2-concurrent/not-refused", "backend": be,
                                     "detail": "streams beyond the limit were neither reset nor answered with GOAWAY"})
        elif kind == "h2_header_list":
            fb = FrameBuilder()
            tag = case["tag"]
            hd = [(b":method", b"GET"), (b":scheme", b"http"), (b":path", b"/t%d" % tag), (b":authority", b"h"), (b"x-big", b"v" * case["size"])]
            pre = client_preface(fb, {})
            first_sid = 3 if case.get("h2c") else 1
            blob = fb.headers(first_sid, hd, end_stream=True, cont_split=[16000] * (case["size"] // 16000 + 1))
            sib = fb.headers(first_sid + 2, [(b":method", b"GET"), (b":scheme", b"http"), (b":path", b"/t%d" % (tag + 50000)), (b":authority", b"h")], end_stream=True)
            c = {"config": {"h2_max_header_list_size": case["limit"], "keep_alive_timeout": 5000}, "conn": {},
                 # the limit binds a client once it has acknowledged the server's SETTINGS: preface first, settle (ACK), then the request
                 "apps": {"default": _tag_app(tag)}, "client": [["feed", pre], ["settle"], ["feed", blob], ["settle"], ["feed", sib], ["settle"]],
                 "reactor": {"kind": "h2", "credit": "auto"}, "sched": {"seed": case["seed"]}, "horizon": 20.0}
            if case.get("h2c"):
                up = b"GET /t%d HTTP/1.1\r\nHost: h\r\nConnection: Upgrade, HTTP2-Settings\r\nUpgrade: h2c\r\nHTTP2-Settings: \r\n\r\n" % (tag + 70000)
                c["client"] = [["feed_nosettle", up], ["quiesce"]] + c["client"]
                c["reactor"]["skip_h1_101"] = True
            ob = run_case(c, be)
            obs_all.append(ob)
            if ob.harness_error or ob.handler == "exception":
                tally.inconclusive["harness-or-crash"] += 1
                continue
            tally.clause("h2-header-list")
            # RFC 7541 4.1 size: name + value + 32 per field
            total = sum(len(a) + len(b) + 32 for a, b in hd)
            reached = any(e[4]["scope"].get("path") == "/t%d" % tag for e in ob.app_events(kind="start"))
            if total > case["limit"] and reached:
                findings.append({"clause": "h2-header-list", "sig": "C18.h2-header-list/exceeded", "backend": be,
                                 "detail": "header list of %d bytes reached the application with h2_max_header_list_size=%d" % (total, case["limit"])})
            if total <= case["limit"] - 64 and not reached:
                tally.notes["below-limit-refused(not judged here)"] += 1
        elif kind == "keepalive_max":
            lim, nreq = case["limit"], case["nreq"]
            by_tag = {}
            tags = [case["tag"] * 100 + i for i in range(nreq)]
            for tg in tags:
                by_tag[str(tg)] = _tag_app(tg, delay=case["app_delay"], extra=[tuple(case["app_header"])] if case.get("app_header") else ())
            if case.get("push"):
                for tg in (tags if case["push"] == "all-refused" else tags[:1]):
                    by_tag[str(tg)] = [["recv_until_end"], ["try_send", {"type": "http.response.push", "path": "/pushed", "headers": []}]] + by_tag[str(tg)][1:]
            if case["proto"] == "h1":
                reqs = [b"GET /t%d HTTP/1.1\r\nHost: h\r\n\r\n" % tg for tg in tags]
                client = [["feed", b"".join(reqs)]] if case["pace"] == "burst" else [["feed", r] for r in reqs]
                client.append(["settle"])
                c = {"config": {"keep_alive_max_requests": lim, "keep_alive_timeout": 5000}, "conn": {}, "apps": {"default": _tag_app(0), "by_tag": by_tag},
                     "client": client, "sched": {"seed": case["seed"]}, "horizon": 20.0}
            elif case["proto"] == "h2c":
                # the first request arrives as an HTTP/1.1 Upgrade: h2c and becomes stream 1; the others are streams 3, 5, ...
                fb = FrameBuilder()
                up = b"GET /t%d HTTP/1.1\r\nHost: h\r\nConnection: Upgrade, HTTP2-Settings\r\nUpgrade: h2c\r\nHTTP2-Settings: \r\n\r\n" % tags[0]
                pre = client_preface(fb, {})
                frames = [fb.headers(1 + 2 * i, [(b":method", b"GET"), (b":scheme", b"http"), (b":path", b"/t%d" % tg), (b":authority", b"h")], end_stream=True)
                          for i, tg in enumerate(tags) if i > 0]
                client = [["feed_nosettle", up], ["quiesce"]]
                client += [["feed", pre + b"".join(frames)]] if case["pace"] == "burst" else [["feed", pre]] + [["feed", f] for f in frames]
                client.append(["settle"])
                c = {"config": {"keep_alive_max_requests": lim, "keep_alive_timeout": 5000}, "conn": {}, "apps": {"default": _tag_app(0), "by_tag": by_tag},
                     "client": client, "reactor": {"kind": "h2", "credit": "auto", "skip_h1_101": True}, "sched": {"seed": case["seed"]}, "horizon": 20.0}
            elif case["pace"] == "blocked-flush":
                # the request that crosses the limit arrives while an earlier write of the server is held up by a client that is not reading,
                # and the reader is itself held up (an upload the application is slow to read) before it gets to write anything: the
                # GOAWAY it owes must survive whatever else is written in between
                fb = FrameBuilder()
                pre = client_preface(fb, {})
                n_pre = lim  # requests answered normally before
                frames = [fb.headers(1 + 2 * i, [(b":method", b"GET"), (b":scheme", b"http"), (b":path", b"/t%d" % tags[i]), (b":authority", b"h")], end_stream=True)
                          for i in range(n_pre)]
                cross_sid, cross_tag = 1 + 2 * n_pre, tags[n_pre]
                by_tag[str(cross_tag)] = [["wait", "go"], ["recv_until_end"], ["respond", 200, [(b"x-tag", b"%d" % cross_tag)], b"r%d" % cross_tag]]
                up = fb.headers(cross_sid, [(b":method", b"POST"), (b":scheme", b"http"), (b":path", b"/t%d" % cross_tag), (b":authority", b"h")], end_stream=False)
                up += b"".join(fb.data(cross_sid, b"u%02d" % j, end_stream=(j == 13)) for j in range(14))
                client = [["feed", pre]] + [["feed", f] for f in frames[:-1]] + [["pause"], ["feed", frames[-1]], ["settle"], ["feed", up], ["settle"],
                                                                                     ["resume"], ["settle"], ["trigger", "go"], ["settle"]]
                c = {"config": {"keep_alive_max_requests": lim, "keep_alive_timeout": 5000}, "conn": {}, "apps": {"default": _tag_app(0), "by_tag": by_tag},
                     "client": client, "reactor": {"kind": "h2", "credit": "auto"}, "sched": {"seed": case["seed"]}, "horizon": 20.0}
                tags = tags[:n_pre + 1]
                nreq = n_pre + 1
            else:
                fb = FrameBuilder()
                pre = client_preface(fb, {"extra_settings": {2: 0}} if case.get("push") == "all-refused" else {})  # SETTINGS_ENABLE_PUSH = 0
                frames = [fb.headers(1 + 2 * i, [(b":method", b"GET"), (b":scheme", b"http"), (b":path", b"/t%d" % tg), (b":authority", b"h")], end_stream=True)
                          for i, tg in enumerate(tags)]
                client = [["feed", pre + b"".join(frames)]] if case["pace"] == "burst" else [["feed", pre]] + [["feed", f] for f in frames]
                client.append(["settle"])
                c = {"config": {"keep_alive_max_requests": lim, "keep_alive_timeout": 5000}, "conn": {}, "apps": {"default": _tag_app(0), "by_tag": by_tag},
                     "client": client, "reactor": {"kind": "h2", "credit": "auto"}, "sched": {"seed": case["seed"]}, "horizon": 20.0}
            ob = run_case(c, be)
            obs_all.append(ob)
            if ob.harness_error or ob.handler == "exception":
                tally.inconclusive["harness-or-crash"] += 1
                continue
            tally.clause("keepalive-max")
            # (requests of the client's: an application the server starts for its own push is not one of them)
            started = sum(1 for e in ob.app_events(kind="start") if e[4]["scope"].get("path") != "/pushed")
            allowed = lim if case["proto"] == "h1" else lim + 1  # "one more on HTTP/2" (also when the connection was upgraded from h2c)
            if started > allowed:
                findings.append({"clause": "keepalive-max", "sig": "C18.keepalive-max/exceeded/%s" % case["proto"], "backend": be,
                                 "detail": "%d requests were started on one connection with keep_alive_max_requests=%d (%s, %s)" % (started, lim, case["proto"], case["pace"])})
            if case["proto"] == "h1":
                try:
                    resps, _ = h1.parse_responses(ob.outbytes, [("GET", "1.1")] * nreq, True)
                except h1.Malformed as e:
                    resps = []
                done = [r for r in resps if r.complete]
                if len(done) < min(lim, nreq):
                    findings.append({"clause": "keepalive-max", "sig": "C18.keepalive-max/fewer-served/h1", "backend": be,
                                     "detail": "only %d of the %d allowed requests were answered" % (len(done), lim)})
                elif lim <= len(done):
                    last = done[lim - 1]
                    toks = [x.strip().lower() for v in last.header(b"connection") for x in v.split(b",")]
                    if b"close" not in toks or ob.closed_at is None:
                        findings.append({"clause": "keepalive-max", "sig": "C18.keepalive-max/not-announced/h1", "backend": be,
                                         "detail": "response #%d (the maximum) headers %r; closed=%r" % (lim, last.headers, ob.closed_at)})
            else:
                rx = ob.reactor
                answered = [sid for sid, s in rx.streams.items() if s.status == 200 and s.ended == 1]
                if rx.goaway is None:
                    findings.append({"clause": "keepalive-max", "sig": "C18.keepalive-max/no-goaway/h2", "backend": be,
                                     "detail": "%d requests on one HTTP/2 connection with keep_alive_max_requests=%d and no GOAWAY" % (nreq, lim)})
                else:
                    # told to stop *gracefully*: no error code, the announced last stream is the last one handed to the application
                    # (so that the client knows exactly which requests to repeat elsewhere), and a later GOAWAY never raises it
                    lasts = [g.get("last") for g in rx.goaways]
                    started_ids = [1 + 2 * i for i, tg in enumerate(tags) if any(e[4]["scope"].get("path") == "/t%d" % tg for e in ob.app_events(kind="start"))]
                    if rx.goaways[0].get("code", 0) != 0:
                        findings.append({"clause": "keepalive-max", "sig": "C18.keepalive-max/goaway-error-code/h2", "backend": be,
                                         "detail": "GOAWAY at the request limit carries error code %r" % rx.goaways[0].get("code")})
                    elif started_ids and lasts[0] != max(started_ids):
                        findings.append({"clause": "keepalive-max", "sig": "C18.keepalive-max/goaway-last-stream/h2", "backend": be,
                                         "detail": "GOAWAY names last stream %r but streams %r were handed to the application" % (lasts[0], started_ids)})
                    elif any(b > a for a, b in zip(lasts, lasts[1:])):
                        findings.append({"clause": "keepalive-max", "sig": "C18.keepalive-max/goaway-last-stream-raised/h2", "backend": be,
                                         "detail": "successive GOAWAY frames name last streams %r" % lasts})
                # every request the server started must be answered (the client was told to stop, not cut off)
                started_tags = set()
                for e in ob.app_events(kind="start"):
                    started_tags.add(e[4]["scope"].get("path"))
                lost = []
                for i, tg in enumerate(tags):
                    if "/t%d" % tg in started_tags:
                        s = rx.streams.get(1 + 2 * i)
                        if s is None or s.status != 200 or bytes(s.data) != b"r%d" % tg or s.ended != 1:
                            lost.append(1 + 2 * i)
                if lost:
                    findings.append({"clause": "keepalive-max", "sig": "C18.lost-response/h2/goaway-at-max-requests", "backend": be,
                                     "detail": "streams %r were handed to the application but their responses never reached the client "
                                               "(keep_alive_max_requests=%d, pace %s, app delay %d)" % (lost, lim, case["pace"], case["app_delay"])})
    return findings, obs_all


def _cums(reads):
    c, out = 0, []
    for r in reads:
        c += r
        out.append(c)
    return out


def _max_requests(case, tally):
    if case.get("workers", 1) > 1:
        # a worker that has recycled itself is replaced by another one started from the *same* configuration object: the limit (and the
        # range of its jitter) is a property of the configuration, not of how many workers it has already served
        findings, cfg_obj = [], None
        for k in range(case["workers"]):
            f, _, cfg_obj = _max_requests_one(dict(case, workers=1), tally, config=cfg_obj, label="worker #%d" % (k + 1))
            findings += f
            if f:
                break
        return findings, [None]
    f, o, _ = _max_requests_one(case, tally)
    return f, o


def _max_requests_one(case, tally, config=None, label=""):
    from ..world.realnet import ServeHarness, recv_all, recv_until

    findings = []
    be = case["backend"]
    apps = {"websocket": [["recv"], ["send", {"type": "websocket.accept"}], ["recv_until_disconnect"]], "lifespan": [["recv"], ["send", {"type": "lifespan.startup.complete"}], ["recv"], ["send", {"type": "lifespan.shutdown.complete"}]],
            "default": [["recv_until_end"], ["respond", 200, [(b"content-length", b"2")], b"ok"]]}
    cfg = {"max_requests": case["max_requests"], "max_requests_jitter": case["jitter"], "graceful_timeout": 0.5, "shutdown_timeout": 0.5, "keep_alive_timeout": 5.0}
    how = case.get("how")
    if how == "h1_abandon":
        # the client has gone before the application answers: the request was taken on all the same
        apps["default"] = [["recv_until_end"], ["sleep", 0.15], ["respond", 200, [(b"content-length", b"2")], b"ok"]]
    elif how == "h1_concurrent":
        # requests held open simultaneously: none of them completes before the limit is exceeded
        apps["default"] = [["recv_until_end"], ["wait", "never"], ["respond", 200, [(b"content-length", b"2")], b"ok"]]
    held = []
    h = ServeHarness(be, cfg if config is None else {}, apps, config=config)
    h.no_trigger = how == "h1_no_trigger"
    if config is not None:
        h.config.bind = ["127.0.0.1:0"]
    served = 0
    try:
        h.start()
        h.wait_event(lambda e: e[2] == "app" and e[3] == "send.", 3.0)
        h.wait_ready()
        upper = case["max_requests"] + case["jitter"] + 1
        for i in range(upper + 6):
            if h.done.is_set():
                break
            s = h.connect(timeout=0.5)
            if s is None:
                break
            try:
                if how in ("h1_abandon", "h1_concurrent"):
                    s.sendall(b"GET /t%d HTTP/1.1\r\nHost: h\r\n\r\n" % i)
                    h.wait_event(lambda e, i=i: e[2] == "app" and e[3] == "start" and e[4]["scope"].get("path") == "/t%d" % i, 1.0)
                    if how == "h1_concurrent":
                        held.append(s)
                        s = None
                        if i + 1 >= upper:
                            break
                elif how in ("h1_ws", "h1_ws_refused"):
                    # every request of this run is a WebSocket handshake (accepted, or refused for its version): a request like any other
                    s.sendall(b"GET /t%d HTTP/1.1\r\nHost: h\r\nConnection: Upgrade\r\nUpgrade: websocket\r\nSec-WebSocket-Key: dGhlIHNhbXBsZSBub25jZQ==\r\n"
                              b"Sec-WebSocket-Version: %s\r\n\r\n" % (i, b"13" if how == "h1_ws" else b"12"))
                    d = recv_until(s, timeout=0.6)
                    if d.startswith(b"HTTP/1.1 101") or d.startswith(b"HTTP/1.1 4"):
                        served += 1
                elif case.get("how") == "h2c":
                    # every request of this run reaches the server as an h2c upgrade
                    s.sendall(b"GET /t%d HTTP/1.1\r\nHost: h\r\nConnection: Upgrade, HTTP2-Settings\r\nUpgrade: h2c\r\nHTTP2-Settings: \r\n\r\n" % i)
                    d, _ = recv_all(s, timeout=0.4)
                    if d.startswith(b"HTTP/1.1 101"):
                        served += 1
                else:
                    s.sendall(b"GET /t%d HTTP/1.1\r\nHost: h\r\nConnection: close\r\n\r\n" % i)
                    d, _ = recv_all(s, timeout=1.0)
                    if b" 200" in d[:15]:
                        served += 1
            except OSError:
                pass
            finally:
                if s is not None:
                    s.close()
            time.sleep(0.03)
        returned = h.wait_done(4.0)
        for s in held:
            s.close()
    finally:
        h.close()
    for e in h.trace.events:
        tally.events[e[2] + "." + e[3]] += 1
    tally.clause("max-requests")
    started = sum(1 for e in h.trace.events if e[2] == "app" and e[3] == "start" and e[4]["scope"].get("type") in ("http", "websocket"))
    if how == "h1_ws_refused":
        started = served  # (refused before an application is started: the answers the client got are the requests the worker took on)
    lo, hi = case["max_requests"], case["max_requests"] + case["jitter"] + 1
    if not returned:
        findings.append({"clause": "max-requests", "sig": "C18.max-requests/never-recycled/%s" % be, "backend": be,
                         "detail": "%s%d requests were taken on (max_requests=%d jitter=%d) and serve() did not begin its graceful exit" % (
                             label and label + ": ", started, case["max_requests"], case["jitter"])})
    elif not (lo < started <= hi):
        findings.append({"clause": "max-requests", "sig": "C18.max-requests/count-outside-range/%s" % be, "backend": be,
                         "detail": "%sserve() exited after taking on %d requests; the statement allows (%d, %d] for max_requests=%d jitter=%d" % (
                             label and label + ": ", started, lo, hi, case["max_requests"], case["jitter"])})
    return findings, [None], h.config


def _recycle_processes(case, tally):
    """The whole of "... begins a graceful exit so it can be replaced": the real master process (python -m hypercorn, spawn-ed workers,
    one shared listening socket) is driven request by request; a monitor inside the application logs which worker (pid) took on which
    request.  Decided causally on counts, never on durations: every worker that has gone took on more than max_requests and at most
    max_requests + jitter + 1 requests (sequential client), it was replaced (later requests are answered by other pids), no request was
    lost or answered twice while workers came and went, and SIGTERM ends the master with exit status 0."""
    import os, re, shutil, signal, socket, subprocess, sys, tempfile

    findings = []
    be, mr, jitter, workers, nreq = case["backend"], case["max_requests"], case["jitter"], case["workers"], case["nreq"]
    d = tempfile.mkdtemp(prefix="hv-c18p-")
    path, logf = os.path.join(d, "s.sock"), os.path.join(d, "log")
    env = dict(os.environ, HV_PROC_LOG=logf)
    cmd = [sys.executable, "-m", "hypercorn", "--bind", "unix:" + path, "--workers", str(workers), "--worker-class", be, "--max-requests", str(mr),
           "--graceful-timeout", "2", "hv.apps.procapp:app"]
    if jitter:
        cmd[-1:-1] = ["--max-requests-jitter", str(jitter)]
    proc = subprocess.Popen(cmd, env=env, stdout=subprocess.PIPE, stderr=subprocess.STDOUT, cwd=d,
                            start_new_session=True)  # (a process group of its own: workers a master leaves behind are cleared away with it)
    answers, errors, rc, out = [], [], None, b""
    try:
        end = time.monotonic() + 20.0
        while time.monotonic() < end and not os.path.exists(logf):
            time.sleep(0.05)  # a worker has completed its lifespan start-up
        retried = []
        for i in range(nreq):
            got = None
            for attempt in range(3):
                c = socket.socket(socket.AF_UNIX)
                c.settimeout(15.0)  # a watchdog, not a verdict: a replacement worker is a freshly spawned interpreter
                buf = b""
                try:
                    c.connect(path)
                    c.sendall(b"GET /r%d HTTP/1.1\r\nHost: h\r\nConnection: close\r\n\r\n" % i)
                    while True:
                        x = c.recv(65536)
                        if not x:
                            break
                        buf += x
                    got = buf
                    if buf == b"" and attempt < 2:
                        # closed without a single byte of response: a worker on its way out may do that to a connection it had already
                        # accepted - provided it has not handed the request to the application (checked below) - and the client asks again
                        retried.append(i)
                        continue
                    break
                except socket.timeout:
                    errors.append((i, "timeout"))
                    break
                except OSError as e:
                    if isinstance(e, (ConnectionResetError, BrokenPipeError)) and not buf and attempt < 2:
                        # the same refusal seen as a reset: the worker closed a connection whose request it had not read (the kernel then
                        # answers with RST instead of FIN); judged like the empty answer above
                        retried.append(i)
                        continue
                    errors.append((i, type(e).__name__))
                    break
                finally:
                    c.close()
            answers.append(got)
        proc.send_signal(signal.SIGTERM)
        try:
            out, _ = proc.communicate(timeout=20.0)
            rc = proc.returncode
        except subprocess.TimeoutExpired:
            rc = "timeout"
    finally:
        try:
            os.killpg(proc.pid, signal.SIGKILL)
        except (ProcessLookupError, PermissionError):
            pass
        if proc.poll() is None:
            proc.kill()
        try:
            proc.communicate(timeout=10.0)
        except subprocess.TimeoutExpired:
            pass
        log = open(logf).read().splitlines() if os.path.exists(logf) else []
        shutil.rmtree(d, ignore_errors=True)
    starts, order = {}, []
    for ln in log:
        f = ln.split()
        if len(f) == 4 and f[2] == "start":
            starts.setdefault(f[1], []).append(f[3])
            if f[1] not in order:
                order.append(f[1])
    tally.events["proc.requests-sent"] += nreq
    tally.events["proc.requests-started"] += sum(len(v) for v in starts.values())
    tally.events["proc.worker-pids"] += len(order)
    if any(e[1] == "timeout" for e in errors) or not log:
        tally.inconclusive["process-run-too-slow-or-not-started"] += 1
        return findings, [None]
    tally.clause("recycle-processes")
    lo, hi = mr, mr + jitter + 1
    # every request answered exactly once, by the worker that logged it
    lost = [i for i, a in enumerate(answers) if a is None or not a.startswith(b"HTTP/1.1 200") or (b"path=/r%d" % i) not in a]
    seen_paths = [p_ for v in starts.values() for p_ in v]
    dup = sorted({p_ for p_ in seen_paths if seen_paths.count(p_) > 1})
    if lost:
        findings.append({"clause": "max-requests", "sig": "C18.recycle/request-lost/%s" % be, "backend": be,
                         "detail": "requests %r (of %d, sequential, one connection each) were not answered with their 200 while workers were recycled "
                                   "(max_requests=%d jitter=%d workers=%d); errors %r; first answer %r" % (lost[:8], nreq, mr, jitter, workers, errors[:4],
                                                                                                       (answers[lost[0]] or b"")[:80])})
    if dup:
        # a request the client had to repeat (closed without any response) must not have reached an application the first time
        findings.append({"clause": "max-requests", "sig": "C18.recycle/request-started-then-dropped/%s" % be, "backend": be,
                         "detail": "paths %r were handed to an application, the connection was closed without a byte of response, and the repeated "
                                   "request was handed to an application again (requests repeated: %r)" % (dup[:5], sorted(set(retried))[:8])})
    tally.events["proc.requests-repeated-after-clean-refusal"] += len(set(retried))
    # workers that have gone (every pid but the last `workers` ones to appear can be alive at the end)
    # (how many requests one worker takes on is decided by the in-process family above: here a connection the worker had accepted before its
    #  listener closed may legitimately still be served inside the grace period, so the per-pid count has no sharp upper bound)
    per = {p_: len(v) for p_, v in starts.items()}
    total = sum(per.values())
    # with `workers` processes at most workers * hi requests fit without any replacement
    if total > workers * hi and len(per) <= workers:
        findings.append({"clause": "max-requests", "sig": "C18.recycle/never-replaced/%s" % be, "backend": be,
                         "detail": "%d requests were served by %d pid(s) with max_requests=%d jitter=%d" % (total, len(per), mr, jitter)})
    if rc != 0:
        if rc == "timeout":
            findings.append({"clause": "max-requests", "sig": "C18.recycle/master-did-not-exit/%s" % be, "backend": be,
                             "detail": "the master process had not exited 20 s after SIGTERM"})
        else:
            tally.notes["master-exit-status-%r" % rc] += 1
    return findings, [None]


def nontrivial(case, obs):
    return True


def check(case, obs, tally):
    return []
