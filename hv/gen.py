"""Seeded generators shared by several properties: structured HTTP requests (the ground truth)
and their serialisation for HTTP/1.x and HTTP/2, segmentations, paces."""
from __future__ import annotations

import re

from .apps.script import pattern
from .wire import h1
from .wire.h2raw import FrameBuilder, client_preface

METHODS = ["GET", "POST", "PUT", "DELETE", "PATCH", "OPTIONS", "PURGE", "M-SEARCH", "REPORT"]
_PCHARS = "abcdefghijklmnopqrstuvwxyzABCDEFGHIJKLMNOPQRSTUVWXYZ0123456789-._~!$&'()*+,;=:@"
_ESCAPES = ["%20", "%2F", "%2f", "%00", "%C3%A9", "%E2%82%AC", "%FF", "%C3", "%25", "%3F", "%zz", "%"]
_HNAMES = ["x-a", "X-Mixed-Case", "accept", "User-Agent", "REFERER", "x-b", "cookie", "x-long-name-0123456789", "Accept-Language"]
_VCH = "abcdefghijklmnopqrstuvwxyzABCDEFGHIJKLMNOPQRSTUVWXYZ0123456789!#$%&'*+-.^_`|~\"(),/:;<=>?@[\\]{}"


def pct_decode(raw: bytes) -> str:
    """Independent percent-decoder: %XX -> byte, then UTF-8 with replacement."""
    out = bytearray()
    i = 0
    n = len(raw)
    hexd = b"0123456789abcdefABCDEF"
    while i < n:
        c = raw[i]
        if c == 0x25 and i + 2 < n and raw[i + 1] in hexd and raw[i + 2] in hexd:
            out.append(int(raw[i + 1:i + 3], 16))
            i += 3
        else:
            out.append(c)
            i += 1
    return out.decode("utf-8", "replace")


def gen_path(rng, tag):
    segs = []
    for _ in range(rng.randint(0, 3)):
        s = "".join(rng.choice(_PCHARS) for _ in range(rng.randint(0, 6)))
        if rng.random() < 0.4:
            s += rng.choice(_ESCAPES)
            s += "".join(rng.choice(_PCHARS) for _ in range(rng.randint(0, 3)))
        segs.append(s)
    p = "/t%d" % tag
    if segs:
        p += "/" + "/".join(segs)
    if rng.random() < 0.05:
        p = rng.choice(["/", "//"]) + p  # empty leading segments: legal in a request target, an "authority" only to a URL parser
    return p.encode("ascii")


def gen_query(rng):
    r = rng.random()
    if r < 0.4:
        return None
    if r < 0.5:
        return b""
    s = "&".join(
        "".join(rng.choice(_PCHARS + "/?") for _ in range(rng.randint(0, 5))) + "=" +
        "".join(rng.choice(_PCHARS + "%20") for _ in range(rng.randint(0, 5)))
        for _ in range(rng.randint(1, 3))
    )
    return s.encode("ascii")


def gen_value(rng, h2=False):
    r = rng.random()
    if r < 0.12:
        return b""
    n = rng.choice([1, 2, 5, 12, 40, 300])
    v = "".join(rng.choice(_VCH) for _ in range(n))
    if rng.random() < 0.3 and n > 2:
        k = rng.randrange(1, n)
        v = v[:k] + rng.choice([" ", "\t", "  "]) + v[k:]
    b = v.encode("ascii")
    if rng.random() < 0.1:
        b += bytes([rng.randrange(0x80, 0x100)]) + b"z"
    return b


def gen_headers(rng, h2=False, maxn=12):
    hs = []
    for _ in range(rng.choice([0, 1, 2, 3, 5, maxn])):
        name = rng.choice(_HNAMES)
        if h2:
            name = name.lower()
            if name == "cookie":
                name = "x-c"  # h2 legitimately re-combines cookie crumbs (RFC 7540 8.1.2.5)
        elif rng.random() < 0.3:
            name = "".join(c.upper() if rng.random() < 0.5 else c.lower() for c in name)
        hs.append((name.encode(), gen_value(rng, h2)))
    return hs


BODY_SIZES_Q = [0, 0, 1, 2, 17, 1024, 65535, 65536, 65537, 200 * 1024]
BODY_SIZES_T = BODY_SIZES_Q + [1024 * 1024, 16384, 16385, 131072 + 5]


def gen_request(rng, tag, version, tier="quick", body_sizes=None, methods=None):
    """Structured request = the ground truth the oracle reconstructs expectations from."""
    method = rng.choice(methods or METHODS)
    size = rng.choice(body_sizes or (BODY_SIZES_T if tier == "thorough" else BODY_SIZES_Q))
    if method in ("GET", "DELETE", "OPTIONS") and rng.random() < 0.7:
        size = 0
    body = pattern(("req", tag), 0, size)
    req = {
        "tag": tag, "method": method, "path": gen_path(rng, tag), "query": gen_query(rng),
        "headers": gen_headers(rng, h2=(version == "2")), "version": version, "body": body,
        "authority": b"host%d.example" % tag,
    }
    if version == "2":
        req["framing"] = "data"
        req["frame_sizes"] = gen_chunks(rng, size, cap=16384)
        req["pad"] = rng.choice([0, 0, 0, 1, 7, 200])
    else:
        if size == 0:
            req["framing"] = rng.choice([None, "cl", "chunked"]) if method not in ("GET",) else rng.choice([None, None, "cl"])
        else:
            req["framing"] = rng.choice(["cl", "chunked"]) if version == "1.1" else "cl"
        if version == "1.0" and req["framing"] == "chunked":
            req["framing"] = "cl"
        if version == "1.1" and size and rng.random() < 0.12:
            # the server interposes "100 Continue" once the application asks for the body
            req["headers"] = list(req["headers"]) + [(rng.choice([b"Expect", b"expect"]), rng.choice([b"100-continue", b"100-Continue"]))]
        req["chunks"] = gen_chunks(rng, size, cap=65536 * 2)
        req["chunk_ext"] = rng.choice([b"", b"", b";ext=1", b";a;b=\"q\""])
        req["ows"] = [rng.choice([b"", b" ", b"  ", b"\t"]) for _ in req["headers"]]
    return req


def gen_chunks(rng, size, cap):
    if size == 0:
        return []
    mode = rng.choice(["one", "small", "mixed", "many"])
    if mode == "one":
        out = []
        left = size
        while left > 0:
            n = min(cap, left)
            out.append(n)
            left -= n
        return out
    out = []
    left = size
    while left > 0:
        if mode == "small":
            n = rng.choice([1, 2, 3, 7, 64])
            if len(out) > 40:
                n = cap
        elif mode == "many":
            n = max(1, size // 37)
        else:
            n = rng.choice([1, 100, 1000, 16383, 16384, cap])
        n = min(n, left, cap)
        out.append(n)
        left -= n
    return out


def expected_scope(req, conn, config=None):
    """What the statement says the scope must report for this request."""
    config = config or {}
    tls = bool(conn.get("tls"))
    fam = conn.get("family", "inet")
    if fam == "unix":
        client = server = None
    else:
        peer = conn.get("peer", ("203.0.113.7", 40000))
        name = conn.get("name", ("198.51.100.1", 8000))
        client, server = (peer[0], peer[1]), (name[0], name[1])
    if req["version"] == "2":
        headers = [(b"host", req["authority"])] + [(n, v) for n, v in req["headers"]]
    else:
        raw = config.get("h11_pass_raw_headers", False)
        headers = []
        if req.get("host", True):
            headers.append((b"Host" if raw else b"host", req["authority"]))
        for n, v in req["headers"]:
            headers.append((n if raw else n.lower(), v.strip(b" \t")))
        if req["framing"] == "cl":
            headers.append((b"content-length", b"%d" % len(req["body"])))
        elif req["framing"] == "chunked":
            headers.append((b"transfer-encoding", b"chunked"))
    return {
        "type": "http",
        "method": req["method"].upper(),
        "raw_path": req["path"] if not req.get("abs_empty_path") else b"/",
        "path": pct_decode(req["path"]) if not req.get("abs_empty_path") else "/",
        "query_string": req["query"] or b"",
        "headers": headers,
        "http_version": req["version"],
        "scheme": "https" if tls else "http",
        "client": client,
        "server": server,
    }


def serialize_h1(req, body_upto=None, omit_end=False):
    target = req["path"] + (b"?" + req["query"] if req["query"] is not None else b"")
    if req.get("absolute"):
        # absolute-form (RFC 7230 5.3.2), which a server has to accept: the same resource, the same path
        if req.get("abs_empty_path"):
            target = b"?" + req["query"]
        target = req["absolute"] + req["authority"] + target
    hs = []
    if req.get("host", True):
        hs.append((b"Host", req["authority"]))
    ows = req.get("ows") or [b""] * len(req["headers"])
    for (n, v), o in zip(req["headers"], ows):
        hs.append((n, v, n + b":" + o + v + o + b"\r\n"))
    data = h1.build_request(req["method"].encode(), target, hs, req["version"], req["body"], req["framing"],
                            req.get("chunks"), req.get("chunk_ext", b""))
    return data


def h1_head_len(data):
    return data.index(b"\r\n\r\n") + 4


def serialize_h2(fb, req, sid, scheme=b"http", priority=None, cont_split=None, extra_pseudo=None):
    target = req["path"] + (b"?" + req["query"] if req["query"] is not None else b"")
    hdrs = [(b":method", req["method"].encode()), (b":scheme", scheme), (b":path", target),
            (b":authority", req["authority"])]
    if extra_pseudo:
        hdrs.extend(extra_pseudo)
    if req.get("h2_host_too"):
        # a Host header beside :authority (legal, e.g. a request translated from HTTP/1.1): the scope takes host from :authority, once
        hdrs.append((b"host", req["authority"]))
    hdrs.extend(req["headers"])
    body = req["body"]
    out = bytearray(fb.headers(sid, hdrs, end_stream=(len(body) == 0), priority=priority, cont_split=cont_split))
    off = 0
    sizes = req.get("frame_sizes") or []
    for i, n in enumerate(sizes):
        piece = body[off:off + n]
        off += n
        last = off >= len(body)
        out += fb.data(sid, piece, end_stream=last, pad=req.get("pad", 0) if n + req.get("pad", 0) + 1 <= 16384 else 0)
    return bytes(out)


def gen_splits(rng, n, mode=None):
    """Sizes of the network reads for n bytes."""
    mode = mode or rng.choice(["one", "two", "k", "bytes", "big"])
    if mode == "one" or n <= 1:
        return [n]
    if mode == "two":
        k = rng.randrange(1, n)
        return [k, n - k]
    if mode == "bytes":
        if n <= 600:
            return [1] * n
        head = [1] * 300
        return head + [n - 300]
    if mode == "big":
        out, left = [], n
        while left > 0:
            k = min(left, rng.choice([65536, 65535, 100000, 4096]))
            out.append(k)
            left -= k
        return out
    k = rng.randint(2, min(40, n))
    cuts = sorted(rng.sample(range(1, n), k - 1)) if n > k else list(range(1, n))
    out, prev = [], 0
    for c in cuts:
        out.append(c - prev)
        prev = c
    out.append(n - prev)
    return out


def stagger_client(rng, client, p=0.5):
    """Timing perturbation for generators whose ground truth does not depend on when bytes arrive: some `feed` steps (which let the
    server run to quiescence before the client goes on) become `feed_nosettle` + `turns k`, so that the following bytes arrive k
    scheduler turns into the server's reaction - between two of its awaits - instead of after it has finished reacting."""
    out = []
    n = len(client)
    for i, st in enumerate(client):
        if st[0] == "feed" and i < n - 1 and isinstance(st[1], (bytes, bytearray)) and rng.random() < p:
            out.append(["feed_nosettle", st[1]])
            out.append(["turns", rng.choice([0, 1, 1, 2, 3, 5, 8])])
        else:
            out.append(st)
    return out
