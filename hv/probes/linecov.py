"""Line-coverage probe (sys.monitoring, each location disabled after its first hit, so the cost is negligible).
Enabled by HV_COVERAGE=<dir>: every shard process dumps the set of (hypercorn file, line) it executed to <dir>/<pid>.json.
selftest/coverage.py merges the dumps and lists, per anchored source file, the executable lines no check ever reached —
a map of what the workloads do *not* drive, used to direct generator work.  It decides nothing."""
from __future__ import annotations

import atexit
import json
import os
import sys

_hits = set()


def install():
    out = os.environ.get("HV_COVERAGE")
    if not out or not hasattr(sys, "monitoring"):
        return
    root = os.path.realpath(os.environ.get("HYPERCORN_SRC", "/repo/src")) + os.sep
    mon = sys.monitoring
    tool = mon.COVERAGE_ID
    try:
        mon.use_tool_id(tool, "hv-linecov")
    except ValueError:
        return

    def on_line(code, line):
        fn = code.co_filename
        if fn.startswith(root):
            _hits.add((fn[len(root):], line))
        return mon.DISABLE

    mon.register_callback(tool, mon.events.LINE, on_line)
    mon.set_events(tool, mon.events.LINE)

    def dump():
        os.makedirs(out, exist_ok=True)
        with open(os.path.join(out, "%d.json" % os.getpid()), "w") as f:
            json.dump(sorted(_hits), f)

    atexit.register(dump)
