"""Virtual-time asyncio event loop with quiescence detection.

The loop's clock is virtual; the selector never blocks.  When nothing is runnable at the
current virtual instant the selector either wakes a harness task that asked for
``quiescent()``, moves the clock towards the harness's ``advance``/``finish`` target (running
every server-owned timer that becomes due on the way), or reports permanent quiescence.

The harness never schedules timers of its own in the loop, so "no timer pending" always
refers to timers owned by the code under observation.
"""
from __future__ import annotations

import asyncio
import selectors

INF = float("inf")


class Deadlock(RuntimeError):
    pass


class SpinDetected(RuntimeError):
    pass


SPIN_LIMIT = 20000  # loop iterations without any trace event and without a clock advance


class _VSelector:
    def __init__(self, real, loop):
        self._real = real
        self._loop = loop

    def __getattr__(self, name):
        return getattr(self._real, name)

    def select(self, timeout=None):
        ev = self._real.select(0)
        if ev:
            return ev
        loop = self._loop
        if timeout == 0:
            return []  # callbacks are ready: not quiescent
        if loop.real_waiters - loop.thread_parked > 0:
            # an executor thread is outstanding; it will wake us through the self-pipe
            loop.real_selects += 1
            return self._real.select(0.02)
        # ---- quiescent at the current virtual instant -------------------------------------
        loop.idle_points += 1
        if loop._quiesce_waiters:
            ws, loop._quiesce_waiters = loop._quiesce_waiters, []
            for f in ws:
                if not f.done():
                    f.set_result(timeout)
            return []
        if loop._adv is not None:
            fut, target, stop_dead = loop._adv
            nxt = INF if timeout is None else loop._next_when(timeout)
            if nxt == INF and stop_dead:
                loop._adv = None
                if not fut.done():
                    fut.set_result("dead")
                return []
            if nxt <= target:
                if nxt > loop.vtime:
                    loop.vtime = nxt
                    loop.jumps += 1
                else:
                    # timer due "now" within clock resolution
                    loop.vtime += loop._clock_resolution
                return []
            loop.vtime = max(loop.vtime, target)
            loop._adv = None
            if not fut.done():
                fut.set_result("time")
            return []
        if timeout is None:
            raise Deadlock("nothing runnable, no timers, harness not waiting")
        # nobody from the harness is waiting but timers exist: jump to them
        loop.vtime = max(loop.vtime, loop._next_when(timeout))
        loop.jumps += 1
        return []


class VirtualLoop(asyncio.SelectorEventLoop):
    def __init__(self):
        super().__init__(selectors.DefaultSelector())
        self._selector = _VSelector(self._selector, self)
        self.vtime = 0.0
        self.jumps = 0
        self.steps = 0
        self.idle_points = 0
        self.real_waiters = 0
        self.thread_parked = 0  # executor threads that are themselves waiting for a coroutine they handed to this loop
        self.real_selects = 0
        self._quiesce_waiters = []
        self._adv = None
        self._clock_resolution = 1e-9
        self.spin_trace = None
        self._spin_n = self._spin_t = self._spin_at = 0

    def time(self):
        return self.vtime

    def _next_when(self, timeout):
        # exact deadline of the earliest live timer (avoids float drift of vtime + timeout)
        try:
            when = self._scheduled[0]._when
            if abs(when - (self.vtime + timeout)) < 1e-6:
                return when
        except Exception:
            pass
        return self.vtime + timeout

    def _run_once(self):
        self.steps += 1
        tr = self.spin_trace
        if tr is not None:
            n = len(tr.events)
            if n != self._spin_n or self.vtime != self._spin_t:
                self._spin_n, self._spin_t, self._spin_at = n, self.vtime, self.steps
            elif self.steps - self._spin_at > SPIN_LIMIT:
                self.spin_trace = None
                raise SpinDetected("%d loop iterations without an event or clock advance" % (self.steps - self._spin_at))
        super()._run_once()

    def run_in_executor(self, executor, func, *args):
        fut = super().run_in_executor(executor, func, *args)
        self.real_waiters += 1

        def _done(_):
            self.real_waiters -= 1

        fut.add_done_callback(_done)
        return fut

    # ---- harness time primitives ----------------------------------------------------------
    async def quiescent(self):
        """Return when every task is blocked at the current virtual instant.

        Result: seconds to the next timer, or None when no timer exists."""
        f = self.create_future()
        self._quiesce_waiters.append(f)
        return await f

    async def advance(self, seconds):
        """Move the virtual clock to now+seconds, running everything that becomes due."""
        await self.quiescent()
        f = self.create_future()
        self._adv = (f, self.vtime + seconds, False)
        r = await f
        await self.quiescent()
        return r

    async def finish(self, horizon):
        """Advance until permanent quiescence or ``horizon`` virtual seconds. Returns 'dead'|'time'."""
        await self.quiescent()
        f = self.create_future()
        self._adv = (f, self.vtime + horizon, True)
        r = await f
        if r == "time":
            await self.quiescent()
        return r


def run(coro_fn, debug=False):
    loop = VirtualLoop()
    loop.set_debug(debug)
    asyncio.set_event_loop(loop)
    try:
        return loop.run_until_complete(coro_fn(loop))
    finally:
        try:
            loop.run_until_complete(loop.shutdown_asyncgens())
        except Exception:
            pass
        asyncio.set_event_loop(None)
        loop.close()


_orig_rcts = asyncio.run_coroutine_threadsafe


def _run_coroutine_threadsafe(coro, loop):
    """An executor thread that calls back into the loop and waits for the result (WSGI's send path) is not running: it is parked on
    loop-side work.  Counting it as parked lets the virtual loop reach quiescence while that work is blocked (back-pressure)."""
    fut = _orig_rcts(coro, loop)
    if isinstance(loop, VirtualLoop):
        def _begin():
            loop.thread_parked += 1

        def _end(_):
            loop.thread_parked -= 1  # runs on the loop thread, before the waiting thread wakes up

        # _end first: if the work is already done the count errs on the side of "thread running" (never quiescent too early)
        fut.add_done_callback(_end)
        loop.call_soon_threadsafe(_begin)
    return fut


asyncio.run_coroutine_threadsafe = _run_coroutine_threadsafe
