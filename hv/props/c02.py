"""C02 — HTTP response delivery fidelity and legal framing."""
from __future__ import annotations

import re
import time

from .. import gen as G
from ..apps.script import pattern
from ..wire import h1
from ..wire.h2raw import FrameBuilder, client_preface

ID = "C02"
LEVEL = "exploration"
BUDGET = {"quick": 40, "thorough": 600}
TECHNIQUE = ("independent strict HTTP/1 response parser + stateless HTTP/2 frame reader over recorded server bytes, "
             "compared with what the scripted application sent")
LEVEL_TEXT = ("Seeded exploration of statuses x header lists x chunkings x methods x protocol versions x client consumption "
              "paces on both workers; the oracle re-parses the server's bytes independently and compares status, header "
              "order, body and end-of-response with the application's messages.")
LEVEL_NOTE = "Trusted: the harness's own parsers (hv/wire), hpack/hyperframe, in-memory transport model."
RULE = ("structured response specs (status, 0-10 headers incl. repeats and consistent content-length, chunk-size lists "
        "with empty/1-byte/frame-size/window-size chunks up to 1 MiB, HEAD/204/304, trailers) x HTTP/1.0/1.1/2/h2c x "
        "client pace (transport pause/resume, HTTP/2 windows 1..1MiB with auto/drip credit); non-trivial = a complete "
        "response was parsed and compared; distinct = distinct case hash")
ASSUMPTIONS = [
    "application header names are lower-case and exclude connection-specific fields (outside 'well-formed for the protocol')",
    "1xx is not used as a final status",
]
MIN_DECISIVE = {"h1.parse": 20, "h1.headers": 20, "h1.body": 20, "h2.headers": 20, "h2.body": 20, "h2.end": 20, "real-download": 6}
import os
NO_TRAILERS = bool(os.environ.get('HV_NO_TRAILERS'))
N_CASES = {"quick": 2500, "thorough": 50000}

STATUSES = [200, 200, 200, 201, 204, 206, 301, 304, 404, 418, 500, 599]
SERVER_NAMES = {b"date", b"server", b"alt-svc", b"connection", b"transfer-encoding"}
# incl. names the server also produces itself (an application relaying an upstream's headers): they are the application's all the same
_RH = ["x-a", "x-b", "content-type", "set-cookie", "cache-control", "x-long-header-name-abcdefghijklmnopqrstuvwxyz", "vary", "etag",
       "date", "server", "alt-svc"]


def gen_resp(rng, tag, tier, h2, method):
    # "exactly for ... 204/304": every other final status keeps its body - neighbours of the special ones and arbitrary codes
    status = rng.choice(STATUSES) if rng.random() < 0.6 else rng.choice([202, 203, 205, 205, 207, 300, 302, 303, 305, 307, 400, 416, rng.randrange(200, 600)])
    nchunks = rng.choice([0, 1, 1, 2, 3, 6, 15])
    sizes = []
    big = [16383, 16384, 16385, 65535, 65536, 70000] + ([1 << 20, 300000] if tier == "thorough" else [200000])
    for _ in range(nchunks):
        sizes.append(rng.choice([0, 1, 1, 2, 10, 100, 1000, 5000] + ([rng.choice(big)] if rng.random() < 0.35 else [])))
    if not sizes:
        sizes = [0]
    headers = []
    for _ in range(rng.choice([0, 1, 2, 4, 10])):
        n = rng.choice(_RH)
        headers.append((n.encode(), G.gen_value(rng, h2=True).strip(b" \t")))
    total = sum(sizes)
    cl = rng.random() < 0.4
    suppressed = method == "HEAD" or status in (204, 304)
    if cl:
        if status == 204:
            cl = False
        elif status == 304 or method == "HEAD":
            headers.insert(rng.randint(0, len(headers)), (b"content-length", b"%d" % total))
        else:
            headers.insert(rng.randint(0, len(headers)), (b"content-length", b"%d" % total))
    return {"tag": tag, "status": status, "headers": headers, "sizes": sizes, "cl": cl, "suppressed": suppressed,
            "total": total, "pause_k": rng.choice([0, 0, 1, 3])}


def resp_script(resp, trailers=None):
    start = {"type": "http.response.start", "status": resp["status"], "headers": list(resp["headers"])}
    if trailers is not None:
        start["trailers"] = True
    sc = [["recv_until_end"], ["send", start], ["send_chunks", ("resp", resp["tag"]), resp["sizes"], resp["pause_k"]]]
    if trailers is not None and len(trailers) > 1:
        # the trailers come in two messages (more_trailers): the client still sees them all
        sc.append(["try_send", {"type": "http.response.trailers", "headers": trailers[:1], "more_trailers": True}])
        sc.append(["try_send", {"type": "http.response.trailers", "headers": trailers[1:], "more_trailers": False}])
    elif trailers is not None:
        sc.append(["try_send", {"type": "http.response.trailers", "headers": trailers, "more_trailers": False}])
    return sc


def _case_h1(rng, tier, n):
    version = rng.choice(["1.1", "1.1", "1.1", "1.0"])
    nreq = 1 if version == "1.0" else rng.choice([1, 2, 3])
    config = {"keep_alive_timeout": 5}
    if rng.random() < 0.15:
        config["include_server_header"] = False
    if rng.random() < 0.1:
        config["include_date_header"] = False
    if rng.random() < 0.15:
        config["alt_svc_headers"] = ['h3=":443"; ma=3600']
    if rng.random() < 0.2:
        config["keep_alive_max_requests"] = rng.choice([1, 2, 3])
    reqs, resps, by_tag, client = [], [], {}, []
    for i in range(nreq):
        tag = n * 10 + i
        method = rng.choice(["GET", "GET", "HEAD", "POST"])
        req = G.gen_request(rng, tag, version, tier, body_sizes=[0, 5, 2000], methods=[method])
        resp = gen_resp(rng, tag, tier, False, method)
        if rng.random() < 0.08:
            # an application that announces and sends trailers whatever the protocol (sometimes to a client that says "TE: trailers", which
            # HTTP/1.1 clients may): on HTTP/1.x they are not emitted - and the response is complete all the same
            if rng.random() < 0.5:
                req["headers"] = list(req["headers"]) + [(b"TE", b"trailers")]
                req["ows"] = list(req.get("ows") or []) + [b" "]
            by_tag[str(tag)] = resp_script(resp, [(b"x-trailer", b"v%d" % tag)] + ([(b"x-checksum", b"c")] if rng.random() < 0.4 else []))
        else:
            by_tag[str(tag)] = resp_script(resp)
        reqs.append(req)
        resps.append(resp)
        data = G.serialize_h1(req)
        pause = rng.random() < 0.3
        if pause:
            client.append(["pause"])
        client.append(["feed", data])
        if pause:
            client.append(["resume"])
        client.append(["settle"])
    client.append(["eof"])
    return {"family": "h1." + version, "backends": ["asyncio", "trio"], "config": config, "conn": {},
            "apps": {"default": [["recv_until_end"], ["respond", 200, [], b"d"]], "by_tag": by_tag},
            "client": client, "truth": {"requests": reqs, "responses": resps, "proto": "h1"},
            "sched": {"seed": rng.randrange(1 << 30), "net_jitter": rng.choice([None, None, [0.3, 3]])}}


def _case_h1_slow_close(rng, tier, n):
    """A response after which the server itself closes the connection (HTTP/1.0, or the last request the connection may carry), towards a
    client that takes what it is sent slowly - more slowly than keep_alive_timeout in all, but steadily.  The close has to wait for it:
    what the transport still holds when the server closes is part of the response.  (asyncio: the transport buffers; a trio stream has
    handed everything to the kernel before send_all() returns.)"""
    version = rng.choice(["1.0", "1.1"])
    T = 1.0
    config = {"keep_alive_timeout": T}
    if version == "1.1":
        config["keep_alive_max_requests"] = 1
    tag = n * 10
    req = G.gen_request(rng, tag, version, tier, body_sizes=[0], methods=["GET"])
    resp = gen_resp(rng, tag, tier, False, "GET")
    if resp["total"] < 20000:
        resp["sizes"] = list(resp["sizes"]) + [rng.choice([20000, 60000])]
        resp["total"] = sum(resp["sizes"])
        resp["headers"] = [h for h in resp["headers"] if h[0] != b"content-length"]
        resp["cl"] = False
    k = rng.choice([6, 8, 12])
    step = (resp["total"] + resp["total"] // 50 + 4000) // k + 1  # (chunked framing and the head included)
    client = [["pause"], ["feed", G.serialize_h1(req)], ["settle"]]
    for _ in range(k + 2):
        client += [["advance", rng.choice([0.3, 0.45])], ["take", step]]
    client += [["settle"]]
    return {"family": "h1.%s.slow-reader-at-close" % version, "backends": ["asyncio"], "config": config, "conn": {"write_buffer": 1 << 22},
            "apps": {"default": [["recv_until_end"], ["respond", 200, [], b"d"]], "by_tag": {str(tag): resp_script(resp)}},
            "client": client, "truth": {"requests": [req], "responses": [resp], "proto": "h1"},
            "sched": {"seed": rng.randrange(1 << 30)}}


def _case_h1_slow_halfclosed(rng, tier, n):
    """A client that has finished sending (it half-closed after its request) and takes a large response slowly but steadily - one part
    of the body is far larger than what it takes within keep_alive_timeout.  It is making progress all the time: the response it asked
    for is delivered whole.  (A client that takes nothing for that long is C07/C08's subject.)"""
    T = 1.0
    tag = n * 10
    req = G.gen_request(rng, tag, "1.1", tier, body_sizes=[0], methods=["GET"])
    resp = gen_resp(rng, tag, tier, False, "GET")
    resp["sizes"] = [rng.choice([200000, 400000])] + ([rng.choice([10, 70000])] if rng.random() < 0.5 else [])
    resp["total"] = sum(resp["sizes"])
    resp["headers"] = [h for h in resp["headers"] if h[0] != b"content-length"]
    resp["cl"] = False
    resp["pause_k"] = 0
    be = rng.choice(["asyncio", "trio"])  # (asyncio: the transport buffers; trio: send_all() itself waits for the client)
    client = [["pause"], ["feed", G.serialize_h1(req)], ["settle"], ["eof"]]
    for _ in range(resp["total"] // 60000 + 6):  # (a take ends at the end of the write that is in progress)
        client += [["advance", rng.choice([0.3, 0.45])], ["take", 70000]]
    client += [["resume"], ["settle"]]
    return {"family": "h1.1.1.slow-reader-half-closed", "backends": [be], "config": {"keep_alive_timeout": T},
            "conn": {"write_buffer": 1 << 22} if be == "asyncio" else {},
            "apps": {"default": [["recv_until_end"], ["respond", 200, [], b"d"]], "by_tag": {str(tag): resp_script(resp)}},
            "client": client, "truth": {"requests": [req], "responses": [resp], "proto": "h1"},
            "sched": {"seed": rng.randrange(1 << 30)}}


def _case_h2(rng, tier, n, h2c=False):
    nreq = 1 if h2c else rng.choice([1, 2, 3, 4])
    tls = (not h2c) and rng.random() < 0.5
    config = {"keep_alive_timeout": 5}
    if rng.random() < 0.15:
        config["alt_svc_headers"] = ['h3=":443"; ma=3600']
    iw = rng.choice([65535, 65535, 1, 100, 16383, 1 << 20])
    mf = rng.choice([16384, 16384, 32768, (1 << 24) - 1])
    credit = rng.choice(["auto", "auto", {"drip": rng.choice([1, 1000, 16384, 100000])},
                         {"drip": 5000, "order": "conn_first"}])
    rspec = {"kind": "h2", "credit": credit, "initial_window": iw, "max_frame": mf}
    if rng.random() < 0.2:
        rspec["prio_after_credit"] = rng.choice([[16], [1, 255], [200, 3, 77]])  # PRIORITY for a stream is the last frame after its credit
    fb = FrameBuilder()
    reqs, resps, by_tag = [], [], {}
    small_credit = iw < 1000 or (isinstance(credit, dict) and credit["drip"] < 5000)
    blob = bytearray()
    client = []
    for i in range(nreq):
        tag = n * 10 + i
        sid = 1 + 2 * i
        method = rng.choice(["GET", "GET", "HEAD", "POST"])
        want_trailers = rng.random() < 0.25 and not NO_TRAILERS
        te = rng.random() < 0.6
        if h2c:
            req = G.gen_request(rng, tag, "1.1", tier, body_sizes=[0], methods=[method])
            req["framing"] = None
        else:
            req = G.gen_request(rng, tag, "2", tier, body_sizes=[0, 5, 2000], methods=[method])
        if te and want_trailers and not h2c:
            req["headers"] = list(req["headers"]) + [(b"te", b"trailers")]
        req["sid"] = sid
        resp = gen_resp(rng, tag, tier, True, method)
        if small_credit and resp["total"] > 3000:
            # keep the number of credit round trips per case bounded (~300)
            resp["sizes"] = [min(x, 400) for x in resp["sizes"]][:6]
            resp["total"] = sum(resp["sizes"])
            resp["headers"] = [h for h in resp["headers"] if h[0] != b"content-length"]
            resp["cl"] = False
        trailers = None
        if want_trailers and not h2c:
            trailers = [(b"x-trailer", b"v%d" % tag)] + ([(b"x-checksum", b"c%d" % tag)] if rng.random() < 0.4 else [])
            resp["trailers"] = trailers
            resp["te"] = te
        by_tag[str(tag)] = resp_script(resp, trailers)
        reqs.append(req)
        resps.append(resp)
    if h2c:
        req = reqs[0]
        import base64

        st = fb.settings({4: iw} if iw != 65535 else {})[9:]
        req["headers"] = [(b"Connection", b"Upgrade, HTTP2-Settings"), (b"Upgrade", b"h2c"),
                          (b"HTTP2-Settings", base64.urlsafe_b64encode(st).rstrip(b"="))]
        req["ows"] = [b" "] * 3
        rspec["skip_h1_101"] = True
        data = G.serialize_h1(req)
        pre = client_preface(fb, rspec)
        if rng.random() < 0.5:
            client.append(["feed", data + pre])
        else:
            client.append(["feed_nosettle", data])
            client.append(["quiesce"])
            client.append(["feed", pre])
    else:
        blob += client_preface(fb, rspec)
        for req in reqs:
            blob += G.serialize_h2(fb, req, req["sid"], scheme=b"https" if tls else b"http")
        client.append(["feed_split", bytes(blob), G.gen_splits(rng, len(blob), rng.choice(["one", "two", "k"]))])
        if iw >= 16383 and rng.random() < 0.12:
            # the client lowers SETTINGS_INITIAL_WINDOW_SIZE while responses are stalled (windows go negative), then re-opens them
            rspec["credit"] = "none"
            need = sum(r_["total"] for r_ in resps) + 10
            client.append(["react", "settings", {"4": iw // 2}])
            client.append(["react", "window_update", 0, need])
            client.append(["react", "settings", {"4": min((1 << 31) - 1, iw + need)}])
    client.append(["settle"])
    cut = False
    if not h2c and not tls and rspec.get("credit") == "auto" and rng.random() < 0.08:
        # the client stops reading, finishes sending (half-close) and reads again: whatever the server makes of the half-close, a response
        # it has not sent in full must not be *ended* as if it were complete
        cut = True
        if rng.random() < 0.5:
            client = [["pause"]] + client + [["eof"], ["settle"], ["resume"], ["settle"]]
        else:
            # ... stops reading a few scheduler turns into the server's answering
            client = [["feed_nosettle", bytes(blob)], ["turns", rng.choice([1, 2, 3, 5, 8, 13])], ["pause"], ["settle"], ["eof"], ["settle"], ["resume"], ["settle"]]
    return {"family": ("h2c" if h2c else ("h2.tls" if tls else "h2.prior")) + (".pause-eof-resume" if cut else ""), "backends": ["asyncio", "trio"],
            "config": config, "conn": {"tls": tls, "alpn": "h2" if tls else None},
            "apps": {"default": [["recv_until_end"], ["respond", 200, [], b"d"]], "by_tag": by_tag},
            "client": client, "reactor": rspec,
            "truth": {"requests": reqs, "responses": resps, "proto": "h2c" if h2c else "h2", "cut": cut},
            "sched": {"seed": rng.randrange(1 << 30), "net_jitter": rng.choice([None, None, [0.3, 3]])}}


def _case_h2_client_goaway(rng, tier, n):
    """A client shutting down gracefully: GOAWAY(NO_ERROR) - it will open no further streams - while a response is still in flight
    (stalled on the client's flow-control window), then it goes on reading: the response it asked for is still owed to it in full."""
    fb = FrameBuilder()
    iw = rng.choice([1, 100, 1000])
    rspec = {"kind": "h2", "credit": "none", "initial_window": iw}
    tag = n * 10
    req = G.gen_request(rng, tag, "2", tier, body_sizes=[0], methods=["GET"])
    req["sid"] = 1
    resp = gen_resp(rng, tag, tier, True, "GET")
    if resp["total"] <= iw:
        resp["sizes"] = list(resp["sizes"]) + [iw + 500]
        resp["total"] = sum(resp["sizes"])
        resp["headers"] = [h for h in resp["headers"] if h[0] != b"content-length"]
        resp["cl"] = False
    blob = client_preface(fb, rspec) + G.serialize_h2(fb, req, 1)
    need = resp["total"] + 10
    client = [["feed", blob], ["settle"], ["feed", fb.goaway(last=0, code=0)]] + ([["settle"]] if rng.random() < 0.5 else []) + \
             [["react", "window_update", 0, need], ["react", "settings", {"4": min((1 << 31) - 1, iw + need)}], ["settle"]]
    return {"family": "h2.client-goaway-response-in-flight", "backends": ["asyncio", "trio"], "config": {"keep_alive_timeout": 5},
            "conn": {"tls": False, "alpn": None}, "apps": {"default": [["recv_until_end"], ["respond", 200, [], b"d"]], "by_tag": {str(tag): resp_script(resp, None)}},
            "client": client, "reactor": rspec,
            "truth": {"requests": [req], "responses": [resp], "proto": "h2", "cut": False, "client_goaway": True},
            "sched": {"seed": rng.randrange(1 << 30)}}


def _gen(rng, tier):
    for i in range(N_CASES[tier]):
        r = rng.random()
        if i % 100 == 7:
            yield _case_h2_client_goaway(rng, tier, i)
        elif i % 100 == 57:
            yield _case_h1_slow_close(rng, tier, i)
        elif i % 50 == 33:
            yield _case_h1_slow_halfclosed(rng, tier, i)
        elif r < 0.45:
            yield _case_h1(rng, tier, i)
        elif r < 0.93:
            yield _case_h2(rng, tier, i)
        else:
            yield _case_h2(rng, tier, i, h2c=True)


class _StreamApp:
    """Real ASGI application for the real-socket downloads: a response of tens of MiB in pieces of varying size."""

    def __init__(self, payload, sizes, declare_length):
        self.payload, self.sizes, self.declare_length = payload, sizes, declare_length
        self.polling = True
        self.sent = 0
        self.done = False

    async def __call__(self, scope, receive, send, *a):
        if scope["type"] == "lifespan":
            while True:
                m = await receive()
                await send({"type": m["type"] + ".complete"})
                if m["type"] == "lifespan.shutdown":
                    return
        await receive()
        hs = [(b"x-real", b"1")] + ([(b"content-length", b"%d" % len(self.payload))] if self.declare_length else [])
        await send({"type": "http.response.start", "status": 200, "headers": hs})
        off, k = 0, 0
        while off < len(self.payload):
            n = self.sizes[k % len(self.sizes)]
            k += 1
            c = self.payload[off:off + n]
            off += len(c)
            await send({"type": "http.response.body", "body": c, "more_body": True})
            self.sent = off
        await send({"type": "http.response.body", "body": b"", "more_body": False})
        self.done = True


def _real_download(case, tally):
    """Real serve() on loopback; the client reads a response of tens of MiB at its own pace.  Over HTTP/2 the client is the flow-control
    accountant (small windows, credit dripped), so every DATA frame is checked against the windows in force when it arrived; the body is
    compared by hash, its end must be signalled exactly once.  No verdict depends on a duration; 8 s without any progress while the
    response is incomplete is a stall."""
    import hashlib
    import random as _random
    import socket as _socket

    from ..wire.h2raw import FrameBuilder, H2Reactor, client_preface
    from ..world.realnet import ServeHarness

    findings = []
    be, carrier, size, tag = case["backend"], case["carrier"], case["size"], case["tag"]
    rnd = _random.Random(tag)
    payload = rnd.randbytes(1 << 16) * (size >> 16)
    want = hashlib.sha256(payload).hexdigest()
    h = ServeHarness(be, {"keep_alive_timeout": 60.0, "graceful_timeout": 0.5}, {"default": [["recv_until_end"], ["respond", 200, [], b"d"]]})
    app = h.apps = _StreamApp(payload, case["sizes"], carrier == "h1-cl")
    sock, stalled, got, ends, viol = None, False, hashlib.sha256(), 0, []
    nbytes = 0
    try:
        h.start()
        h.wait_ready()
        sock = h.connect()
        if sock is None:
            tally.inconclusive["no-connection-established"] += 1
            return findings, [None]
        if carrier.startswith("h1"):
            sock.sendall(b"GET /t%d HTTP/1.1\r\nHost: h\r\nConnection: close\r\n\r\n" % tag)
            sock.settimeout(8.0)
            buf = bytearray()
            try:
                while True:
                    x = sock.recv(rnd.choice([100, 4096, 65536, 1 << 20]))
                    if not x:
                        break
                    buf += x
                    if case["slow"] and len(buf) % 7 == 0:
                        time.sleep(0.001)
            except _socket.timeout:
                stalled = True
            except OSError:
                pass
            try:
                resps, _rest = h1.parse_responses(bytes(buf), [("GET", "1.1")], True)
                if resps and resps[0].complete:
                    ends = 1
                    body = resps[0].body
                    got.update(body)
                    nbytes = len(body)
                elif resps:
                    nbytes = len(resps[0].body)
            except h1.Malformed as e:
                findings.append({"clause": "h1.parse", "sig": "C02.real/malformed/%s" % carrier, "backend": be, "detail": str(e)[:200]})
        else:
            fb = FrameBuilder()
            spec = {"kind": "h2", "credit": case["credit"], "initial_window": case["iw"], "max_frame": 16384}
            rx = H2Reactor(spec, None)
            rx.fb = fb
            sock.sendall(client_preface(fb, spec) + fb.headers(1, [(b":method", b"GET"), (b":scheme", b"http"), (b":path", b"/t%d" % tag), (b":authority", b"h")],
                                                                end_stream=True))
            sock.settimeout(0.05)
            last, since = -1, time.monotonic()
            while True:
                s1 = rx.streams.get(1)
                if s1 is not None and (s1.ended or s1.rst is not None):
                    break
                try:
                    data = sock.recv(rnd.choice([100, 16384, 1 << 18]))
                    if not data:
                        break
                    steps = rx.react(data, 0.0)
                except _socket.timeout:
                    steps = rx.react(b"", 0.0)  # quiescent: a dripping client grants its next credit
                except OSError:
                    break
                for st in steps:
                    sock.sendall(st[1])
                n_now = len(s1.data) if s1 is not None else 0
                if n_now != last:
                    last, since = n_now, time.monotonic()
                elif time.monotonic() - since > 8.0:
                    stalled = True
                    break
            s1 = rx.streams.get(1)
            if s1 is not None:
                got.update(bytes(s1.data))
                nbytes = len(s1.data)
                ends = s1.ended
            viol = list(rx.violations)
            tally.events["real.h2-data-frames"] += s1.data_frames if s1 is not None else 0
    finally:
        if sock is not None:
            try:
                sock.close()
            except OSError:
                pass
        h.trigger_shutdown()
        h.wait_done(5.0)
        h.close()
    tally.clause("real-download")
    tally.events["real.bytes-received"] += nbytes
    if viol:
        findings.append({"clause": "h2.body", "sig": "C02.real/flow-control-exceeded/%s" % viol[0][0], "backend": be, "detail": "accountant: %r" % (viol[:3],)})
    if stalled:
        findings.append({"clause": "h2.body" if carrier == "h2" else "h1.body", "sig": "C02.real/stalled/%s" % carrier, "backend": be,
                         "detail": "the response stopped at %d of %d bytes (application had handed over %d) and nothing moved for 8 s" % (nbytes, len(payload), app.sent)})
    elif nbytes != len(payload) or got.hexdigest() != want or ends != 1:
        findings.append({"clause": "h2.body" if carrier == "h2" else "h1.body", "sig": "C02.real/body-mismatch/%s" % carrier, "backend": be,
                         "detail": "application sent %d bytes sha256 %s; client received %d bytes sha256 %s, end signalled %r time(s)" % (
                             len(payload), want[:16], nbytes, got.hexdigest()[:16], ends)})
    return findings, [None]


def run_one(case, tally):
    if case.get("tierb"):
        return _real_download(case, tally)
    import sys

    from ..runner import default_run_one

    return default_run_one(sys.modules[__name__], case, tally)


def gen(rng, tier):
    # the same property against the real transports: responses far larger than any buffer on the way, a client reading at its own pace
    for rep in range(1 if tier == "quick" else 4):
        for be in ("asyncio", "trio"):
            for carrier, credit, iw in (("h1-cl", None, None), ("h1-chunked", None, None), ("h2", "auto", 65535), ("h2", {"drip": 40000}, 20000),
                                        ("h2", {"drip": 1 << 20, "order": "conn_first"}, 1 << 20)):
                yield {"family": "real-download.%s.%s" % (carrier, "auto" if credit in (None, "auto") else "drip%d" % credit["drip"]), "tierb": True, "backend": be,
                       "carrier": carrier, "credit": credit, "iw": iw, "size": (32 if carrier != "h2" or credit == "auto" else 6) << 20,
                       "sizes": rng.choice([[65536], [1, 70000, 300, 16384], [1 << 20, 5]]), "slow": rng.random() < 0.5,
                       "tag": 770000 + rng.randrange(10000), "rep": rep}
    for case in _gen(rng, tier):
        if rng.random() < 0.25:
            # pieces of a segmented write a few scheduler turns apart instead of after the server has come to rest
            turns = [rng.choice([0, 1, 2, 3, 5]) for _ in range(5)]
            case["client"] = [st + [turns] if st[0] == "feed_split" and len(st) == 3 else st for st in case["client"]]
            case["family"] += ".staggered"
        yield case


def nontrivial(case, obs):
    if obs is None:
        return True
    return bool(obs.out)


def _norm(hs):
    return [(bytes(n).lower(), bytes(v).strip(b" \t")) for n, v in hs]


def _check_headers(got, resp, extra_allowed, proto, tag, out, clause):
    got = _norm(got)
    exp = _norm(resp["headers"])
    if got[:len(exp)] != exp:
        out.append({"clause": clause, "sig": "C02.headers/app-prefix/" + proto,
                    "detail": "tag %d: headers %r do not start with the application's %r" % (tag, got[:12], exp[:12])})
        return
    rest = [n for n, _ in got[len(exp):]]
    bad = [n for n in rest if n not in extra_allowed]
    if bad:
        out.append({"clause": clause, "sig": "C02.headers/extra/" + proto,
                    "detail": "tag %d: unexpected server-added headers %r" % (tag, bad)})


def check(case, obs, tally):
    out = []
    truth = case["truth"]
    if obs.handler == "exception":
        tally.inconclusive["handler-crashed(C04/C13)"] += 1
        return out
    cfg = case.get("config") or {}
    if truth["proto"] == "h1":
        data = obs.outbytes
        reqs = [(r["method"], r["version"]) for r in truth["requests"]]
        closed = obs.closed_at is not None or obs.eof_at is not None
        tally.clause("h1.parse")
        try:
            resps, pos = h1.parse_responses(data, reqs, closed)
        except h1.Malformed as e:
            out.append({"clause": "h1.parse", "sig": "C02.h1/malformed", "detail": str(e)})
            return out
        maxreq = cfg.get("keep_alive_max_requests", 1000)
        expect_n = len(truth["requests"])
        for i, resp in enumerate(truth["responses"]):
            req = truth["requests"][i]
            # after a must-close response (HTTP/1.0, max requests) later requests are not served: C06's matter
            if i >= maxreq or (i > 0 and req["version"] == "1.0"):
                expect_n = min(expect_n, i)
                break
        if len(resps) != expect_n:
            out.append({"clause": "h1.parse", "sig": "C02.h1/response-count",
                        "detail": "%d responses parsed, %d expected; leftover at %d/%d" % (len(resps), expect_n, pos, len(data))})
        for i, r in enumerate(resps[:expect_n]):
            resp = truth["responses"][i]
            tag = resp["tag"]
            if not r.complete:
                out.append({"clause": "h1.parse", "sig": "C02.h1/incomplete",
                            "detail": "tag %d: response not complete: %s" % (tag, r.truncated_reason)})
                continue
            if r.status != resp["status"]:
                out.append({"clause": "h1.parse", "sig": "C02.h1/status", "detail": "tag %d status %r != %r" % (tag, r.status, resp["status"])})
            tally.clause("h1.headers")
            _check_headers(r.headers, resp, SERVER_NAMES, "h1", tag, out, "h1.headers")
            tally.clause("h1.body")
            exp = b"" if resp["suppressed"] else pattern(("resp", tag), 0, resp["total"])
            if r.body != exp:
                out.append({"clause": "h1.body", "sig": "C02.h1/body" + ("/suppressed" if resp["suppressed"] else ""),
                            "detail": "tag %d: body len %d expected %d (status %d method %s)" % (
                                tag, len(r.body), len(exp), resp["status"], truth["requests"][i]["method"])})
        if resps and resps[-1].complete and pos != len(data):
            out.append({"clause": "h1.parse", "sig": "C02.h1/trailing-bytes", "detail": "bytes after last response"})
        return out
    # ---- HTTP/2 (incl. h2c-upgraded stream 1) ---------------------------------------------
    rx = obs.reactor
    if truth["proto"] == "h2c":
        if rx.upgrade_head is None or not rx.upgrade_head.startswith(b"HTTP/1.1 101"):
            tally.inconclusive["h2c-no-101(C13)"] += 1
            return out
    if rx.errors():
        out.append({"clause": "h2.end", "sig": "C02.h2/frame-errors", "detail": repr(rx.errors()[:3])})
    if truth.get("cut"):
        # the connection was (half-)closed by the client in mid-flight: only "never ended unless complete" is demanded
        for i, resp in enumerate(truth["responses"]):
            s = rx.streams.get(truth["requests"][i]["sid"])
            if s is None or not s.ended:
                continue
            tally.clause("h2.end")
            exp = b"" if resp["suppressed"] else pattern(("resp", resp["tag"]), 0, resp["total"])
            if bytes(s.data) != exp:
                out.append({"clause": "h2.end", "sig": "C02.h2/ended-incomplete-after-half-close",
                            "detail": "tag %d stream %d: END_STREAM after %d of %d body bytes (the client had stopped reading, half-closed, and read again)" % (
                                resp["tag"], truth["requests"][i]["sid"], len(s.data), len(exp))})
        return out
    for i, resp in enumerate(truth["responses"]):
        req = truth["requests"][i]
        sid = req["sid"]
        tag = resp["tag"]
        s = rx.streams.get(sid)
        if truth.get("client_goaway"):
            tally.clause("h2.end")
            exp = b"" if resp["suppressed"] else pattern(("resp", tag), 0, resp["total"])
            if s is None or s.status is None or bytes(s.data) != exp or s.ended != 1:
                out.append({"clause": "h2.end", "sig": "C02.h2/response-cut/client-goaway-in-flight",
                            "detail": "tag %d: the client sent GOAWAY(NO_ERROR) with the response stalled on its window and then opened the window: "
                                      "%d of %d body bytes, END_STREAM x%d, connection closed at %r" % (
                                          tag, len(s.data) if s else 0, len(exp), s.ended if s else 0, obs.closed_at)})
                continue
        if s is None or s.status is None:
            out.append({"clause": "h2.headers", "sig": "C02.h2/no-response",
                        "detail": "tag %d stream %d: no response head received" % (tag, sid)})
            continue
        tally.clause("h2.headers")
        if s.status != resp["status"]:
            out.append({"clause": "h2.headers", "sig": "C02.h2/status", "detail": "tag %d status %r != %r" % (tag, s.status, resp["status"])})
        _check_headers(s.final_headers(), resp, {b"date", b"server", b"alt-svc"}, "h2", tag, out, "h2.headers")
        tally.clause("h2.body")
        exp = b"" if resp["suppressed"] else pattern(("resp", tag), 0, resp["total"])
        if bytes(s.data) != exp:
            out.append({"clause": "h2.body", "sig": "C02.h2/body" + ("/suppressed" if resp["suppressed"] else ""),
                        "detail": "tag %d stream %d: body len %d expected %d; first diff %d" % (
                            tag, sid, len(s.data), len(exp), _first_diff(bytes(s.data), exp))})
        tally.clause("h2.end")
        if s.ended != 1 or s.frames_after_end or s.rst is not None:
            out.append({"clause": "h2.end", "sig": "C02.h2/end-stream-%d" % s.ended,
                        "detail": "tag %d stream %d: END_STREAM x%d, frames after end %d, rst %r" % (
                            tag, sid, s.ended, s.frames_after_end, s.rst)})
        tr = s.trailers()
        if tr is not None:
            tally.clause("h2.trailers")
            if resp.get("trailers") and resp.get("te") and _norm(tr) != _norm(resp["trailers"]):
                out.append({"clause": "h2.trailers", "sig": "C02.h2/trailers-content",
                            "detail": "tag %d: trailers %r != application's %r" % (tag, tr, resp["trailers"])})
            if not (resp.get("trailers") and resp.get("te")):
                out.append({"clause": "h2.trailers", "sig": "C02.h2/trailers-unrequested",
                            "detail": "tag %d: trailers emitted without te: trailers / without application trailers" % tag})
        elif resp.get("trailers") and resp.get("te"):
            tally.notes["trailers-requested-but-absent(logged, not demanded)"] += 1
    if rx.violations:
        tally.notes["flow-control-violation(C09)"] += 1
    return out


def _first_diff(a, b):
    n = min(len(a), len(b))
    for i in range(n):
        if a[i] != b[i]:
            return i
    return n
