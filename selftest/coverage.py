#!/venv/bin/python
"""selftest/coverage.py [--tier quick] [IDs…]  — runs the checks with the line-coverage probe (hv/probes/linecov.py) and prints, per
hypercorn source file, the executable lines that no check reached.  Evidence is redirected; nothing in /verif/evidence changes."""
import dis, json, os, subprocess, sys, tempfile, shutil, glob

args = sys.argv[1:]
tier = "quick"
if args[:1] == ["--tier"]:
    tier = args[1]
    args = args[2:]
ids = args or ["C%02d" % i for i in range(1, 21)]
src = os.path.realpath(os.environ.get("HYPERCORN_SRC", "/repo/src"))
tmp = tempfile.mkdtemp(prefix="hv-cov-")
per = {}
try:
    for pid in ids:
        d = os.path.join(tmp, pid)
        env = dict(os.environ, HV_COVERAGE=d, HV_EVIDENCE_DIR=os.path.join(tmp, "ev"))
        subprocess.run(["/verif/bin/check", pid, "--tier", tier], env=env, capture_output=True, text=True)
        hits = set()
        for f in glob.glob(d + "/*.json"):
            hits |= {tuple(x) for x in json.load(open(f))}
        per[pid] = hits
finally:
    shutil.rmtree(tmp, ignore_errors=True)
allhits = set().union(*per.values())


def exec_lines(path):
    code = compile(open(path).read(), path, "exec")
    lines = set()
    stack = [code]
    while stack:
        c = stack.pop()
        for _, _, ln in c.co_lines():
            if ln is not None:
                lines.add(ln)
        for k in c.co_consts:
            if hasattr(k, "co_lines"):
                stack.append(k)
    return lines


report = {}
for root, _, files in os.walk(os.path.join(src, "hypercorn")):
    for fn in sorted(files):
        if not fn.endswith(".py"):
            continue
        p = os.path.join(root, fn)
        rel = os.path.relpath(p, src)
        ex = exec_lines(p)
        hit = {l for f, l in allhits if f == rel}
        miss = sorted(ex - hit)
        report[rel] = {"executable": len(ex), "reached": len(ex & hit), "missed": miss}
tot_e = sum(v["executable"] for v in report.values())
tot_r = sum(v["reached"] for v in report.values())
print("lines reached by %s (%s tier): %d / %d" % (",".join(ids), tier, tot_r, tot_e))
for rel, v in sorted(report.items()):
    print("%-45s %4d/%4d  missed: %s" % (rel, v["reached"], v["executable"], _fmt(v["missed"]) if False else ""))
    m = v["missed"]
    # compress into ranges
    rng, out = None, []
    for l in m:
        if rng and l == rng[1] + 1:
            rng[1] = l
        else:
            rng = [l, l]
            out.append(rng)
    print("      " + " ".join("%d" % a if a == b else "%d-%d" % (a, b) for a, b in out))
json.dump({"tier": tier, "ids": ids, "files": report, "per_check_lines": {k: len(v) for k, v in per.items()}}, open("/verif/selftest/coverage.json", "w"), indent=1)
