#!/usr/bin/env python3
"""Prints the markdown table of seeded changes / own mutants and the checks that catch them (from selftest/results.json)."""
import json, os
V = os.path.dirname(os.path.dirname(os.path.abspath(__file__)))
res = json.load(open(os.path.join(V, "selftest", "results.json")))
print("| change | origin | needs to manifest | caught by | first signatures |")
print("|---|---|---|---|---|")
for name in sorted(res):
    r = res[name]
    if "checks" not in r:
        continue
    if name.startswith("seeded/"):
        m = json.load(open(os.path.join(V, name, "meta.json")))
        origin, needs = "sub-agent", m["needs_to_manifest"]
    else:
        origin, needs = "own (M list)", open(os.path.join(V, "selftest", name)).readline().strip("# \n")
    sigs = []
    for p, v in r["checks"].items():
        sigs += v["sigs"][:2]
    print("| %s | %s | %s | %s | %s |" % (name.split("/")[1].replace(".diff", ""), origin, needs[:150], ", ".join(r["caught_by"]) or "**missed**", "; ".join(sigs[:3])))
