"""In-memory network for the asyncio worker.

Only the documented Transport contract is simulated.  StreamReader, StreamReaderProtocol and
StreamWriter above it are the standard library's own classes, so drain(), read(), at_eof(),
wait_closed() and exception propagation are real.
"""
from __future__ import annotations

import asyncio
import socket


class FakeSock:
    def __init__(self, family, peer, name):
        self.family = family
        self._p, self._n = tuple(peer), tuple(name)

    def getpeername(self):
        return self._p

    def getsockname(self):
        return self._n


class FakeSSL:
    def __init__(self, alpn):
        self._a = alpn

    def selected_alpn_protocol(self):
        return self._a


def make_sock(conn):
    fam = {"inet": socket.AF_INET, "inet6": socket.AF_INET6, "unix": socket.AF_UNIX}[conn.get("family", "inet")]
    if fam == socket.AF_UNIX:
        return FakeSock(fam, "", conn.get("name", "/tmp/sock"))
    return FakeSock(fam, conn.get("peer", ("203.0.113.7", 40000)), conn.get("name", ("198.51.100.1", 8000)))


class SimTransport(asyncio.Transport):
    def __init__(self, loop, protocol, extra, trace, jitter=None):
        super().__init__(extra)
        self._loop, self._protocol, self.trace = loop, protocol, trace
        self._closing = False
        self._lost = False
        self.out = []  # (vtime, bytes) accepted by the client
        self.pending = bytearray()  # written by the server while the client is not accepting
        self.eof_written = False
        self.eof_at = None
        self.closed_at = None
        self.fail_write_at = None
        self.nwrites = 0
        self.paused = False
        self.reading_paused = False
        self.jitter = jitter  # callable() -> k loop iterations of "not writable" after a write
        self._jit_left = 0
        self.bytes_written = 0
        self._eof_sent = False
        self._inq = []  # client bytes waiting in the "kernel" while the reader is paused
        # opt-in (conn["write_buffer"]): the transport's high-water mark - while the client is not reading, writes are taken into the buffer
        # and only when it holds this much is the protocol told to pause
        self.capacity = None
        self._proto_paused = False

    # ---- Transport API ------------------------------------------------------------------
    def is_closing(self):
        return self._closing

    def close(self):
        if self._closing:
            return
        self._closing = True
        self.trace.ev("net", "srv_close")
        if self.paused and self.pending:
            # as the selector transport: what is buffered is flushed first; with a peer that does not read, connection_lost() - and with it
            # wait_closed() - comes only once it reads again, goes away, or the transport is aborted
            self._close_waits_for_flush = True
            self.trace.ev("net", "srv_close_waits_for_flush", n=len(self.pending))
            return
        self.closed_at = self._loop.time()
        self._loop.call_soon(self._call_lost, None)

    def abort(self):
        if self._lost:
            return
        self._closing = True
        self.pending = bytearray()
        self._close_waits_for_flush = False
        if self.closed_at is None:
            self.closed_at = self._loop.time()
        self.trace.ev("net", "srv_abort")
        self._loop.call_soon(self._call_lost, None)

    def _call_lost(self, exc):
        if self._lost:
            return
        self._lost = True
        self._protocol.connection_lost(exc)

    def write(self, data):
        if self.eof_written:
            # as the selector socket transport: checked before anything else, also after close()
            self.trace.ev("net", "write_after_eof", n=len(data))
            raise RuntimeError("Cannot call write() after write_eof()")
        if self._closing or self._lost:
            self.trace.ev("net", "write_after_close", n=len(data))
            return
        self.nwrites += 1
        if self.fail_write_at is not None and self.nwrites >= self.fail_write_at:
            self._closing = True
            self.closed_at = self._loop.time()
            self.trace.ev("net", "write_error", n=len(data))
            # (what a failed send() gives the selector transport is any OSError: ECONNRESET, but also ETIMEDOUT - TimeoutError - or
            #  EHOSTUNREACH, which are not ConnectionErrors)
            exc = {"timeout": TimeoutError(110, "Connection timed out"), "unreach": OSError(113, "No route to host")}.get(
                getattr(self, "fail_write_exc", None)) or ConnectionResetError("injected write failure")
            self._loop.call_soon(self._call_lost, exc)
            return
        data = bytes(data)
        self.bytes_written += len(data)
        if self.paused and self._jit_left == 0:
            self.pending += data
            self.trace.ev("net", "write_held", n=len(data))
            if self.capacity and not self._proto_paused and len(self.pending) >= self.capacity:
                self._proto_paused = True
                self._protocol.pause_writing()
            return
        if self._jit_left:
            self.pending += data
            return
        self._deliver(data)
        if self.jitter is not None:
            k = self.jitter()
            if k:
                self._jit_left = k
                self._protocol.pause_writing()
                self._loop.call_soon(self._jit_tick)

    def _jit_tick(self):
        self._jit_left -= 1
        if self._jit_left > 0:
            self._loop.call_soon(self._jit_tick)
            return
        self._jit_left = 0
        if self._lost:
            return
        if not self.paused:
            if self.pending:
                d, self.pending = bytes(self.pending), bytearray()
                self._deliver(d)
            self._protocol.resume_writing()

    def _deliver(self, data):
        self.out.append((self._loop.time(), data))
        self.trace.ev("net", "write", n=len(data))

    def can_write_eof(self):
        return True

    def write_eof(self):
        if self.eof_written:
            return
        self.eof_written = True
        self.eof_at = self._loop.time()
        self.trace.ev("net", "srv_eof")

    def pause_reading(self):
        self.reading_paused = True

    def resume_reading(self):
        if self.reading_paused:
            self.reading_paused = False
            if self._inq:
                self._loop.call_soon(self._flush_in)

    def _flush_in(self):
        while self._inq and not self.reading_paused and not self._lost and not self._closing:
            item = self._inq.pop(0)
            if item is None:
                self._do_eof()
            else:
                self._protocol.data_received(item)

    def is_reading(self):
        return not self.reading_paused

    def get_write_buffer_size(self):
        return len(self.pending)

    def set_write_buffer_limits(self, high=None, low=None):
        pass

    # ---- network-side controls ----------------------------------------------------------
    def net_pause(self):
        if not self.paused:
            self.paused = True
            self.trace.ev("client", "pause")
            if self._jit_left == 0 and not self._lost and (not self.capacity or len(self.pending) >= self.capacity):
                self._proto_paused = True
                self._protocol.pause_writing()

    def net_resume(self):
        if self.paused:
            self.paused = False
            self.trace.ev("client", "resume")
            if self._jit_left == 0 and not self._lost:
                if self.pending:
                    d, self.pending = bytes(self.pending), bytearray()
                    self._deliver(d)
                if getattr(self, "_close_waits_for_flush", False):
                    self._close_waits_for_flush = False
                    self.closed_at = self._loop.time()
                    self._loop.call_soon(self._call_lost, None)
                    return
                if not self.capacity or self._proto_paused:
                    self._proto_paused = False
                    self._protocol.resume_writing()

    def net_take(self, n):
        """A client that reads slowly: while it is 'not reading' it takes n of the bytes the transport holds for it.  As with the selector
        transport, a close() that was waiting for the buffer completes when the last byte has gone, and the protocol is told to resume
        once the buffer has fallen to a quarter of its capacity (the low-water mark)."""
        if self._lost or not self.paused or not self.pending:
            return
        d, self.pending = bytes(self.pending[:n]), self.pending[n:]
        self.trace.ev("client", "take", n=len(d))
        self._deliver(d)
        if not self.pending and getattr(self, "_close_waits_for_flush", False):
            self._close_waits_for_flush = False
            self.closed_at = self._loop.time()
            self._loop.call_soon(self._call_lost, None)
            return
        if self.capacity and self._proto_paused and len(self.pending) <= self.capacity // 4:
            self._proto_paused = False
            self._protocol.resume_writing()

    def net_reset(self):
        self.trace.ev("client", "reset")
        if self._lost:
            return
        self._closing = True
        if self.closed_at is None:
            self.closed_at = self._loop.time()
        self._call_lost(ConnectionResetError("peer reset"))

    def net_feed(self, data):
        if self._lost or self._closing or self._eof_sent:
            return False
        if self.reading_paused or self._inq:
            self._inq.append(data)
            return True
        self._protocol.data_received(data)
        return True

    def net_eof(self):
        self.trace.ev("client", "eof")
        if self._lost or self._closing or self._eof_sent:
            return
        self._eof_sent = True
        if self.reading_paused or self._inq:
            self._inq.append(None)
            return
        self._do_eof()

    def _do_eof(self):
        keep = self._protocol.eof_received()
        if not keep:
            self.close()


class RecordingReader(asyncio.StreamReader):
    """StreamReader that records what each read() returned (true segmentation)."""

    trace = None

    async def read(self, n=-1):
        data = await super().read(n)
        if self.trace is not None:
            self.trace.ev("net", "read", n=len(data))
        return data


def make_conn(loop, trace, conn, jitter=None):
    reader = RecordingReader(limit=2 ** 16, loop=loop)
    reader.trace = trace
    protocol = asyncio.StreamReaderProtocol(reader, loop=loop)
    extra = {"socket": make_sock(conn)}
    if conn.get("tls"):
        extra["ssl_object"] = FakeSSL(conn.get("alpn"))
        extra["sslcontext"] = True  # StreamReaderProtocol closes on EOF over TLS
    tr = SimTransport(loop, protocol, extra, trace, jitter)
    tr.capacity = conn.get("write_buffer")
    protocol.connection_made(tr)
    writer = asyncio.StreamWriter(tr, protocol, reader, loop)
    return reader, writer, tr, protocol
