"""C09 — HTTP/2 flow control is respected and multiplexed delivery is live and ordered."""
from __future__ import annotations

from ..apps.script import pattern
from ..wire.h2raw import FrameBuilder, client_preface

ID = "C09"
LEVEL = "exploration"
BUDGET = {"quick": 45, "thorough": 900}
TECHNIQUE = ("independent RFC 7540 §6.9 flow-control accountant over the server's frames, position-dependent stream "
             "content, END_STREAM counter, quiescence clause (nothing sendable is left unsent), loop-iteration spin guard")
LEVEL_TEXT = ("Seeded exploration of 1-8 concurrent streams x response sizes/chunkings x initial windows 0..1MiB x "
              "MAX_FRAME_SIZE x credit policies (per frame, drip, connection/stream first, via SETTINGS, shrink then grow) x "
              "priority trees x RST at random points x schedules, on both workers; every DATA frame is checked against the "
              "accountant and every non-reset stream must be complete, in order, with exactly one END_STREAM.")
LEVEL_NOTE = "Trusted: hyperframe/hpack for framing, the accountant in hv/wire/h2raw.py, virtual-time closed world."
RULE = ("cases from the cross product above (seeded); non-trivial = at least one DATA frame was accounted and at least "
        "one window or frame-size limit was binding (window < response size or credit withheld) ; distinct = case hash")
ASSUMPTIONS = ["fairness between streams and adherence to priority weights are not demanded"]
MIN_DECISIVE = {"accountant": 50, "complete-ordered": 50, "end-stream": 50, "quiescent-unsent": 50}
N_CASES = {"quick": 1500, "thorough": 40000}


def _gen_prio_silent(rng, tier):
    """Deep dependency chains re-arranged by PRIORITY frames (incl. making a stream depend on its own dependents, RFC 7540 5.3.3) in front
    of a client that has opened all windows in advance and then says nothing more: whatever the scheduler does with its tree, every
    response must go out completely - no later WINDOW_UPDATE will come to the rescue."""
    for i in range(150 if tier == "quick" else 4000):
        fb = FrameBuilder()
        rspec = {"kind": "h2", "initial_window": 1 << 24, "max_frame": rng.choice([16384, 65536]), "credit": "none"}
        n = rng.choice([3, 4, 5, 6])
        base = 7500000 + i * 10
        streams, by_tag = [], {}
        blob = bytearray(client_preface(fb, rspec) + fb.window_update(0, 1 << 24))
        parent = {}
        for k in range(n):
            sid = 1 + 2 * k
            tag = base + k
            size = rng.choice([0, 1, 3000, 30000, 70000, 200000])
            chunk = rng.choice([1024, 16384, size or 1])
            by_tag[str(tag)] = [["recv_until_end"], ["send", {"type": "http.response.start", "status": 200, "headers": [(b"x-tag", b"%d" % tag)]}],
                                ["yield", rng.choice([0, 1, 3])], ["send_stream", ("c9", tag), size, max(chunk, size // 200 + 1), True]]
            dep = rng.choice([s_["sid"] for s_ in streams]) if streams and rng.random() < 0.75 else 0
            parent[sid] = dep
            streams.append({"sid": sid, "tag": tag, "size": size, "rst_at": None, "dep": dep})
            blob += fb.headers(sid, [(b":method", b"GET"), (b":scheme", b"http"), (b":path", b"/t%d" % tag), (b":authority", b"h")],
                               end_stream=True, priority=(dep, rng.choice([1, 16, 200, 255]), rng.random() < 0.3) if dep or rng.random() < 0.3 else None)
        frames = []
        for _ in range(rng.choice([1, 2, 3, 5])):
            kids = [s_ for s_ in parent if parent[s_]]
            if kids and rng.random() < 0.7:
                c = rng.choice(kids)          # an ancestor of c is made dependent on c
                a = parent[c]
                hops = 0
                while parent.get(a) and parent[a] != c and rng.random() < 0.4 and hops < 8:
                    a = parent[a]
                    hops += 1
                if a == c or not a:
                    continue  # a stream depending on itself is a protocol error, not a re-prioritisation
                frames.append(fb.priority(a, dep=c, weight=rng.choice([1, 16, 255]), excl=rng.random() < 0.5))
                parent[c], parent[a] = parent.get(a, 0), c
            else:
                a, b = rng.sample(list(parent), 2)
                frames.append(fb.priority(a, dep=b, weight=rng.choice([1, 16, 255]), excl=rng.random() < 0.3))
                parent[a] = b
        when = rng.choice(["with_requests", "after", "staggered"])
        credit = [["react", "credit_only", 0, 1 << 24]]  # the WINDOW_UPDATE(0) written as part of the opening
        if when == "with_requests":
            client = credit + [["feed", bytes(blob) + b"".join(frames)], ["settle"]]
        elif when == "after":
            client = credit + [["feed_nosettle", bytes(blob)], ["turns", rng.choice([0, 1, 2, 5, 20])], ["feed", b"".join(frames)], ["settle"]]
        else:
            client = credit + [["feed_nosettle", bytes(blob)]]
            for fr in frames:
                client += [["turns", rng.choice([0, 1, 2, 3, 7, 30])], ["feed_nosettle", fr]]
            client += [["settle"]]
        yield {"family": "prio-silent." + when, "backends": ["asyncio", "trio"], "config": {"keep_alive_timeout": 5000}, "conn": {},
               "apps": {"default": [["recv_until_end"], ["respond", 200, [], b"d"]], "by_tag": by_tag}, "client": client, "reactor": rspec,
               "truth": {"streams": streams, "iw": 1 << 24, "mf": rspec["max_frame"], "policy": "prio-silent", "total": sum(s_["size"] for s_ in streams),
                         "prio_cycle": True},
               "sched": {"seed": rng.randrange(1 << 30), "net_jitter": rng.choice([None, [0.3, 3]])}, "horizon": 100.0}


def _gen_upload_while_stalled(rng, tier):
    """Stream 1 is an upload whose application first sends a response larger than the window (and so waits for credit) before it reads
    the body; the client sends its DATA frames, then the credit, then opens stream 3.  A stalled stream must not stop the others (nor the
    reading of the very WINDOW_UPDATE it is waiting for)."""
    from ..wire.h2raw import FrameBuilder, client_preface

    for k in range(6 if tier == "quick" else 120):
        tag = 9300000 + k * 10
        nframes = rng.choice([5, 9, 10, 11, 14, 30])  # + END_STREAM: the application's queue holds 10 messages
        size = rng.choice([70000, 200000])
        fb = FrameBuilder()
        rspec = {"kind": "h2", "initial_window": 65535, "max_frame": 16384, "credit": "none"}
        by_tag = {str(tag): [["send", {"type": "http.response.start", "status": 200, "headers": [(b"x-tag", b"%d" % tag)]}],
                             ["send_stream", ("c9", tag), size, 16384, True], ["recv_until_end"]],
                  str(tag + 1): [["recv_until_end"], ["respond", 200, [(b"x-tag", b"%d" % (tag + 1))], b"late-%d" % (tag + 1)]]}
        up = fb.headers(1, [(b":method", b"POST"), (b":scheme", b"http"), (b":path", b"/t%d" % tag), (b":authority", b"h")], end_stream=False)
        datas = b"".join(fb.data(1, b"u%03d" % j, end_stream=(j == nframes - 1)) for j in range(nframes))
        get3 = fb.headers(3, [(b":method", b"GET"), (b":scheme", b"http"), (b":path", b"/t%d" % (tag + 1)), (b":authority", b"h")], end_stream=True)
        client = [["feed", client_preface(fb, rspec) + up], ["settle"], ["feed", datas], ["settle"],
                  ["react", "window_update", 1, size], ["react", "window_update", 0, size + 1000], ["settle"], ["feed", get3], ["settle"]]
        yield {"family": "upload-while-stalled.%d" % nframes, "backends": ["asyncio", "trio"], "config": {"keep_alive_timeout": 5000}, "conn": {},
               "apps": {"default": [["recv_until_end"], ["respond", 200, [], b"d"]], "by_tag": by_tag}, "client": client, "reactor": rspec,
               "truth": {"streams": [{"sid": 1, "tag": tag, "size": size, "rst_at": None}, {"sid": 3, "tag": tag + 1, "size": 0, "rst_at": None, "literal": True}],
                         "iw": 65535, "mf": 16384, "policy": "upload-while-stalled", "total": size, "nframes": nframes},
               "sched": {"seed": rng.randrange(1 << 30)}, "horizon": 100.0}


def _gen_many_resets(rng, tier):
    """More streams than any per-connection table holds, one batch after the other: each has a response waiting for its window (initial
    window 0) when the client resets it.  A reset stream is gone - whatever was kept for it (buffer, place in the priority tree) with it:
    the stream opened after all of them is served like the first."""
    from ..wire.h2raw import FrameBuilder, client_preface

    for k in range(2 if tier == "quick" else 10):
        base = 9500000 + k * 10000
        total = rng.choice([1010, 1100, 1300])
        per = rng.choice([20, 50, 90])
        fb = FrameBuilder()
        rspec = {"kind": "h2", "initial_window": 0, "max_frame": 16384, "credit": "none"}
        client = [["feed", client_preface(fb, rspec)], ["settle"]]
        streams = []
        sid = 1
        left = total
        while left > 0:
            batch = list(range(sid, sid + 2 * min(per, left), 2))
            client.append(["feed", b"".join(fb.headers(x, [(b":method", b"GET"), (b":scheme", b"http"), (b":path", b"/r%d" % x), (b":authority", b"h")], end_stream=True)
                                            for x in batch)])
            client.append(["settle"])
            client.append(["feed", b"".join(fb.rst(x, 8) for x in batch)])
            client.append(["settle"])
            sid = batch[-1] + 2
            left -= len(batch)
        tag = base + 1
        client += [["feed", fb.headers(sid, [(b":method", b"GET"), (b":scheme", b"http"), (b":path", b"/t%d" % tag), (b":authority", b"h")], end_stream=True)], ["settle"],
                   ["react", "window_update", sid, 1000], ["settle"]]
        streams.append({"sid": sid, "tag": tag, "size": 0, "rst_at": None, "literal": True})
        yield {"family": "many-resets.%d" % total, "backends": ["asyncio", "trio"], "config": {"keep_alive_timeout": 5000, "keep_alive_max_requests": 1000000},
               "conn": {}, "apps": {"default": [["recv_until_end"], ["respond", 200, [], b"blocked-body"]],
                                    "by_tag": {str(tag): [["recv_until_end"], ["respond", 200, [(b"x-tag", b"%d" % tag)], b"late-%d" % tag]]}},
               "client": client, "reactor": rspec,
               "truth": {"streams": streams, "iw": 0, "mf": 16384, "policy": "many-resets", "total": total, "nreset": total},
               "sched": {"seed": rng.randrange(1 << 30)}, "horizon": 100.0}


def gen(rng, tier):
    yield from _gen_upload_while_stalled(rng, tier)
    yield from _gen_batched(rng, tier)
    yield from _gen_prio_silent(rng, tier)
    yield from _gen_main(rng, tier)
    yield from _gen_many_resets(rng, tier)  # (a thousand streams per case: last, so that a slow tree never starves the other families)


def _gen_main(rng, tier):
    big = tier == "thorough"
    for i in range(N_CASES[tier]):
        nstreams = rng.choice([1, 2, 3, 4, 8])
        iw = rng.choice([0, 1, 100, 16383, 65535, 65535, 1 << 20])
        mf = rng.choice([16384, 16384, 32768, (1 << 24) - 1])
        policy = rng.choice(["auto", "drip", "drip_conn_first", "settings_grow", "shrink_grow", "stream_only_then_conn"])
        fb = FrameBuilder()
        rspec = {"kind": "h2", "initial_window": iw, "max_frame": mf}
        total_budget = 0
        streams, by_tag = [], {}
        blob = bytearray()
        for k in range(nstreams):
            sid = 1 + 2 * k
            tag = i * 10 + k
            size = rng.choice([0, 1, 1000, 16384, 40000, 70000, 200000] + ([1 << 20] if big else []))
            if iw < 1000:
                size = min(size, rng.choice([300, 2000]))
            chunk = rng.choice([1, 100, 1024, 16384, 65536, size or 1])
            chunk = max(chunk, max(1, size // 200))
            script = [["recv_until_end"],
                      ["send", {"type": "http.response.start", "status": 200, "headers": [(b"x-tag", b"%d" % tag)]}],
                      ["yield", rng.choice([0, 1, 3])],
                      ["send_stream", ("c9", tag), size, chunk, True]]
            trailers = rng.random() < 0.15
            if trailers:
                # the END_STREAM then rides on the trailers' HEADERS frame: it is owed all the same, also after a body of no bytes at all
                script[1][1]["trailers"] = True
                script.append(["send", {"type": "http.response.trailers", "headers": [(b"x-trailer", b"t%d" % tag)], "more_trailers": False}])
            by_tag[str(tag)] = script
            prio = None
            if rng.random() < 0.3:
                dep = rng.choice([0] + [s["sid"] for s in streams]) if streams else 0
                prio = (dep, rng.randrange(256), rng.random() < 0.3)
            streams.append({"sid": sid, "tag": tag, "size": size, "rst_at": None, "dep": prio[0] if prio else 0})
            total_budget += size
            if rng.random() < 0.15:
                blob += fb.priority(sid, dep=rng.choice([0] + [s["sid"] for s in streams[:-1]]) if len(streams) > 1 else 0,
                                    weight=rng.randrange(256))
            blob += fb.headers(sid, [(b":method", b"GET"), (b":scheme", b"http"), (b":path", b"/t%d" % tag),
                                     (b":authority", b"h")] + ([(b"te", b"trailers")] if trailers else []), end_stream=True, priority=prio)
        client = []
        if policy == "auto":
            rspec["credit"] = "auto"
        elif policy in ("drip", "drip_conn_first"):
            n = rng.choice([1, 100, 5000, 16384, 100000])
            n = max(n, total_budget // 300 + 1)
            rspec["credit"] = {"drip": n, "order": "conn_first" if policy == "drip_conn_first" else "stream_first"}
        else:
            rspec["credit"] = "none"
        if policy != "none" and rng.random() < 0.2:
            rspec["prio_after_credit"] = rng.choice([[16], [1, 255], [200, 3, 77]])
        pre = client_preface(fb, rspec)
        client.append(["feed", pre + bytes(blob)])
        # reprioritise / reset mid-flight
        if rng.random() < 0.25 and nstreams > 1:
            victim = rng.choice(streams)
            victim["rst_at"] = "mid"
            client.append(["react", "rst", victim["sid"]])
        if rng.random() < 0.2 and nstreams > 1:
            a, b = rng.sample(streams, 2)
            client.append(["feed", fb.priority(a["sid"], dep=b["sid"], weight=rng.randrange(256), excl=rng.random() < 0.5)])
        deps = [s_ for s_ in streams if s_["dep"]]
        if deps and rng.random() < 0.5:
            # a stream is made dependent on one of its own dependents (RFC 7540 5.3.3), while responses are in flight
            child = rng.choice(deps)
            client.append(["feed", fb.priority(child["dep"], dep=child["sid"], weight=rng.randrange(256), excl=rng.random() < 0.5)])
            t_cycle = True
        else:
            t_cycle = False
        need = max(total_budget, 1)
        if policy == "settings_grow":
            # credit only via SETTINGS_INITIAL_WINDOW_SIZE growth for the streams, plus connection-level updates
            cur = iw
            for _ in range(12):
                cur = min((1 << 31) - 1, cur + max(1, need // 6) + 1)
                client.append(["react", "settings", {"4": cur}])
                client.append(["react", "window_update", 0, max(1, need // 6) + 1])
        elif policy == "shrink_grow":
            client.append(["react", "settings", {"4": max(0, iw // 2)}])
            client.append(["react", "window_update", 0, need + 10])
            client.append(["react", "settings", {"4": min((1 << 31) - 1, iw + need + 10)}])
        elif policy == "stream_only_then_conn":
            for s in streams:
                client.append(["react", "window_update", s["sid"], need + 10])
            client.append(["settle"])
            for _ in range(4):
                client.append(["react", "window_update", 0, need // 4 + 10])
        client.append(["settle"])
        yield {
            "family": "n%d.%s" % (nstreams, policy), "backends": ["asyncio", "trio"],
            "config": {"keep_alive_timeout": 5000}, "conn": {},
            "apps": {"default": [["recv_until_end"], ["respond", 200, [], b"d"]], "by_tag": by_tag},
            "client": client, "reactor": rspec,
            "truth": {"streams": streams, "iw": iw, "mf": mf, "policy": policy, "total": total_budget, "prio_cycle": t_cycle},
            "sched": {"seed": rng.randrange(1 << 30), "net_jitter": rng.choice([None, None, [0.3, 3]])},
            "horizon": 100.0,
        }


def _gen_batched(rng, tier):
    """Several frames for different streams arriving in ONE read: what follows a frame that concerns a finished / reset / early-answered
    stream must still be acted upon (WINDOW_UPDATE for a stalled stream, HEADERS opening a new one)."""
    for i in range(120 if tier == "quick" else 3000):
        fb = FrameBuilder()
        iw = rng.choice([1000, 5000, 16384])
        rspec = {"kind": "h2", "initial_window": iw, "max_frame": 16384, "credit": "none"}
        base = 7000000 + i * 10
        size = rng.choice([4 * iw, 10 * iw, 40000])
        by_tag = {
            # stream 1: an upload answered at once, body never read: response complete (send buffer gone) while the stream is still open
            str(base): [["send", {"type": "http.response.start", "status": 200, "headers": [(b"x-tag", b"%d" % base)]}],
                        ["send", {"type": "http.response.body", "body": b"early", "more_body": False}]],
            # stream 3: stalls on its window
            str(base + 1): [["recv_until_end"], ["send", {"type": "http.response.start", "status": 200, "headers": [(b"x-tag", b"%d" % (base + 1))]}],
                            ["send_stream", ("c9", base + 1), size, rng.choice([1000, 16384]), True]],
            str(base + 2): [["recv_until_end"], ["respond", 200, [(b"x-tag", b"%d" % (base + 2))], b"late-%d" % (base + 2)]],
        }
        blob = client_preface(fb, rspec)
        shape1 = rng.choice(["early_answered_upload", "early_answered_upload", "ws_closed_by_server", "refused_by_server_name"])
        config = {"keep_alive_timeout": 5000}
        if shape1 == "ws_closed_by_server":
            # stream 1 stays open on the protocol level (WebSocket over HTTP/2, the server has said goodbye) but has nothing left to send
            by_tag[str(base)] = [["recv"], ["send", {"type": "websocket.accept"}], ["send", {"type": "websocket.close", "code": 1000}], ["recv_until_disconnect"]]
            blob += fb.headers(1, [(b":method", b"CONNECT"), (b":protocol", b"websocket"), (b":scheme", b"http"), (b":path", b"/t%d" % base),
                                   (b":authority", b"h"), (b"sec-websocket-version", b"13")], end_stream=False)
        elif shape1 == "refused_by_server_name":
            config["server_names"] = ["h"]
            blob += fb.headers(1, [(b":method", b"POST"), (b":scheme", b"http"), (b":path", b"/t%d" % base), (b":authority", b"other.example")], end_stream=False)
        else:
            blob += fb.headers(1, [(b":method", b"POST"), (b":scheme", b"http"), (b":path", b"/t%d" % base), (b":authority", b"h")], end_stream=False)
            blob += fb.data(1, b"part", end_stream=False)
        blob += fb.headers(3, [(b":method", b"GET"), (b":scheme", b"http"), (b":path", b"/t%d" % (base + 1)), (b":authority", b"h")], end_stream=True)
        first = rng.choice(["rst_answered", "rst_answered", "data_answered", "wu_answered", "rst_unknown_closed", "nothing", "settings_iw"])
        if shape1 != "early_answered_upload" and first == "data_answered":
            first = "nothing"
        batch = {"rst_answered": fb.rst(1, 8), "data_answered": fb.data(1, b"more", end_stream=True),
                 "wu_answered": fb.window_update(1, 100), "rst_unknown_closed": fb.rst(1, 8) + fb.rst(1, 8), "nothing": b"",
                 "settings_iw": b""}[first]
        need = size + 100
        batch += fb.window_update(3, need)
        batch2 = fb.window_update(0, need)
        new_stream = rng.random() < 0.5
        if new_stream:
            batch2 += fb.headers(5, [(b":method", b"GET"), (b":scheme", b"http"), (b":path", b"/t%d" % (base + 2)), (b":authority", b"h")], end_stream=True)
        stagger = rng.choice([None, None, 0, 1, 1, 2, 3, 4, 6])
        streams = [{"sid": 3, "tag": base + 1, "size": size, "rst_at": None, "dep": 0}]
        if new_stream:
            streams.append({"sid": 5, "tag": base + 2, "size": len(b"late-%d" % (base + 2)), "rst_at": None, "dep": 0, "literal": True})
        yield {"family": "batched.%s.%s" % (shape1, first), "backends": ["asyncio", "trio"], "config": config, "conn": {},
               "apps": {"default": [["recv_until_end"], ["respond", 200, [], b"d"]], "by_tag": by_tag},
               "client": [["feed", blob], ["settle"]] + ([["react", "settings", {"4": iw + 1}]] if first == "settings_iw" else []) +
                         [["react", "credit_only", 3, need], ["react", "credit_only", 0, need]] +
                         # the two halves in one write, or the second one arriving k scheduler turns into the server's reaction to the first
                         ([["feed", batch + batch2]] if stagger is None else [["feed_nosettle", batch], ["turns", stagger], ["feed", batch2]]) +
                         [["settle"]], "reactor": rspec,
               "truth": {"streams": streams, "iw": iw, "mf": 16384, "policy": "batched", "total": size, "prio_cycle": False, "batched": first},
               "sched": {"seed": rng.randrange(1 << 30), "net_jitter": None}, "horizon": 100.0}


def nontrivial(case, obs):
    t = case["truth"]
    rx = obs.reactor
    if rx is None:
        return False
    any_data = any(s.data_frames for s in rx.streams.values())
    binding = t["policy"] != "auto" or t["iw"] < max([s["size"] for s in t["streams"]] + [0]) or t["total"] > 65535
    return any_data and binding


def check(case, obs, tally):
    out = []
    t = case["truth"]
    if obs.spin:
        out.append({"clause": "spin", "sig": "C09.spin", "detail": obs.spin})
        return out
    if obs.handler == "exception" and t["policy"] != "many-resets":
        tally.inconclusive["handler-crashed(C04)"] += 1
        return out
    # (many-resets: whatever the reset streams did to the connection, the stream after them is owed its response)
    rx = obs.reactor
    tally.clause("accountant")
    if rx.errors():
        out.append({"clause": "accountant", "sig": "C09.frame-errors", "detail": repr(rx.errors()[:3])})
    for v in rx.violations[:3]:
        out.append({"clause": "accountant", "sig": "C09.flow-control/%s" % v[0],
                    "detail": "DATA on stream %d of flow length %d exceeds %s=%d (policy %s, initial window %d, max frame %d)" % (
                        v[1], v[2], v[0], v[3], t["policy"], t["iw"], t["mf"])})
    open_sends = {e[4]["inst"] for e in obs.open_sends()}
    if t["policy"] == "upload-while-stalled" and "http.request" in obs.blocked_puts().values() and open_sends:
        # mechanism: the connection's reader is waiting for room in the application queue of the stalled stream (more unread body messages
        # than max_app_queue_size) - nothing the client sends from there on, credit and new streams included, is read
        tally.clause("complete-ordered")
        out.append({"clause": "complete-ordered", "sig": "C09.reader-blocked/h2/unread-upload-over-queue",
                    "detail": "stream 1 (response stalled on its window, %d DATA frames of its upload unread) holds the connection's reader in the "
                              "application queue: the WINDOW_UPDATE that would release it and the request on stream 3 were never read" % t["nframes"]})
        return out
    for s in t["streams"]:
        sv = rx.streams.get(s["sid"])
        exp = pattern(("c9", s["tag"]), 0, s["size"]) if not s.get("literal") else b"late-%d" % s["tag"]
        got = bytes(sv.data) if sv is not None else b""
        was_reset = s["rst_at"] is not None or (sv is not None and sv.rst is not None)
        tally.clause("complete-ordered")
        if not exp.startswith(got):
            out.append({"clause": "complete-ordered", "sig": "C09.order/corrupt-or-reordered",
                        "detail": "stream %d: received bytes are not a prefix of the application's body (first diff %d)" % (
                            s["sid"], _first_diff(got, exp))})
            continue
        if was_reset and t["policy"] == "many-resets" and s["rst_at"] is None:
            # "A ... reset stream never stops other streams from progressing": the client did not reset this one
            out.append({"clause": "complete-ordered", "sig": "C09.refused-after-resets",
                        "detail": "after %d streams that the client reset while their responses waited for the window, the next stream (%d) was reset by "
                                  "the server (error code %r) instead of being served" % (t["nreset"], s["sid"], sv.rst)})
            continue
        if was_reset:
            continue
        if sv is None or sv.status != 200:
            out.append({"clause": "complete-ordered", "sig": "C09.no-response", "detail": "stream %d has no response head" % s["sid"]})
            continue
        tally.clause("end-stream")
        if sv.ended > 1 or sv.frames_after_end:
            out.append({"clause": "end-stream", "sig": "C09.end-stream/duplicate",
                        "detail": "stream %d: END_STREAM x%d, %d frames after end" % (s["sid"], sv.ended, sv.frames_after_end)})
        tally.clause("quiescent-unsent")
        if len(got) < len(exp) or sv.ended == 0:
            w = rx.win.get(s["sid"], rx.init_win)
            if min(w, rx.conn_win) > 0 or len(got) == len(exp):
                out.append({"clause": "quiescent-unsent", "sig": "C09.stalled-with-window/%s" % t["policy"],
                            "detail": "stream %d: %d/%d bytes delivered, END_STREAM x%d at quiescence although stream window=%d, "
                                      "connection window=%d (policy %s)" % (s["sid"], len(got), len(exp), sv.ended, w, rx.conn_win, t["policy"])})
    return out


def _first_diff(a, b):
    n = min(len(a), len(b))
    for i in range(n):
        if a[i] != b[i]:
            return i
    return n
