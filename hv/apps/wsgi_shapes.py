"""Recording WSGI application shapes for C17."""
from __future__ import annotations

import threading


class _IterWithClose:
    def __init__(self, chunks, rec, raise_at=None):
        self.chunks = list(chunks)
        self.rec = rec
        self.i = 0
        self.raise_at = raise_at

    def __iter__(self):
        return self

    def __next__(self):
        if self.raise_at is not None and self.i == self.raise_at:
            raise RuntimeError("wsgi iteration failure")
        if self.i >= len(self.chunks):
            raise StopIteration
        c = self.chunks[self.i]
        self.i += 1
        return c

    def close(self):
        self.rec["closes"] = self.rec.get("closes", 0) + 1


class _LazyIter(_IterWithClose):
    """Calls start_response on the first iteration, as PEP 3333 allows."""

    def __init__(self, chunks, rec, raise_at, starter):
        super().__init__(chunks, rec, raise_at)
        self.starter = starter
        self.started = False

    def __next__(self):
        if not self.started:
            self.started = True
            self.starter()
        return super().__next__()


class _IterableWithClose:
    """A response object (Django/werkzeug style): close() lives on the object the application returns, while iteration goes
    through a *different* object (a generator method, or iter() of an inner list)."""

    def __init__(self, chunks, rec, raise_at=None, inner="generator"):
        self.chunks = list(chunks)
        self.rec = rec
        self.raise_at = raise_at
        self.inner = inner

    def __iter__(self):
        if self.inner == "list":
            return iter(self.chunks)
        return self._gen()

    def _gen(self):
        for i, c in enumerate(self.chunks):
            if self.raise_at is not None and i == self.raise_at:
                raise RuntimeError("wsgi iteration failure")
            yield c

    def close(self):
        self.rec["closes"] = self.rec.get("closes", 0) + 1


def build_wsgi(spec, rec, trace):
    """spec: {"shape", "status", "headers": [(str,str)], "chunks": [bytes], "raise_at": int|None}"""
    shape = spec["shape"]
    status = spec.get("status", "200 OK")
    headers = [tuple(h) for h in spec.get("headers", [])]
    chunks = list(spec.get("chunks", [b"hello"]))
    lock = threading.Lock()
    rec.setdefault("calls", [])

    def app(environ, start_response):
        call = {"thread": threading.get_ident(), "environ": {k: v for k, v in environ.items() if k not in ("wsgi.input", "wsgi.errors")}}
        try:
            call["input"] = environ["wsgi.input"].read()
        except Exception as e:
            call["input"] = repr(e)
        with lock:
            rec["calls"].append(call)
        trace.ev("app", "wsgi-call", path=environ.get("PATH_INFO"))
        if shape == "stream":
            # a large streamed response: every chunk handed to the server is logged, so that the amount the server has taken can be
            # compared with what the client had accepted at any point of the trace
            start_response(status, headers)
            n, size = spec["nchunks"], spec["chunk"]

            def stream():
                total = 0
                for k in range(n):
                    total += size
                    trace.ev("app", "wsgi-yield", total=total)
                    yield bytes([65 + k % 26]) * size
            return stream()
        if shape in ("exc_info_replace", "exc_info_replace_lazy"):
            # PEP 3333: "start_response may be called again with exc_info to replace a response that has not been sent yet" - the way an
            # application turns a failure into an error page of its own.  What reaches the client is the second response, whole.
            import sys as _sys

            def again():
                try:
                    raise RuntimeError("failure while producing the first response")
                except RuntimeError:
                    start_response(status, headers, _sys.exc_info())

            if shape == "exc_info_replace":
                start_response("200 OK", [("X-First", "discarded")])
                again()
                return list(chunks)

            def gen3():
                start_response("200 OK", [("X-First", "discarded")])
                again()
                for c in chunks:
                    yield c
            return gen3()
        if shape == "raise_before":
            raise RuntimeError("wsgi failure before start_response")
        if shape == "no_start":
            return [b"never started"]
        if shape == "lazy_generator":
            def gen():
                start_response(status, headers)
                for c in chunks:
                    yield c
            return gen()
        if shape == "lazy_iter_close":
            return _LazyIter(chunks, rec, spec.get("raise_at"), lambda: start_response(status, headers))
        if shape == "write_callable":
            # PEP 3333: start_response returns a write(body_data) callable (the "legacy" way of producing output, which may be mixed with
            # a returned iterable: what is written comes first)
            write = start_response(status, headers)
            for c in chunks[:-1]:
                write(c)
            return list(chunks[-1:])
        start_response(status, headers)
        if shape == "raise_after":
            raise RuntimeError("wsgi failure after start_response")
        if shape == "list":
            return list(chunks)
        if shape == "tuple":
            return tuple(chunks)
        if shape == "generator":
            def gen2():
                for i, c in enumerate(chunks):
                    if spec.get("raise_at") is not None and i == spec["raise_at"]:
                        raise RuntimeError("wsgi generator failure")
                    yield c
            return gen2()
        if shape == "iter_close":
            return _IterWithClose(chunks, rec, spec.get("raise_at"))
        if shape == "iterable_close_gen":
            return _IterableWithClose(chunks, rec, spec.get("raise_at"), "generator")
        if shape == "iterable_close_list":
            return _IterableWithClose(chunks, rec, None, "list")
        raise ValueError(shape)

    return app
