"""C16 — protocol behaviour does not depend on the worker class (differential)."""
from __future__ import annotations

import hashlib
import random
import re

from ..wire import h1
from ..world.driver import run_case

ID = "C16"
LEVEL = "exploration"
BUDGET = {"quick": 50, "thorough": 900}
TECHNIQUE = ("differential monitor: the same case (client bytes, virtual timing, application script) is executed on the asyncio "
             "and the trio worker; normalised observations (application message sequences, parsed client events, whether and "
             "when the server closed) must be equal; racy cases are separated first by re-running each worker under K schedule seeds")
LEVEL_TEXT = ("Case corpora of C01-C12 (sampled by seed) run on both workers under virtual time; each worker is first checked "
              "for self-consistency over 3 schedule seeds and only seed-independent cases are compared.")
LEVEL_NOTE = "Trusted: the two in-memory network models give both workers the same client behaviour; hv/wire parsers."
RULE = ("cases drawn from the generators of C01, C02, C04, C05, C06, C07, C10, C11, C12; an evaluation is one execution; "
        "non-trivial = the case was seed-independent on both workers and therefore compared; distinct = distinct case hash")
ASSUMPTIONS = ["write segmentation and cross-stream frame order are not compared", "the date header is ignored"]
MIN_DECISIVE = {"compared": 100}
N_PER_SOURCE = {"quick": 140, "thorough": 5000}
SOURCES = ["c01", "c02", "c04", "c05", "c06", "c07", "c10", "c11", "c12"]  # c03 races closure against application progress at the same instant by design
K = 3


def gen(rng, tier):
    import importlib

    per = N_PER_SOURCE[tier]
    gens = []
    for name in SOURCES:
        mod = importlib.import_module("hv.props." + name)
        sub = random.Random(rng.randrange(1 << 30))
        gens.append((name, iter(mod.gen(sub, "quick" if tier == "quick" else "thorough"))))
    for i in range(per):
        for name, g in gens:
            # skip ahead pseudo-randomly so that different seeds sample different cases
            case = None
            for _ in range(rng.randint(1, 4)):
                try:
                    case = next(g)
                except StopIteration:
                    break
            if case is None or set(case.get("backends", [])) != {"asyncio", "trio"}:
                continue
            case = dict(case)
            if (case.get("conn") or {}).get("tls") and (case.get("conn") or {}).get("alpn") == "h2" \
                    and any(st[0] == "eof" for st in case.get("client", [])):
                continue  # same ND as below; TLS cannot be dropped here without changing the protocol selection
            if (case.get("conn") or {}).get("tls") and (case.get("conn") or {}).get("alpn") != "h2" \
                    and any(st[0] == "eof" for st in case.get("client", [])):
                # ND: what a TLS runtime does with its own side after the peer's close_notify differs between the asyncio
                # transport (closes both directions) and trio's SSLStream; not hypercorn's choice
                case["conn"] = {k: v for k, v in case["conn"].items() if k not in ("tls", "alpn")}
            if any(st[0] in ("reset", "fail_write_at", "terminate", "pause") for st in case.get("client", [])):
                continue  # injected faults race with in-flight work differently on the two runtimes; C03/C07/C08 judge them per worker
            t = case.get("truth") or {}
            if name == "c06" and any(m not in ("after", "slow") for m in t.get("modes", [])):
                continue  # responding before the body has been read races the reader (C06 ND)
            if name == "c10" and t.get("deflate") and t.get("inner_ping"):
                continue  # known third-party mechanism (wsproto), outcome after the failure is not specified
            if name == "c10" and any(len(m[1]) > t.get("limit", 1 << 30) for m in t.get("msgs", [])):
                continue  # the application's echoes race the server's 1009 close: both orders are legal
            case["source"] = name
            case["family"] = name + ":" + case.get("family", "?")
            if len(repr(case.get("client", ""))) > 3_000_000:
                continue
            yield case


_DATE = re.compile(rb"\r\ndate: [^\r]*", re.I)


def _h(b):
    return hashlib.blake2b(bytes(b), digest_size=8).hexdigest() if len(b) > 64 else bytes(b)


def normalise(case, obs):
    apps = []
    exits = obs.exits()
    for e in obs.app_events(kind="start"):
        inst = e[4]["inst"]
        sc = e[4]["scope"]
        recvs = []
        for m in obs.apps.recvs.get(inst, []):
            t = m.get("type")
            if t == "http.request":
                recvs.append("req")
            elif t == "websocket.receive":
                recvs.append(("ws", _h((m.get("text") or "").encode() if m.get("text") is not None else m.get("bytes") or b"")))
            else:
                recvs.append((t, m.get("code")))
        # collapse how the body was chunked; keep total bytes and whether the end marker arrived
        body = bytes(obs.apps.bodies.get(inst, b""))
        final = any(m.get("type") == "http.request" and not m.get("more_body", False) for m in obs.apps.recvs.get(inst, []))
        rc = [x for x in recvs if x != "req"]
        sends = [(ev[3], ev[4].get("exc")) for ev in obs.app_events(inst=inst) if ev[3] in ("send.", "send!")]
        apps.append((sc.get("type"), sc.get("http_version"), sc.get("method"), sc.get("path"), _h(body), final, tuple(rc), tuple(sends), exits.get(inst)))
    apps.sort(key=repr)
    r = case.get("reactor") or {}
    fam = case.get("family", "")
    ws_over_h2 = r.get("kind") == "h2" and ("ws" in fam or (case.get("truth") or {}).get("carrier") == "h2" or "close.h2" in fam or "hs.h2" in fam)
    if ws_over_h2 and obs.reactor is not None:
        from ..wire import ws as _ws

        rx = obs.reactor
        streams = []
        for sid, s in sorted(rx.streams.items()):
            hdr = dict(s.final_headers() or [])
            ext = hdr.get(b"sec-websocket-extensions", b"")
            p = _ws.FrameParser(b"permessage-deflate" in ext, b"server_no_context_takeover" in ext)
            if s.status == 200:
                p.feed(bytes(s.data))
                body = (tuple((k, _h(v.encode() if isinstance(v, str) else v)) for k, v in p.messages), p.close, tuple(p.pongs), tuple(p.errors))
            else:
                body = _h(s.data)
            streams.append((sid, s.status, tuple(x for x in (s.final_headers() or []) if x[0] != b"date"), body, s.ended, s.rst))
        client = ("ws-h2", streams, None if rx.goaway is None else (rx.goaway.get("code"), rx.goaway.get("last")))
    elif r.get("kind") == "h2" and obs.reactor is not None:
        rx = obs.reactor
        client = ("h2", rx.upgrade_head is not None and rx.upgrade_head[:12],
                  sorted((sid, s.status, tuple(s.final_headers() and [x for x in s.final_headers() if x[0] != b"date"] or ()),
                          # how much of a response the server itself aborted had already left is a scheduling matter (send task vs application)
                          "<aborted>" if (s.rst is not None and not s.ended) else _h(s.data), s.ended, s.rst)
                         for sid, s in rx.streams.items()),
                  None if rx.goaway is None else (rx.goaway.get("code"), rx.goaway.get("last")))
    elif r.get("kind") == "ws" and obs.reactor is not None:
        rx = obs.reactor
        client = ("ws", rx.status, tuple(x for x in rx.headers if x[0] != b"date"),
                  tuple((k, _h(v.encode() if isinstance(v, str) else v)) for k, v in (rx.parser.messages if rx.parser else [])),
                  rx.parser.close if rx.parser else None, tuple(rx.parser.pongs) if rx.parser else None, _h(rx.http_body))
    else:
        data = _DATE.sub(b"", obs.outbytes)
        treq = (case.get("truth") or {}).get("requests")
        methods = [("GET", "1.1")] * 64
        if isinstance(treq, list) and treq and isinstance(treq[0], dict) and "method" in treq[0]:
            methods = [(q["method"], q.get("version", "1.1")) for q in treq] + methods
        try:
            resps, pos = h1.parse_responses(data, methods, obs.closed_at is not None)
            client = ("h1", tuple((x.status, tuple(h for h in x.headers if h[0].lower() != b"date"), _h(x.body) if x.complete else "<aborted>", x.complete) for x in resps))
        except h1.Malformed:
            client = _h2_structure(data)
    closed = None if obs.closed_at is None else round(obs.closed_at, 6)
    return {"apps": apps, "client": client, "closed_at": closed, "handler": obs.handler}


def _h2_structure(data):
    """Frame-level normalisation of an HTTP/2 byte stream: per-stream frame sequences, connection frames as a multiset."""
    from ..wire.h2raw import FrameReader

    rd = FrameReader()
    evs = rd.feed(data)
    if rd.errors or not evs:
        return ("raw", _h(_DATE.sub(b"", data)))
    per = {}
    connf = []
    for e in evs:
        t = e["t"]
        if t in ("data", "headers", "rst", "push"):
            item = (t, _h(e["data"]) if t == "data" else None, tuple(h for h in (e.get("headers") or []) if h[0] != b"date") if t in ("headers", "push") else None,
                    e.get("end"), e.get("code"))
            per.setdefault(e["sid"], []).append(item)
        elif t == "window_update":
            connf.append((t, e["sid"], e["inc"]))
        elif t == "settings":
            connf.append((t, e["ack"], tuple(sorted(e["settings"].items()))))
        elif t == "goaway":
            connf.append((t, e["code"], e["last"]))
        else:
            connf.append((t, e.get("ack"), e.get("data")))
    # DATA frames of one stream may be cut differently: merge consecutive data frames
    merged = {}
    for sid, items in per.items():
        total = 0
        out = []
        for it in items:
            if it[0] == "data":
                total += 1
            out.append(it if it[0] != "data" else ("data", None, None, it[3], None))
        merged[sid] = (tuple(x for x in out if x[0] != "data"), sum(1 for x in out if x[0] == "data" and x[3]), total > 0)
    return ("h2-frames", tuple(sorted(merged.items())), tuple(sorted(connf, key=repr)))


def _stretched(case):
    """The same case with every client pause stretched by 1e-7 (relative): an observation that changes under this
    is a coincidence of two events at the same virtual instant, i.e. a race, not a divergence."""
    c = dict(case)
    c["client"] = [[st[0], st[1] * (1 + 1e-7)] if st[0] == "advance" else st for st in case["client"]]
    return c


def _with_seed(case, k):
    c = dict(case)
    s = dict(case.get("sched") or {})
    s["seed"] = (s.get("seed", 0) * 31 + k * 7919 + 1) & 0x3FFFFFFF
    c["sched"] = s
    return c


def run_one(case, tally):
    findings, obs_all = [], []
    norms = {}
    for be in ("asyncio", "trio"):
        ns = []
        for k in range(K):
            ob = run_case(_with_seed(case, k) if k else case, be)
            obs_all.append(ob)
            if ob.harness_error:
                tally.inconclusive["harness:" + ob.harness_error.strip().splitlines()[-1][:80]] += 1
                return findings, obs_all
            if k == 0:
                for e in ob.trace.events:
                    tally.events[e[2] + "." + e[3]] += 1
            ns.append(normalise(case, ob))
        if any(st[0] == "advance" for st in case["client"]):
            ob = run_case(_stretched(case), be)
            obs_all.append(ob)
            if not ob.harness_error:
                n2 = normalise(case, ob)
                if n2["closed_at"] is not None and ns[0]["closed_at"] is not None and abs(n2["closed_at"] - ns[0]["closed_at"]) < 1e-4 * max(1.0, ns[0]["closed_at"]):
                    n2["closed_at"] = ns[0]["closed_at"]
                ns.append(n2)
        norms[be] = ns
    if any(o.open_sends() and any(v in ("http.disconnect", "websocket.disconnect") for v in o.blocked_puts().values()) for o in obs_all):
        tally.notes["known-deadlock-excluded(C06)"] += 1
        return findings, obs_all
    racy = [be for be in norms if any(n != norms[be][0] for n in norms[be][1:])]
    if racy:
        tally.notes["racy-excluded:" + case["source"]] += 1
        tally.clause("racy-excluded")
        return findings, obs_all
    tally.clause("compared")
    a, t = norms["asyncio"][0], norms["trio"][0]
    if case["source"] == "c04":
        def _conn_error(n):
            c = n["client"]
            return c[0] == "h2-frames" and any(x[0] == "goaway" and x[1] for x in c[2])
        if _conn_error(a) or _conn_error(t):
            # after a connection error, which in-flight responses still got out is a legal race: compare the error only
            red = lambda n: {"goaway": sorted(x for x in n["client"][2] if x[0] == "goaway") if n["client"][0] == "h2-frames" else n["client"],
                             "handler": n["handler"], "closed": n["closed_at"] is not None}
            a, t = red(a), red(t)
            tally.notes["c04-connection-error:reduced-comparison"] += 1
    if a != t:
        diff = [k for k in a if a[k] != t[k]]
        findings.append({"clause": "compared", "sig": "C16.divergence/%s/%s" % (case["source"], "+".join(diff)), "backend": "both",
                         "detail": "family %s differs in %s:\n asyncio: %s\n trio:    %s" % (
                             case["family"], diff, repr({k: a[k] for k in diff})[:600], repr({k: t[k] for k in diff})[:600])})
    return findings, obs_all


def nontrivial(case, obs):
    return True


def check(case, obs, tally):
    return []
