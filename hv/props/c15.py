"""C15 — graceful shutdown is orderly and bounded (tier B: real serve())."""
from __future__ import annotations

import socket
import time

from ..wire.h2raw import FrameBuilder, FrameReader, client_preface
from ..wire import ws
from ..world.realnet import ServeHarness, recv_all, recv_until

ID = "C15"
LEVEL = "fault_enumeration"
BUDGET = {"quick": 90, "thorough": 900}
TECHNIQUE = ("causal monitor over the real serve(): clients of each connection kind are parked, the shutdown trigger fires, and "
             "the oracle records what each client saw and whether serve() had returned at a horizon of several grace periods "
             "while stuck clients were still held (and returned only when they were released)")
LEVEL_TEXT = ("Enumerates connection kinds (idle keep-alive, partial head, request finishing inside / outlasting the grace period, "
              "stuck forever, response the client does not read, HTTP/2 with open streams, HTTP/2 idle, open WebSocket) x "
              "connection counts x trigger source (callable, worker max_requests) x both workers on real loopback sockets.")
LEVEL_NOTE = ("Durations are never verdicts on their own: 'unbounded' is reported only when serve() is still running at a horizon "
              "of ~6x (graceful+shutdown timeout) with clients held and returns after they are released.")
RULE = "cases = connection kind x count x trigger x worker; non-trivial = at least one connection was established before the trigger"
ASSUMPTIONS = ["a connect() completed by the kernel backlog after the listener closed is not an accepted connection"]
MIN_DECISIVE = {"bounded": 10, "idle-closed": 2, "no-new-work": 4, "inflight-delivered": 2}
SHARDS = 16
GRACE, SHUT = 0.4, 0.4
HORIZON = 5.0

KINDS = ["idle_keepalive", "partial_head", "inflight_short", "upload_inflight", "pipelined_behind_inflight", "pipelined_second_inflight", "h2_two_inflight", "inflight_long", "stuck_forever", "unread_response", "unread_response_halfclosed", "h2_open_stream", "h2_unread_response",
         "h2_idle", "h2_fresh", "h2_reset_idle", "websocket_open"]


def gen(rng, tier):
    reps = 1 if tier == "quick" else 3
    for rep in range(reps):
        for be in ("asyncio", "trio"):
            for kind in KINDS:
                for count in ([1] if tier == "quick" and kind not in ("stuck_forever", "idle_keepalive") else [1, 5]) + ([20] if kind == "stuck_forever" else []):
                    yield {"family": "%s.x%d" % (kind, count), "backend": be, "kind": kind, "count": count, "trigger": "callable", "rep": rep}
            yield {"family": "max_requests.idle", "backend": be, "kind": "idle_keepalive", "count": 2, "trigger": "max_requests", "rep": rep}
            # the lifespan application is not gone the instant it has said shutdown.complete (clean-up of its own, a middleware leaving
            # its task group): serve() still has to *return*
            for ls in ("lingers", "yields"):
                yield {"family": "lifespan-%s.idle" % ls, "backend": be, "kind": "idle_keepalive", "count": 1, "trigger": "callable", "rep": rep, "ls": ls}
            # ... and one that never answers lifespan.shutdown: shutdown_timeout (and no other timeout of the configuration) ends the wait
            yield {"family": "lifespan-stuck.idle", "backend": be, "kind": "idle_keepalive", "count": 1, "trigger": "callable", "rep": rep, "ls": "stuck"}
            # connections arriving while the trigger fires: each request is either answered in full or was never handed to an application
            for k in range(4 if tier == "quick" else 12):
                yield {"family": "burst-across-trigger", "backend": be, "kind": "burst_across_trigger", "count": 16, "trigger": "callable", "rep": rep * 10 + k}
            # the real master process and its workers, real signals
            import signal as _signal
            for workers, sig in (((2, int(_signal.SIGTERM)), (2, int(_signal.SIGINT))) if tier == "quick" else ((1, int(_signal.SIGTERM)), (2, int(_signal.SIGTERM)), (2, int(_signal.SIGINT)), (3, int(_signal.SIGTERM)))):
                yield {"family": "process.%s.w%d" % (_signal.Signals(sig).name, workers), "backend": be, "kind": "process_signal", "count": 5, "workers": workers,
                       "signal": sig, "trigger": "signal", "rep": rep}
            # no worker processes (workers = 0, the application served by the process that was started).  SIGTERM is a trigger only for the
            # asyncio worker, which installs a handler for it; the trio worker leaves SIGTERM at its default action (outside the statement's
            # trigger sources, observed and noted in DESIGN.md) and is therefore driven with SIGINT only
            for sig in ([int(_signal.SIGINT)] if tier == "quick" else [int(_signal.SIGINT)] + ([int(_signal.SIGTERM)] if be == "asyncio" else [])):
                yield {"family": "process.%s.w0" % _signal.Signals(sig).name, "backend": be, "kind": "process_signal", "count": 4, "workers": 0,
                       "signal": sig, "trigger": "signal", "rep": rep}
            yield {"family": "lifespan-lingers.inflight", "backend": be, "kind": "inflight_short", "count": 1, "trigger": "callable", "rep": rep, "ls": "lingers"}


def _process_signal(case, tally):
    """The real master process (python -m hypercorn, spawn-ed workers) is sent SIGTERM / SIGINT while requests are in progress in its
    workers.  Monitors: a log written by the application itself (worker pid, request start/done, lifespan start-up/shutdown) and the client's
    view.  Judged on order and counts: every request in progress at the signal and finishing inside the grace period is delivered in full;
    each worker's lifespan.shutdown comes once and after the last request it had in progress returned; nothing is started by a worker after
    its lifespan.shutdown; the master exits with status 0 (a generous wall-clock watchdog only makes the run inconclusive)."""
    import os, shutil, signal, socket, subprocess, sys, tempfile, threading

    findings = []
    be, workers, nconn, sig = case["backend"], case["workers"], case["count"], case["signal"]
    d = tempfile.mkdtemp(prefix="hv-c15p-")
    path, logf = os.path.join(d, "s.sock"), os.path.join(d, "log")
    cmd = [sys.executable, "-m", "hypercorn", "--bind", "unix:" + path, "--workers", str(workers), "--worker-class", be,
           "--graceful-timeout", "10", "hv.apps.procapp:app"]
    proc = subprocess.Popen(cmd, env=dict(os.environ, HV_PROC_LOG=logf), stdout=subprocess.PIPE, stderr=subprocess.STDOUT, cwd=d,
                            start_new_session=True)  # (a process group of its own: workers a master leaves behind are cleared away with it)
    results, rc = {}, None
    try:
        end = time.monotonic() + 20.0
        while time.monotonic() < end:
            try:
                if open(logf).read().count(" lifespan startup") >= max(1, workers):
                    break
            except OSError:
                pass
            time.sleep(0.05)

        def one(i):
            c = socket.socket(socket.AF_UNIX)
            c.settimeout(15.0)
            try:
                c.connect(path)
                # different durations: the workers do not finish their drains at the same moment
                c.sendall(b"GET /slow%d?%.2f HTTP/1.1\r\nHost: h\r\nConnection: close\r\n\r\n" % (i, 0.3 + 0.25 * i))
                buf = b""
                while True:
                    x = c.recv(65536)
                    if not x:
                        break
                    buf += x
                results[i] = buf
            except OSError as e:
                results[i] = type(e).__name__
            finally:
                c.close()

        ths = [threading.Thread(target=one, args=(i,), daemon=True) for i in range(nconn)]
        for t in ths:
            t.start()
        # causal: signal only once every request has been handed to an application
        end = time.monotonic() + 10.0
        while time.monotonic() < end:
            try:
                if open(logf).read().count(" start /slow") >= nconn:
                    break
            except OSError:
                pass
            time.sleep(0.02)
        proc.send_signal(sig)
        t_sig = time.monotonic()
        for t in ths:
            t.join(20.0)
        try:
            proc.communicate(timeout=25.0)
            rc = proc.returncode
        except subprocess.TimeoutExpired:
            rc = "timeout"
    finally:
        try:
            os.killpg(proc.pid, signal.SIGKILL)
        except (ProcessLookupError, PermissionError):
            pass
        if proc.poll() is None:
            proc.kill()
        try:
            proc.communicate(timeout=10.0)
        except subprocess.TimeoutExpired:
            pass
        log = [ln.split() for ln in (open(logf).read().splitlines() if os.path.exists(logf) else [])]
        shutil.rmtree(d, ignore_errors=True)
    log = [f for f in log if len(f) == 4]
    tally.events["proc.log-lines"] += len(log)
    n_started = sum(1 for f in log if f[2] == "start")
    if n_started < nconn or rc == "timeout" and not log:
        tally.inconclusive["process-run-requests-not-started(%d/%d)" % (n_started, nconn)] += 1
        return findings, [None]
    tally.clause("process-signal")
    bad = [i for i in range(nconn) if not (isinstance(results.get(i), bytes) and results[i].startswith(b"HTTP/1.1 200") and (b"path=/slow%d" % i) in results[i])]
    if bad:
        findings.append({"clause": "inflight-delivered", "sig": "C15.process/inflight-lost/%s" % be, "backend": be,
                         "detail": "%s to the master with %d requests in progress (0.3-1.5 s, graceful_timeout 10 s): requests %r were not delivered in full (%r)" % (
                             signal.Signals(sig).name, nconn, bad[:6], (results.get(bad[0]) or b"")[:60])})
    for pid in sorted({f[1] for f in log}):
        mine = [f for f in log if f[1] == pid]
        sd = [k for k, f in enumerate(mine) if f[2] == "lifespan" and f[3] == "shutdown"]
        if len(sd) > 1:
            findings.append({"clause": "inflight-delivered", "sig": "C15.process/lifespan-shutdown-count-%d/%s" % (len(sd), be), "backend": be, "detail": "worker %s" % pid})
        elif len(sd) == 1:
            after = [f for f in mine[sd[0] + 1:] if f[2] in ("start", "done")]
            if any(f[2] == "done" for f in after) and not bad:
                findings.append({"clause": "inflight-delivered", "sig": "C15.process/lifespan-shutdown-before-drain/%s" % be, "backend": be,
                                 "detail": "worker %s: lifespan.shutdown was delivered before %r" % (pid, [f[2] + " " + f[3] for f in after][:4])})
            if any(f[2] == "start" for f in after):
                findings.append({"clause": "no-new-work", "sig": "C15.process/request-started-after-lifespan-shutdown/%s" % be, "backend": be,
                                 "detail": "worker %s started %r after its lifespan.shutdown" % (pid, [f[3] for f in after if f[2] == "start"][:4])})
        elif any(f[2] == "lifespan" and f[3] == "startup" for f in mine) and rc == 0:
            findings.append({"clause": "bounded", "sig": "C15.process/no-lifespan-shutdown/%s" % be, "backend": be,
                             "detail": "worker %s completed its start-up and the master exited with status 0, but the worker was never sent lifespan.shutdown" % pid})
    if rc == "timeout":
        findings.append({"clause": "bounded", "sig": "C15.process/master-did-not-exit/%s" % be, "backend": be,
                         "detail": "the master had not exited 25 s after %s (graceful_timeout 10 s, requests of at most 1.5 s)" % signal.Signals(sig).name})
    elif rc != 0:
        findings.append({"clause": "bounded", "sig": "C15.process/master-exit-status/%s" % be, "backend": be,
                         "detail": "the master exited with status %r after %s and an orderly drain" % (rc, signal.Signals(sig).name)})
    return findings, [None]


def _burst_across_trigger(case, h, tally):
    """Connections are opened, each with its request written at once, while the shutdown trigger fires in their midst.  Whatever the
    interleaving, a request is either "in progress" (handed to an application: then its response - the application answers at once, well
    inside the grace period - must arrive in full) or "new" (refused: then no application may have been started for it).  Judged per request
    from the application-side record, never from timing."""
    import threading

    findings, be, n = [], case["backend"], case["count"]
    results = {}
    try:
        h.start()
        tr = h.trace
        h.wait_event(lambda e: e[2] == "app" and e[3] == "send.", 3.0)
        h.wait_ready()

        def one(i):
            s = h.connect(timeout=0.5)
            if s is None:
                results[i] = ("refused", b"")
                return
            try:
                s.sendall(b"GET /b%d HTTP/1.1\r\nHost: h\r\nConnection: close\r\n\r\n" % i)
                d, eof = recv_all(s, timeout=2.5)
                results[i] = ("eof" if eof else "open", d)
            except OSError as e:
                results[i] = ("error:" + type(e).__name__, b"")
            finally:
                s.close()

        ths = []
        fire_at = n // 2 + (case["rep"] % 3) - 1
        for i in range(n):
            if i == fire_at:
                h.trigger_shutdown()
            t = threading.Thread(target=one, args=(i,), daemon=True)
            t.start()
            ths.append(t)
            if case["rep"] % 2:
                time.sleep(0.002)
        for t in ths:
            t.join(6.0)
        h.wait_done(HORIZON)
    finally:
        h.close()
    ev = h.trace.events
    for e in ev:
        tally.events[e[2] + "." + e[3]] += 1
    started = {e[4]["scope"].get("path") for e in ev if e[2] == "app" and e[3] == "start" and e[4]["scope"].get("type") == "http"}
    if not results:
        tally.inconclusive["no-connection-established"] += 1
        return findings, [None]
    tally.clause("started-implies-delivered")
    kinds = {"served": 0, "refused-cleanly": 0}
    for i, (how, d) in sorted(results.items()):
        path = "/b%d" % i
        complete = d.startswith(b"HTTP/1.1 200") and d.endswith(b"ok")
        if path in started and not complete:
            findings.append({"clause": "inflight-delivered", "sig": "C15.started-then-dropped/%s" % be, "backend": be,
                             "detail": "request %s was handed to an application around the trigger (so it was in progress) but its response did not arrive: "
                                       "connection %s, %d bytes %r" % (path, how, len(d), d[:40])})
            break
        if complete:
            kinds["served"] += 1
        elif path not in started:
            kinds["refused-cleanly"] += 1
    for k, v in kinds.items():
        tally.events["burst." + k] += v
    return findings, [None]


def run_one(case, tally):
    findings = []
    be, kind, count = case["backend"], case["kind"], case["count"]
    if kind == "process_signal":
        return _process_signal(case, tally)
    big = 4 * 1024 * 1024
    apps = {
        "lifespan": [["recv"], ["send", {"type": "lifespan.startup.complete"}], ["recv"], ["send", {"type": "lifespan.shutdown.complete"}]],
        "default": [["recv_until_end"], ["respond", 200, [(b"content-length", b"2")], b"ok"]],
        "websocket": [["recv"], ["send", {"type": "websocket.accept"}], ["recv_until_disconnect"]],
        "by_path": {
            "/short": [["recv_until_end"], ["wait", "finish"], ["respond", 200, [(b"content-length", b"5")], b"short"]],
            "/short2": [["recv_until_end"], ["wait", "finish2"], ["respond", 200, [(b"content-length", b"6")], b"short2"]],
            "/long": [["recv_until_end"], ["sleep", 3 * (GRACE + SHUT)], ["respond", 200, [(b"content-length", b"4")], b"long"]],
            "/stuck": [["recv_until_end"], ["wait", "never"], ["respond", 200, [], b"x"]],
            "/upload": [["recv_until_end"], ["respond", 200, [(b"content-length", b"6")], b"got-20"]],
            "/big": [["recv_until_end"], ["send", {"type": "http.response.start", "status": 200, "headers": []}],
                     ["send_stream", ("c15", 1), big, 65536, True]],
        },
    }
    if case.get("ls") == "stuck":
        apps["lifespan"] = apps["lifespan"][:3] + [["sleep", 30.0]]
    elif case.get("ls"):
        apps["lifespan"] = apps["lifespan"] + ([["sleep", 0.15]] if case["ls"] == "lingers" else [["yield", 2]])
    cfg = {"graceful_timeout": GRACE if kind not in ("inflight_short", "upload_inflight", "pipelined_behind_inflight", "pipelined_second_inflight", "h2_two_inflight", "burst_across_trigger", "h2_fresh", "h2_reset_idle") else 3.0, "shutdown_timeout": SHUT, "keep_alive_timeout": 30.0}
    if case["trigger"] == "max_requests":
        cfg["max_requests"] = 2
    h = ServeHarness(be, cfg, apps)
    socks = []
    seen = {}
    if kind == "burst_across_trigger":
        return _burst_across_trigger(case, h, tally)
    try:
        h.start()
        tr = h.trace
        h.wait_event(lambda e: e[2] == "app" and e[3] == "send.", 3.0)
        h.wait_ready()
        fbs = []
        for i in range(count):
            s = h.connect()
            if s is None:
                continue
            socks.append(s)
            if kind == "idle_keepalive":
                s.sendall(b"GET /t%d HTTP/1.1\r\nHost: h\r\n\r\n" % i)
                recv_until(s, b"ok", timeout=1.0)
            elif kind == "partial_head":
                s.sendall(b"GET /partial HTTP/1.1\r\nHos")
            elif kind == "inflight_short":
                s.sendall(b"GET /short HTTP/1.1\r\nHost: h\r\n\r\n")
            elif kind == "upload_inflight":
                # a request in progress that still needs bytes from its client: the rest of its body comes after the trigger
                s.sendall(b"POST /upload HTTP/1.1\r\nHost: h\r\nContent-Length: 20\r\n\r\n0123456789")
            elif kind == "pipelined_behind_inflight":
                s.sendall(b"GET /short HTTP/1.1\r\nHost: h\r\n\r\nGET /after-trigger HTTP/1.1\r\nHost: h\r\n\r\n")
            elif kind == "pipelined_second_inflight":
                # the request in progress at the trigger is the second of a pipeline: it was already buffered when the first one completed
                s.sendall(b"GET /t%d HTTP/1.1\r\nHost: h\r\n\r\nGET /short HTTP/1.1\r\nHost: h\r\n\r\n" % i)
            elif kind == "inflight_long":
                s.sendall(b"GET /long HTTP/1.1\r\nHost: h\r\n\r\n")
            elif kind == "stuck_forever":
                s.sendall(b"GET /stuck HTTP/1.1\r\nHost: h\r\n\r\n")
            elif kind in ("unread_response", "unread_response_halfclosed"):
                s.setsockopt(socket.SOL_SOCKET, socket.SO_RCVBUF, 4096)
                s.sendall(b"GET /big HTTP/1.1\r\nHost: h\r\n\r\n")
            elif kind == "h2_two_inflight":
                fb = FrameBuilder()
                fbs.append(fb)
                s.sendall(client_preface(fb, {}) +
                          fb.headers(1, [(b":method", b"GET"), (b":scheme", b"http"), (b":path", b"/short"), (b":authority", b"h")], end_stream=True) +
                          fb.headers(3, [(b":method", b"GET"), (b":scheme", b"http"), (b":path", b"/short2"), (b":authority", b"h")], end_stream=True))
            elif kind in ("h2_open_stream", "h2_idle", "h2_fresh", "h2_reset_idle", "h2_unread_response"):
                fb = FrameBuilder()
                fbs.append(fb)
                s.sendall(client_preface(fb, {}))
                if kind == "h2_unread_response":
                    # a response of several MiB stalled on the client's flow-control window (no WINDOW_UPDATE ever comes)
                    s.sendall(fb.headers(1, [(b":method", b"GET"), (b":scheme", b"http"), (b":path", b"/big"), (b":authority", b"h")], end_stream=True))
                elif kind == "h2_reset_idle":
                    # its only request the client gives up on (RST_STREAM) and keeps the connection: no stream is open, it is idle
                    s.sendall(fb.headers(1, [(b":method", b"GET"), (b":scheme", b"http"), (b":path", b"/stuck"), (b":authority", b"h")], end_stream=True))
                elif kind == "h2_fresh":
                    pass  # (prior knowledge, preface and SETTINGS sent, no request yet: as idle as a connection can be)
                elif kind == "h2_open_stream":
                    s.sendall(fb.headers(1, [(b":method", b"GET"), (b":scheme", b"http"), (b":path", b"/stuck"), (b":authority", b"h")], end_stream=True))
                else:
                    s.sendall(fb.headers(1, [(b":method", b"GET"), (b":scheme", b"http"), (b":path", b"/t%d" % i), (b":authority", b"h")], end_stream=True))
            elif kind == "websocket_open":
                s.sendall(ws.handshake(path=b"/ws%d" % i))
                recv_until(s, b"\r\n\r\n", timeout=1.0)
        # let the server get every request going
        want_apps = {"upload_inflight": "/upload", "inflight_short": "/short", "pipelined_behind_inflight": "/short", "pipelined_second_inflight": "/short", "h2_two_inflight": "/short2", "inflight_long": "/long", "stuck_forever": "/stuck", "unread_response": "/big", "unread_response_halfclosed": "/big", "h2_open_stream": "/stuck", "h2_reset_idle": "/stuck", "h2_unread_response": "/big"}.get(kind)
        if want_apps:
            end = time.monotonic() + 2.0
            while time.monotonic() < end and sum(1 for e in tr.events if e[2] == "app" and e[3] == "start" and e[4]["scope"].get("path") == want_apps) < len(socks):
                time.sleep(0.01)
        if kind in ("unread_response", "unread_response_halfclosed"):
            time.sleep(0.3)  # let the kernel buffers fill
        if kind == "unread_response_halfclosed":
            # the client has finished sending (FIN) but still does not read: the server's reading has ended, its writing has not
            for s in socks:
                s.shutdown(socket.SHUT_WR)
            time.sleep(0.2)
        if kind == "h2_reset_idle":
            for s, fb in zip(socks, fbs):
                s.sendall(fb.rst(1, 8))
            time.sleep(0.2)
        if kind in ("h2_idle", "h2_fresh", "h2_reset_idle"):
            for s in socks:
                s.settimeout(0.5)
                try:
                    s.recv(65536)
                except OSError:
                    pass
        witness = None
        if kind in ("inflight_short", "inflight_long", "h2_idle", "h2_fresh", "h2_reset_idle", "h2_open_stream") and case["trigger"] == "callable":
            # an idle keep-alive connection whose closure tells the client, causally, that the worker has begun its shutdown
            witness = h.connect()
            if witness is not None:
                witness.sendall(b"GET /witness HTTP/1.1\r\nHost: h\r\n\r\n")
                recv_until(witness, b"ok", timeout=1.0)
        n_before = sum(1 for e in tr.events if e[2] == "app" and e[3] == "start" and e[4]["scope"].get("type") == "http")
        if case["trigger"] == "max_requests":
            # the worker recycles itself once it has taken on more than max_requests requests
            for j in range(3):
                s2 = h.connect()
                if s2 is None:
                    break
                s2.sendall(b"GET /extra%d HTTP/1.1\r\nHost: h\r\nConnection: close\r\n\r\n" % j)
                recv_all(s2, timeout=0.5)
                s2.close()
            tr.ev("client", "trigger-shutdown")
        else:
            h.trigger_shutdown()
        t_trig = time.monotonic()
        if witness is not None:
            # while requests are still in flight (grace period running): once the witness has been closed by the server the shutdown
            # has begun, and from then on no connection may be accepted
            d, eof = recv_all(witness, timeout=2.0)
            witness.close()
            seen["witness_closed"] = eof
            if eof and kind in ("h2_fresh", "h2_reset_idle"):
                # the witness (an idle HTTP/1.1 connection) has been closed: the idle connections are being closed *now*, three seconds
                # of grace period are still ahead.  A fresh HTTP/2 connection is idle too: its end has to come with the witness's, not
                # with the end of the grace period
                tr.ev("client", "witness-closed")
                seen["fresh_closed"] = [recv_all(s_, timeout=1.0)[1] for s_ in socks]
            elif eof and kind in ("h2_idle", "h2_open_stream"):
                tr.ev("client", "witness-closed")  # only the witness is needed here: from now on the server refuses new streams
            elif eof:
                tr.ev("client", "witness-closed")
                mark = len(tr.events)
                c = h.connect(timeout=0.5) if kind in ("inflight_short", "inflight_long") else None
                if c is not None:
                    try:
                        c.sendall(b"GET /during-grace HTTP/1.1\r\nHost: h\r\n\r\n")
                        recv_all(c, timeout=0.3)
                    except OSError:
                        pass
                    c.close()
                seen["during_grace"] = [e for e in tr.events[mark:] if (e[2] == "net" and e[3] == "accept") or (e[2] == "srv" and e[3] == "tcpserver")
                                        or (e[2] == "app" and e[3] == "start" and e[4]["scope"].get("path") == "/during-grace")]
            elif kind in ("inflight_short", "inflight_long"):
                seen["during_grace"] = None
        if kind == "h2_two_inflight":
            time.sleep(0.2)
            h.apps.trigger("finish")
            time.sleep(0.3)
            h.apps.trigger("finish2")
            for s in socks:
                data, eof = recv_all(s, timeout=1.5)
                rd = FrameReader()
                evs = rd.feed(data)
                bodies, ended = {}, set()
                for e in evs:
                    if e["t"] == "data":
                        bodies[e["sid"]] = bodies.get(e["sid"], b"") + e["data"]
                    if e["t"] in ("data", "headers") and e.get("end"):
                        ended.add(e["sid"])
                # delivered in full = all the bytes *and* the end of the stream
                seen.setdefault("short", []).append(bodies.get(1) == b"short" and bodies.get(3) == b"short2" and ended >= {1, 3})
                seen.setdefault("h2_detail", []).append((dict(bodies), sorted(ended)))
                # "the peer is told to go away": a connection that was busy at the trigger and is closed once its streams have finished
                # must have carried a GOAWAY before its end (a bare EOF tells an HTTP/2 client nothing about which streams were processed)
                seen.setdefault("h2_goaway_before_eof", []).append((any(e["t"] == "goaway" for e in evs), eof))
        if kind == "upload_inflight":
            time.sleep(0.2)
            for s in socks:
                try:
                    s.sendall(b"abcdefghij")
                except OSError:
                    pass
            for s in socks:
                data, eof = recv_all(s, timeout=2.0)
                seen.setdefault("short", []).append(data.endswith(b"got-20"))
        if kind in ("inflight_short", "pipelined_behind_inflight", "pipelined_second_inflight"):
            time.sleep(0.2)
            h.apps.trigger("finish")
            for s in socks:
                data, eof = recv_all(s, timeout=2.0)
                seen.setdefault("short", []).append(data.endswith(b"short"))
        # ---- no new work after the trigger ---------------------------------------------------
        # causal, not chronometric: wait until the server has seen the trigger and has closed its listener
        fired = h.wait_event(lambda e: e[2] == "srv" and e[3] == "trigger-fired", 4.0) if case["trigger"] == "callable" else True
        lsock = h.sockets.insecure_sockets[0]
        end = time.monotonic() + 3.0
        while time.monotonic() < end and lsock.fileno() != -1:
            time.sleep(0.01)
        seen["listener_closed"] = lsock.fileno() == -1
        s3 = h.connect(timeout=0.5) if fired and seen["listener_closed"] else None
        new_served = None
        if s3 is not None:
            try:
                s3.sendall(b"GET /after-trigger HTTP/1.1\r\nHost: h\r\n\r\n")
                d, _ = recv_all(s3, timeout=0.5)
                new_served = b"200" in d[:15]
            except OSError:
                new_served = False
            s3.close()
        seen["new_conn_served"] = new_served
        if kind == "idle_keepalive":
            closed = []
            for s in socks:
                d, eof = recv_all(s, timeout=1.0)
                closed.append(eof)
                if eof:
                    continue
            seen["idle_closed"] = closed
        if kind in ("h2_idle", "h2_fresh", "h2_open_stream"):
            got_goaway = []
            for s, fb in zip(socks, fbs):
                try:
                    s.sendall(fb.headers(3, [(b":method", b"GET"), (b":scheme", b"http"), (b":path", b"/new-stream"), (b":authority", b"h")], end_stream=True))
                except OSError:
                    pass
                d, eof = recv_all(s, timeout=0.6)
                rd = FrameReader()
                evs = rd.feed(d)
                got_goaway.append((any(e["t"] == "goaway" for e in evs), any(e["t"] == "rst" and e["sid"] == 3 for e in evs), eof,
                                   any(e["t"] == "headers" and e["sid"] == 3 for e in evs)))
            seen["h2"] = got_goaway
        # ---- bounded: has serve() returned although clients are stuck? ------------------------
        returned = h.wait_done(max(0.1, HORIZON - (time.monotonic() - t_trig)) if kind != "inflight_long" else HORIZON)
        seen["returned_at_horizon"] = returned
        seen["t_return"] = time.monotonic() - t_trig if returned else None
        if not returned:
            tr.ev("client", "release-clients")
            for s in socks:
                try:
                    s.close()
                except OSError:
                    pass
            socks = []
            seen["returned_after_release"] = h.wait_done(6.0)
    finally:
        for s in socks:
            try:
                s.close()
            except OSError:
                pass
        h.close()
    ev = h.trace.events
    for e in ev:
        tally.events[e[2] + "." + e[3]] += 1
    if not any(e[2] == "client" and e[3] == "connected" for e in ev):
        tally.inconclusive["no-connection-established"] += 1
        return findings, [None]
    tally.clause("bounded")
    if not seen.get("returned_at_horizon"):
        if case.get("ls") == "stuck":
            # (no client has anything to do with it: the one idle connection was closed at the trigger)
            findings.append({"clause": "bounded", "sig": "C15.unbounded/%s/lifespan-shutdown-unanswered" % be, "backend": be,
                             "detail": "the lifespan application never answered lifespan.shutdown: serve() had not ended %.1f s after the trigger "
                                       "(graceful_timeout %.1f + shutdown_timeout %.1f)" % (HORIZON, GRACE, SHUT)})
        elif seen.get("returned_after_release"):
            findings.append({"clause": "bounded", "sig": "C15.unbounded/%s/%s" % (be, _mech(kind)), "backend": be,
                             "detail": "%d %s connection(s): serve() had not returned %.1f s after the trigger (graceful_timeout %.1f + shutdown_timeout %.1f) "
                                       "and returned only once the clients were released" % (case["count"], kind, HORIZON, GRACE, SHUT)})
        else:
            tally.inconclusive["serve-never-returned(%s/%s)" % (be, kind)] += 1
    if isinstance(h.result, tuple):
        lines = [ln.strip(" |+-") for ln in h.result[1].strip().splitlines()]
        last = [ln for ln in lines if ln and not ln[0].isdigit()][-1]  # inside an exception group: the innermost exception
        if "LifespanTimeoutError" in last or "LifespanFailureError" in last:
            tally.notes["serve-raised:%s" % last[:60]] += 1
        else:
            # "... runs lifespan shutdown, and returns": the lifespan application completed its shutdown, nothing failed
            tally.clause("returns")
            findings.append({"clause": "bounded", "sig": "C15.serve-raised/%s/%s" % (be, last.split(":")[0].split(".")[-1][:40]), "backend": be,
                             "detail": "serve() did not return but raised %s after an orderly shutdown (%s, lifespan %s)" % (last[:120], kind, case.get("ls", "plain"))})
    elif h.result == "returned":
        tally.clause("returns")
    if "during_grace" in seen:
        if seen["during_grace"] is None:
            tally.inconclusive["witness-connection-not-closed"] += 1
        else:
            tally.clause("no-accept-during-grace")
            if seen["during_grace"]:
                e0 = seen["during_grace"][0]
                findings.append({"clause": "no-new-work", "sig": "C15.connection-accepted-during-grace/%s" % be, "backend": be,
                                 "detail": "after the worker had begun its shutdown (an idle keep-alive connection had been closed by it) and while a request "
                                           "was still in flight, a new connection was still taken on: %s.%s (+%d further events)" % (e0[2], e0[3], len(seen["during_grace"]) - 1)})
    tally.clause("no-new-work")
    if not seen.get("listener_closed"):
        tally.inconclusive["listener-not-observed-closed"] += 1
    if seen.get("new_conn_served"):
        findings.append({"clause": "no-new-work", "sig": "C15.new-connection-served-after-trigger/%s" % be, "backend": be,
                         "detail": "a connection opened after the shutdown trigger was accepted and served"})
    after = [e for e in ev if e[2] == "app" and e[3] == "start" and e[4]["scope"].get("path") in (
        ("/after-trigger", "/new-stream") if seen.get("witness_closed", True) else ("/after-trigger",))]
    if after:
        findings.append({"clause": "no-new-work", "sig": "C15.new-request-started-after-trigger/%s" % be, "backend": be,
                         "detail": "application started for %r after the trigger" % after[0][4]["scope"].get("path")})
    if kind == "idle_keepalive" and case["trigger"] == "callable":
        tally.clause("idle-closed")
        if not all(seen.get("idle_closed", [False])):
            findings.append({"clause": "idle-closed", "sig": "C15.idle-connection-kept-open/%s" % be, "backend": be,
                             "detail": "idle keep-alive connections after the trigger: closed=%r" % seen.get("idle_closed")})
    if kind in ("h2_fresh", "h2_reset_idle") and "fresh_closed" in seen:
        tally.clause("idle-closed")
        if not all(seen["fresh_closed"]):
            findings.append({"clause": "idle-closed", "sig": "C15.idle-connection-kept-open/%s/%s" % (be, kind.replace("_", "-")), "backend": be,
                             "detail": "HTTP/2 connections without an open stream (nothing but the preface sent / the only request reset by the client): a second after the server had closed an idle HTTP/1.1 "
                                       "connection (3 s of grace period still ahead) they were still open: closed=%r" % seen["fresh_closed"]})
    if kind in ("inflight_short", "upload_inflight", "pipelined_behind_inflight", "pipelined_second_inflight", "h2_two_inflight"):
        tally.clause("inflight-delivered")
        if not all(seen.get("short", [False])):
            findings.append({"clause": "inflight-delivered", "sig": "C15.inflight-truncated/%s" % be, "backend": be,
                             "detail": "request completing inside the grace period was not delivered in full: %r" % seen.get("short")})
    if kind in ("inflight_short", "pipelined_behind_inflight", "pipelined_second_inflight", "h2_two_inflight"):
        # "... lets requests in progress finish ..., then ... runs lifespan shutdown": these requests finish inside the grace period,
        # so the lifespan application must not hear of the shutdown before the last of them has returned
        ls = [e for e in ev if e[2] == "app" and e[3] == "recv" and e[4]["msg"].get("type") == "lifespan.shutdown"]
        exits = [e for e in ev if e[2] == "app" and e[3] == "exit" and h.apps.scopes.get(e[4]["inst"], {}).get("path") in ("/short", "/short2")]
        if ls and exits:
            tally.clause("lifespan-after-drain")
            if ls[0][0] < max(x[0] for x in exits):
                findings.append({"clause": "inflight-delivered", "sig": "C15.lifespan-shutdown-before-drain/%s" % be, "backend": be,
                                 "detail": "lifespan.shutdown was delivered (seq %d) while a request that went on to finish inside the grace period was "
                                           "still in progress (it returned at seq %d)" % (ls[0][0], max(x[0] for x in exits))})
    if kind == "h2_two_inflight":
        tally.clause("h2-goaway")
        for goaway, eof in seen.get("h2_goaway_before_eof", []):
            if eof and not goaway:
                findings.append({"clause": "no-new-work", "sig": "C15.h2-closed-without-goaway/%s" % be, "backend": be,
                                 "detail": "HTTP/2 connection with streams in progress at the trigger: the responses arrived and the connection was closed, "
                                           "but no GOAWAY was ever sent"})
            elif not eof:
                tally.notes["h2-two-inflight-not-closed-within-observation"] += 1
    if kind in ("h2_idle", "h2_fresh", "h2_open_stream") and case["trigger"] == "callable" and not seen.get("witness_closed"):
        # the closing of the listener precedes, by a few scheduler steps, the moment from which new streams are refused (trio); only the
        # server's closing of an idle connection proves that moment has passed, and it was not observed in time
        tally.inconclusive["witness-connection-not-closed"] += 1
    elif kind in ("h2_idle", "h2_fresh", "h2_open_stream"):
        tally.clause("h2-refused")
        for goaway, rst3, eof, hdr3 in seen.get("h2", []):
            if hdr3:
                findings.append({"clause": "no-new-work", "sig": "C15.h2-new-stream-served/%s" % be, "backend": be, "detail": "a stream opened after the trigger was answered"})
            if not (goaway or eof):
                findings.append({"clause": "no-new-work", "sig": "C15.h2-no-goaway/%s/%s" % (be, kind), "backend": be,
                                 "detail": "HTTP/2 peer was neither told to go away nor disconnected after the trigger (rst on new stream: %r)" % rst3})
    return findings, [None]


def _mech(kind):
    return {"stuck_forever": "stuck-request", "unread_response": "client-not-reading", "unread_response_halfclosed": "client-not-reading-half-closed", "h2_open_stream": "stuck-h2-stream", "h2_unread_response": "h2-response-stalled-on-window",
            "websocket_open": "open-websocket", "inflight_long": "request-longer-than-grace", "partial_head": "partial-head"}.get(kind, kind)


def nontrivial(case, obs):
    return True


def check(case, obs, tally):
    return []
