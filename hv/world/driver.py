"""Executes one case on one worker class and returns an Observation.

Case (plain data):
  config   dict of Config attributes
  conn     {tls, alpn, family, peer, name}
  apps     scripts for hv.apps.script.ScriptedApps   (or "wsgi": shape spec)
  client   list of steps: feed/settle/advance/eof/reset/pause/resume/fail_write_at/trigger/
           terminate/mark/react
  reactor  optional {"kind": "h2", ...}: a reactive client consulted after every settle
  sched    {"seed": int, "net_jitter": [p, kmax]}
  horizon  virtual seconds finish() may advance (default 1000)
"""
from __future__ import annotations

import gc
import random
import sys
import time
import traceback

from ..apps.script import ScriptedApps
from ..probes.sanitizers import Sanitizers, make_loggers
from ..probes.trace import Trace


class CaseTimeout(BaseException):
    pass


class SpinError(RuntimeError):
    pass


class Obs:
    """What an executor returns."""

    def __init__(self):
        self.backend = None
        self.trace = None
        self.out = []  # (vtime, bytes)
        self.closed_at = None
        self.eof_at = None
        self.handler = "pending"
        self.handler_exc = None
        self.end = None  # 'dead' | 'time'
        self.tasks_left = 0
        self.sanitizers = []
        self.steps = 0
        self.access = []
        self.errors = []
        self.marks = {}
        self.vtime_end = 0.0
        self.apps = None
        self.harness_error = None
        self.reactor = None
        self.pending_out = 0
        self.wsgi = None
        self.spin = None
        self.end_seq = None
        self.handler_done_at = None

    @property
    def outbytes(self):
        return b"".join(d for _, d in self.out)

    def open_sends(self):
        """send() calls that never returned: list of (inst, msg summary)."""
        open_ = {}
        for e in self.trace.events:
            if e[2] != "app":
                continue
            if e[3] == "send?":
                open_[e[4]["inst"]] = e
            elif e[3] in ("send.", "send!"):
                open_.pop(e[4]["inst"], None)
        return list(open_.values())

    def app_events(self, inst=None, kind=None):
        return [
            e for e in self.trace.events
            if e[2] == "app" and (inst is None or e[4].get("inst") == inst) and (kind is None or e[3] == kind)
        ]

    def blocked_puts(self):
        """diag: {inst: message type} for deliveries to an application queue that never returned."""
        open_ = {}
        for e in self.trace.events:
            if e[2] == "diag" and e[3] == "put?":
                open_[e[4]["scope"]] = e[4]["type"]
            elif e[2] == "diag" and e[3] == "put.":
                open_.pop(e[4]["scope"], None)
        by_scope = {id(sc): inst for inst, sc in (self.apps.scopes.items() if self.apps is not None and hasattr(self.apps, "scopes") else [])}
        return {by_scope.get(k, -1): v for k, v in open_.items()}

    def instances(self):
        return [e[4]["inst"] for e in self.trace.events if e[2] == "app" and e[3] == "start"]

    def exits(self):
        return {e[4]["inst"]: e[4]["outcome"] for e in self.trace.events if e[2] == "app" and e[3] == "exit"}


def _mk_config(case, trace, san):
    from hypercorn.config import Config

    config = Config()
    for k, v in (case.get("config") or {}).items():
        setattr(config, k, v)
    acc, err, ah, eh = make_loggers(trace, san)
    config.accesslog = acc
    config.errorlog = err
    return config, ah, eh


def _mk_app(case, trace):
    from hypercorn.app_wrappers import ASGIWrapper, WSGIWrapper

    if case.get("wsgi") is not None:
        from ..apps.wsgi_shapes import build_wsgi

        rec = {}
        wsgi_app = build_wsgi(case["wsgi"], rec, trace)
        via = case["wsgi"].get("via", "wrapper")
        if via == "wrapper":
            return WSGIWrapper(wsgi_app, case["wsgi"].get("max_body", 16 * 1024 * 1024)), rec
        if via == "middleware_asyncio":
            from hypercorn.middleware.wsgi import AsyncioWSGIMiddleware

            return ASGIWrapper(AsyncioWSGIMiddleware(wsgi_app, case["wsgi"].get("max_body", 2 ** 16))), rec
        if via == "middleware_trio":
            from hypercorn.middleware.wsgi import TrioWSGIMiddleware

            return ASGIWrapper(TrioWSGIMiddleware(wsgi_app, case["wsgi"].get("max_body", 2 ** 16))), rec
        raise ValueError(via)
    apps = ScriptedApps(trace, case["apps"])
    return ASGIWrapper(apps), apps


def _mk_reactor(case, trace):
    r = case.get("reactor")
    if not r:
        return None
    if r["kind"] == "h2":
        from ..wire.h2raw import H2Reactor

        return H2Reactor(r, trace)
    if r["kind"] == "ws":
        from ..wire.ws import WSReactor

        return WSReactor(r, trace)
    raise ValueError(r["kind"])


class _PutProbe:
    """diag probe: records when the server's delivery of a message to an application queue starts and
    returns ("put?" / "put."), keyed by id(scope).  Used only to classify known findings."""

    def __init__(self, cls, trace):
        self.cls, self.trace = cls, trace
        self.orig = cls.spawn_app

    def __enter__(self):
        orig, trace = self.orig, self.trace

        async def spawn_app(tg, app, config, scope, send):
            put = await orig(tg, app, config, scope, send)
            sid = id(scope)

            async def traced_put(msg):
                trace.ev("diag", "put?", scope=sid, type=msg.get("type") if isinstance(msg, dict) else None)
                await put(msg)
                trace.ev("diag", "put.", scope=sid)

            return traced_put

        self.cls.spawn_app = spawn_app
        return self

    def __exit__(self, *a):
        self.cls.spawn_app = self.orig


def _jitter_fn(case):
    sched = case.get("sched") or {}
    nj = sched.get("net_jitter")
    if not nj:
        return None
    rng = random.Random((sched.get("seed", 0) * 7919 + 13) & 0xFFFFFFFF)
    p, kmax = nj

    def f():
        return rng.randint(1, kmax) if rng.random() < p else 0

    return f


# =============================================================================================
# asyncio
# =============================================================================================

def run_asyncio(case):
    import asyncio

    from hypercorn.asyncio.tcp_server import TCPServer
    from hypercorn.asyncio.worker_context import WorkerContext

    from . import vloop
    from .net_asyncio import make_conn

    obs = Obs()
    obs.backend = "asyncio"

    async def main(loop):
        trace = Trace(loop.time)
        obs.trace = trace
        loop.spin_trace = trace
        from hypercorn.asyncio.task_group import TaskGroup as _TG

        with _PutProbe(_TG, trace), Sanitizers(trace) as san:
            loop.set_exception_handler(san.loop_handler)
            config, ah, eh = _mk_config(case, trace, san)
            app, apps = _mk_app(case, trace)
            obs.apps = apps
            context = WorkerContext(case.get("max_requests"))
            reader, writer, tr, proto = make_conn(loop, trace, case.get("conn") or {}, _jitter_fn(case))
            state = dict(case.get("state") or {})
            server = TCPServer(app, loop, config, context, state, reader, writer)
            base_tasks = set(asyncio.all_tasks(loop))
            task = loop.create_task(server.run())
            task.add_done_callback(lambda t: setattr(obs, "handler_done_at", loop.time()))
            reactor = _mk_reactor(case, trace)
            obs.reactor = reactor
            consumed = [0]

            def feed(data):
                trace.ev("client", "feed", n=len(data))
                return tr.net_feed(data)

            async def settle():
                await loop.quiescent()
                if reactor is not None:
                    for _ in range(10000):
                        new = tr.out[consumed[0]:]
                        consumed[0] = len(tr.out)
                        # (the client saw these bytes when they were written, which need not be now: the script may have come to rest earlier)
                        reply = reactor.react(b"".join(d for _, d in new), new[-1][0] if new else loop.time())
                        if not reply:
                            break
                        for r in reply:
                            await do_step(r, nested=True)
                        await loop.quiescent()

            async def do_step(step, nested=False):
                op = step[0]
                if op == "feed":
                    feed(step[1])
                    if not nested:
                        await settle()
                elif op == "feed_nosettle":
                    feed(step[1])
                elif op == "turns":
                    # let the server run for exactly k scheduler turns (not until quiescence): the next bytes then arrive in the middle
                    # of whatever the server is doing - the way real network timing interleaves with its tasks
                    for _ in range(step[1]):
                        await asyncio.sleep(0)
                elif op == "feed_split":
                    data, sizes = step[1], step[2]
                    # the reactive client must not interleave its own frames inside a message that
                    # is still being written: only plain quiescence between the pieces
                    off = 0
                    for n in sizes:
                        if off >= len(data):
                            break
                        feed(data[off:off + n])
                        off += n
                        if len(step) > 3 and step[3] is not None:
                            # optional 4th element: scheduler turns granted between the pieces (instead of running to quiescence)
                            for _ in range(step[3][min(len(step[3]) - 1, max(0, off) % len(step[3]))]):
                                await asyncio.sleep(0)
                        else:
                            await loop.quiescent()
                    if off < len(data):
                        feed(data[off:])
                    await settle()
                elif op == "settle":
                    await settle()
                elif op == "quiesce":
                    await loop.quiescent()
                elif op == "advance":
                    await loop.advance(step[1])
                    await settle()
                elif op == "eof":
                    tr.net_eof()
                    if not nested:
                        await settle()
                elif op == "reset":
                    tr.net_reset()
                    if not nested:
                        await settle()
                elif op == "pause":
                    tr.net_pause()
                elif op == "take":
                    tr.net_take(step[1])
                    if not nested:
                        await settle()
                elif op == "resume":
                    tr.net_resume()
                    if not nested:
                        await settle()
                elif op == "fail_write_at":
                    tr.fail_write_at = tr.nwrites + step[1]
                    tr.fail_write_exc = step[2] if len(step) > 2 else None
                elif op == "trigger":
                    trace.ev("client", "trigger", name=step[1])
                    apps.trigger(step[1])
                    if not nested:
                        await settle()
                elif op == "terminate":
                    trace.ev("client", "terminate")
                    await context.terminated.set()
                    if not nested:
                        await settle()
                elif op == "mark":
                    obs.marks[step[1]] = {
                        "t": loop.time(), "nout": len(tr.out), "seq": len(trace.events),
                        "closed": tr.is_closing(), "handler_done": task.done(),
                        "outlen": sum(len(d) for _, d in tr.out),
                    }
                elif op == "react":
                    for r in reactor.command(step[1:], loop.time()):
                        await do_step(r, nested=True)
                    await settle()
                else:
                    raise ValueError("unknown client step %r" % (op,))

            await loop.quiescent()
            try:
                for step in case["client"]:
                    await do_step(step)
                steps_before = loop.steps
                obs.end = await loop.finish(case.get("horizon", 1000.0))
                if reactor is not None:
                    await settle()
                    obs.end = await loop.finish(case.get("horizon", 1000.0))
            except vloop.Deadlock as e:  # pragma: no cover - harness bug
                obs.harness_error = "deadlock: %s" % e
            obs.vtime_end = loop.time()
            obs.steps = loop.steps
            obs.out = list(tr.out)
            obs.pending_out = len(tr.pending)
            obs.closed_at = tr.closed_at
            obs.eof_at = tr.eof_at
            obs.transport_closing = tr.is_closing()
            obs.parser_buffered = _parser_buffered(server)
            left = [t for t in asyncio.all_tasks(loop) if t not in base_tasks and t is not asyncio.current_task()]
            obs.tasks_left = len([t for t in left if not t.done()])
            obs.tasks_left_names = [repr(t.get_coro())[:120] for t in left if not t.done()][:8]
            obs.tasks_left_where = []
            for t in [x for x in left if not x.done()][:6]:
                coro = t.get_coro()
                chain = []
                while coro is not None and len(chain) < 12:
                    fr = getattr(coro, "cr_frame", None) or getattr(coro, "gi_frame", None)
                    if fr is not None:
                        chain.append("%s:%d" % (fr.f_code.co_name, fr.f_lineno))
                    coro = getattr(coro, "cr_await", None) or getattr(coro, "gi_yieldfrom", None)
                obs.tasks_left_where.append(" > ".join(chain))
            if task.done():
                if task.cancelled():
                    obs.handler = "cancelled"
                elif task.exception() is not None:
                    obs.handler = "exception"
                    obs.handler_exc = "".join(traceback.format_exception(task.exception()))[-3000:]
                else:
                    obs.handler = "ok"
            else:
                obs.handler = "pending"
            obs.sanitizers = list(san.reports)
            obs.access = list(ah.records)
            obs.errors = list(eh.records)
            # ---- teardown (not observed) --------------------------------------------------
            obs.end_seq = len(trace.events)
            loop.set_exception_handler(lambda l, c: None)
            if not tr._lost:
                tr.net_reset()
            for t in left + [task]:
                t.cancel()
            for _ in range(50):
                pend = [t for t in left + [task] if not t.done()]
                if not pend:
                    break
                try:
                    await loop.quiescent()
                except Exception:
                    break
                for t in pend:
                    t.cancel()
            for t in left + [task]:
                if t.done() and not t.cancelled():
                    t.exception()

    try:
        vloop.run(main)
    except vloop.SpinDetected as e:
        obs.spin = str(e)
    except CaseTimeout:
        obs.harness_error = "case wall-clock watchdog"
    except BaseException as e:
        if isinstance(e, KeyboardInterrupt):
            raise
        obs.harness_error = "".join(traceback.format_exception(e))[-3000:]
    return obs


# =============================================================================================
# trio
# =============================================================================================

def run_trio(case):
    import trio
    import trio.testing

    from hypercorn.trio.tcp_server import TCPServer
    from hypercorn.trio.worker_context import WorkerContext

    from .net_trio import SimStream, SimTLSStream

    obs = Obs()
    obs.backend = "trio"
    clock = trio.testing.MockClock(rate=0.0, autojump_threshold=float("inf"))
    seed = (case.get("sched") or {}).get("seed", 0)
    try:
        trio._core._run._r.seed(seed)
    except Exception:
        pass
    steps = [0]

    spin = {"n": 0, "t": 0.0, "at": 0}

    class _Inst(trio.abc.Instrument):
        def before_task_step(self, task):
            steps[0] += 1
            tr = obs.trace
            if tr is not None:
                n = len(tr.events)
                t = clock.current_time()
                if n != spin["n"] or t != spin["t"]:
                    spin["n"], spin["t"], spin["at"] = n, t, steps[0]
                elif steps[0] - spin["at"] > 60000:
                    spin["at"] = steps[0] + 10 ** 12
                    raise SpinError("%d task steps without an event or clock advance" % 60000)

    async def wait_blocked():
        # executor threads (WSGI) are invisible to wait_all_tasks_blocked: poll them in real time
        while True:
            await trio.testing.wait_all_tasks_blocked()
            if _thread_jobs[0] <= 0:
                return
            time.sleep(0.0005)

    async def advance(dt, stop_dead=False):
        target = trio.current_time() + dt
        while True:
            await wait_blocked()
            nd = trio.lowlevel.current_statistics().seconds_to_next_deadline
            now = trio.current_time()
            if nd == float("inf") and stop_dead:
                return "dead"
            if now + nd <= target:
                clock.jump(max(nd, 1e-9))
                continue
            if target > now:
                clock.jump(target - now)
            await wait_blocked()
            return "time"

    async def main():
        trace = Trace(trio.current_time)
        obs.trace = trace
        from hypercorn.trio.task_group import TaskGroup as _TG

        with _PutProbe(_TG, trace), Sanitizers(trace) as san:
            config, ah, eh = _mk_config(case, trace, san)
            app, apps = _mk_app(case, trace)
            obs.apps = apps
            context = WorkerContext(case.get("max_requests"))
            conn = case.get("conn") or {}
            inner = SimStream(trace, conn, _jitter_fn(case))
            stream = SimTLSStream(inner, conn.get("alpn")) if conn.get("tls") else inner
            state = dict(case.get("state") or {})
            server = TCPServer(app, config, context, state, stream)
            reactor = _mk_reactor(case, trace)
            obs.reactor = reactor
            consumed = [0]
            done = {}

            async def run_server():
                try:
                    await server.run()
                    done["r"] = "ok"
                    obs.handler_done_at = trio.current_time()
                except trio.Cancelled:
                    done.setdefault("r", "cancelled")
                    raise
                except BaseException as e:
                    done["r"] = "exception"
                    obs.handler_exc = "".join(traceback.format_exception(e))[-3000:]

            def feed(data):
                trace.ev("client", "feed", n=len(data))
                return inner.net_feed(data)

            async def settle():
                await wait_blocked()
                if reactor is not None:
                    for _ in range(10000):
                        new = inner.out[consumed[0]:]
                        consumed[0] = len(inner.out)
                        reply = reactor.react(b"".join(d for _, d in new), new[-1][0] if new else trio.current_time())
                        if not reply:
                            break
                        for r in reply:
                            await do_step(r, nested=True)
                        await wait_blocked()

            async def do_step(step, nested=False):
                op = step[0]
                if op == "feed":
                    feed(step[1])
                    if not nested:
                        await settle()
                elif op == "feed_nosettle":
                    feed(step[1])
                elif op == "turns":
                    for _ in range(step[1]):
                        await trio.lowlevel.checkpoint()
                elif op == "feed_split":
                    data, sizes = step[1], step[2]
                    # the reactive client must not interleave its own frames inside a message that
                    # is still being written: only plain quiescence between the pieces
                    off = 0
                    for n in sizes:
                        if off >= len(data):
                            break
                        feed(data[off:off + n])
                        off += n
                        if len(step) > 3 and step[3] is not None:
                            for _ in range(step[3][min(len(step[3]) - 1, max(0, off) % len(step[3]))]):
                                await trio.lowlevel.checkpoint()
                        else:
                            await wait_blocked()
                    if off < len(data):
                        feed(data[off:])
                    await settle()
                elif op == "settle":
                    await settle()
                elif op == "quiesce":
                    await wait_blocked()
                elif op == "advance":
                    await advance(step[1])
                    await settle()
                elif op == "eof":
                    inner.net_eof()
                    if not nested:
                        await settle()
                elif op == "reset":
                    inner.net_reset()
                    if not nested:
                        await settle()
                elif op == "pause":
                    inner.net_pause()
                elif op == "take":
                    inner.net_take(step[1])
                    if not nested:
                        await settle()
                elif op == "resume":
                    inner.net_resume()
                    if not nested:
                        await settle()
                elif op == "fail_write_at":
                    inner.fail_write_at = inner.nwrites + step[1]
                elif op == "trigger":
                    trace.ev("client", "trigger", name=step[1])
                    apps.trigger(step[1])
                    if not nested:
                        await settle()
                elif op == "terminate":
                    trace.ev("client", "terminate")
                    await context.terminated.set()
                    if not nested:
                        await settle()
                elif op == "mark":
                    obs.marks[step[1]] = {
                        "t": trio.current_time(), "nout": len(inner.out), "seq": len(trace.events),
                        "closed": inner._closed, "handler_done": "r" in done,
                        "outlen": sum(len(d) for _, d in inner.out),
                    }
                elif op == "react":
                    for r in reactor.command(step[1:], trio.current_time()):
                        await do_step(r, nested=True)
                    await settle()
                else:
                    raise ValueError("unknown client step %r" % (op,))

            base = trio.lowlevel.current_statistics().tasks_living
            async with trio.open_nursery() as nursery:
                nursery.start_soon(run_server)
                await wait_blocked()
                for step in case["client"]:
                    await do_step(step)
                obs.end = await advance(case.get("horizon", 1000.0), stop_dead=True)
                if reactor is not None:
                    await settle()
                    obs.end = await advance(case.get("horizon", 1000.0), stop_dead=True)
                obs.vtime_end = trio.current_time()
                obs.steps = steps[0]
                obs.out = list(inner.out)
                obs.pending_out = inner.inflight
                obs.closed_at = inner.closed_at
                obs.eof_at = inner.eof_at
                obs.transport_closing = inner._closed
                obs.parser_buffered = _parser_buffered(server)
                obs.handler = done.get("r", "pending")
                living = trio.lowlevel.current_statistics().tasks_living
                obs.tasks_left = living - base - (0 if "r" in done else 1)
                obs.sanitizers = list(san.reports)
                obs.access = list(ah.records)
                obs.errors = list(eh.records)
                # ---- teardown (not observed) ----------------------------------------------
                obs.end_seq = len(trace.events)
                inner.net_reset()
                inner.net_resume()
                nursery.cancel_scope.cancel()

    _thread_jobs = [0]
    import trio.to_thread as _tt

    orig_run_sync = _tt.run_sync

    async def counting_run_sync(*a, **kw):
        _thread_jobs[0] += 1
        try:
            return await orig_run_sync(*a, **kw)
        finally:
            _thread_jobs[0] -= 1

    _tt.run_sync = counting_run_sync
    # a WSGI thread that calls back into trio and waits (the send path) is parked on trio-side work, not running
    import trio.from_thread as _ft

    orig_from_thread_run = _ft.run

    def parked_from_thread_run(afn, *args, **kw):
        async def wrapped(*a):
            _thread_jobs[0] -= 1  # on the trio thread
            try:
                return await afn(*a)
            finally:
                _thread_jobs[0] += 1
        return orig_from_thread_run(wrapped, *args, **kw)

    _ft.run = parked_from_thread_run
    trio.from_thread.run = parked_from_thread_run
    try:
        trio.run(main, clock=clock, instruments=[_Inst()])
    except CaseTimeout:
        obs.harness_error = "case wall-clock watchdog"
    except BaseException as e:
        if isinstance(e, KeyboardInterrupt):
            raise
        text = "".join(traceback.format_exception(e))
        if "SpinError" in text:
            obs.spin = "task steps without an event or clock advance"
        else:
            obs.harness_error = text[-3000:]
    finally:
        _tt.run_sync = orig_run_sync
        _ft.run = orig_from_thread_run
        trio.from_thread.run = orig_from_thread_run
    return obs


def _alarm(signum, frame):
    raise CaseTimeout()



def _parser_buffered(server):
    """Bytes the HTTP/1 parser of this connection holds unparsed (a probe of hooked state; None when not applicable)."""
    try:
        conn = server.protocol.protocol.connection
        conn = getattr(conn, "h11_connection", conn)
        return len(conn._receive_buffer)
    except Exception:
        return None

def run_case(case, backend, wall_limit=60):
    import signal

    old = None
    try:
        old = signal.signal(signal.SIGALRM, _alarm)
        signal.alarm(int(case.get("wall_limit", wall_limit)))
    except (ValueError, AttributeError):
        old = None
    try:
        if backend == "asyncio":
            obs = run_asyncio(case)
        elif backend == "trio":
            obs = run_trio(case)
        else:
            raise ValueError(backend)
    finally:
        if old is not None:
            signal.alarm(0)
            signal.signal(signal.SIGALRM, old)
    if obs.trace is not None and obs.end_seq is not None:
        del obs.trace.events[obs.end_seq:]  # what happened during teardown is not part of the observation
    return obs
