#!/bin/bash
# selftest/try_patch.sh <seeded-name> <check-id>...   - applies a stored seeded change to a scratch copy of /repo/src and runs the
# named quick checks against it (HYPERCORN_SRC, evidence redirected); prints the signatures reported. The copy is removed.
name=$1; shift
tmp=$(mktemp -d /tmp/hv-try-XXXXXX)
cp -r /repo/src $tmp/src
grep -v '^# ' /verif/seeded/$name/patch.diff | patch -p1 -s -d $tmp || { echo PATCH-FAILED; rm -rf $tmp; exit 2; }
for p in "$@"; do
  HYPERCORN_SRC=$tmp/src HV_EVIDENCE_DIR=$tmp/evidence /verif/bin/check $p --tier ${TIER:-quick} > $tmp/out.txt 2>&1
  echo "$p exit=$? $(grep -o 'sig=[^ ]*' $tmp/out.txt | sort | uniq -c | head -8 | tr '\n' ' ')"
  grep "^$p tier" $tmp/out.txt | cut -c1-160
done
rm -rf $tmp
